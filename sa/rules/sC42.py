"""sC42 — determinism rules added in the fourth strengthening round.

D1 (rules/det.py, shared) is post-processed here: findings on a list that is sorted in place before its first use are
dropped, and for-loop findings get their own construct key (so that an exemption of `list(values)[0]` cannot hide a loop
over the same set).  D1b adds the sinks / sources D1 does not model: `yield from` of a set, sets held by ANOTHER object
(attribute names that only ever hold sets anywhere in the compiler), and sets handed to a function that iterates its
parameter into an order-sensitive effect.  D3g generalises the memo-key rule to every memo container (module level,
default-argument, class or instance attribute).  D3p (sixth round, seed C42h) refines it attribute by attribute: a parameter that enters a memo key only
through projections (p.attr, p.method(), len/type/truth of p, the keys of a **mapping) must be read by the memoised value only through those
projections; p.method() is resolved nominally to the union of the self-attributes every compiler method of that name reads.  D4: values of the clock / process id / random sources never reach emitted
text.  D5: no class-level mutable container is mutated through instances.  D6: a compilation Context is never reused for a
second source."""
import ast, re

from ..core import Rule, AnalysisError, node_src, norm_stmt
from ..engine import pyflow
from ..engine.pyindex import is_self_attr
from . import det


def walk_no_nested(fn):
    """walk a function without entering nested function/class definitions (the nested def node itself is yielded)"""
    todo = list(fn.body) if isinstance(getattr(fn, 'body', None), list) else [fn]
    while todo:
        n = todo.pop()
        yield n
        if isinstance(n, (ast.FunctionDef, ast.AsyncFunctionDef, ast.ClassDef, ast.Lambda)):
            continue
        todo.extend(ast.iter_child_nodes(n))


def _compiler_modules(ix, extra=('Dependencies', 'Cache', 'Utils', 'Inline', 'StringIOTree')):
    return [m for m in ix.modules.values() if (m.name.startswith('Cython.Compiler') or m.short in extra) and '.Tests' not in m.name and m.short != 'TestUtils']


# ------------------------------------------------------------------------------------------------- D1 post-processing
def _fn_by_line(ix, rel, line):
    m = ix.by_rel.get(rel) if hasattr(ix, 'by_rel') else None
    if m is None:
        return None
    best = None
    for qn, owner, fn in ix.functions_of(m):
        end = getattr(fn, 'end_lineno', fn.lineno)
        if fn.lineno <= line <= end and (best is None or fn.lineno >= best.lineno):
            best = fn
    return best


def _sorted_in_place(fn):
    """name -> line of `name.sort(...)` when the name is a fresh list (list(x) / comprehension / [..]) that is not used
    between its creation and the sort"""
    out = {}
    for n in walk_no_nested(fn):
        if isinstance(n, ast.Expr) and isinstance(n.value, ast.Call) and isinstance(n.value.func, ast.Attribute) and n.value.func.attr == 'sort' and isinstance(n.value.func.value, ast.Name):
            name = n.value.func.value.id
            defs = [a for a in walk_no_nested(fn) if isinstance(a, ast.Assign) and any(isinstance(t, ast.Name) and t.id == name for t in a.targets) and a.lineno < n.lineno]
            if not defs:
                continue
            d = max(defs, key=lambda a: a.lineno)
            fresh = isinstance(d.value, (ast.ListComp, ast.List)) or (isinstance(d.value, ast.Call) and isinstance(d.value.func, ast.Name) and d.value.func.id == 'list')
            if not fresh:
                continue
            between = [x for x in walk_no_nested(fn) if isinstance(x, ast.Name) and x.id == name and isinstance(x.ctx, ast.Load) and d.lineno < x.lineno < n.lineno]
            if between:
                continue
            out[name] = (d.lineno, getattr(d, 'end_lineno', d.lineno), n.lineno)
    return out


def rule_D1(ctx):
    r = det.rule_D1(ctx)
    ix = ctx.index
    keep = []
    for f in r.findings:
        fn = _fn_by_line(ix, f.file, f.line)
        dropped = False
        if fn is not None:
            for name, (d0, d1, sline) in _sorted_in_place(fn).items():
                if d0 <= f.line <= d1 and f.line < sline:
                    dropped = True          # the list(...) of a set that is sorted in place right afterwards
                if f.line > sline and f.construct.endswith(':' + name):
                    later = [a for a in walk_no_nested(fn) if isinstance(a, ast.Assign) and any(isinstance(t, ast.Name) and t.id == name for t in a.targets) and sline < a.lineno <= f.line]
                    if not later:
                        dropped = True
        if dropped:
            r.info('dropped (list sorted in place before use): %s' % f.construct)
            continue
        if 'for-loop with order-sensitive body' in f.msg:
            f.construct = f.construct + ':for'
        keep.append(f)
    r.findings = keep
    return r


# ------------------------------------------------------------------------------------------------- D1b
def _set_attr_names(ix, mods):
    """attribute names that are assigned somewhere in the compiler and only ever hold sets"""
    holds = {}
    for m in mods:
        T = det.Taint(ix, m)
        for qn, owner, fn in ix.functions_of(m):
            for n in det.walk_no_nested(fn):
                if isinstance(n, (ast.Assign, ast.AnnAssign)):
                    tg = n.targets if isinstance(n, ast.Assign) else [n.target]
                    val = n.value
                    if val is None:
                        continue
                    for t in tg:
                        if isinstance(t, ast.Attribute):
                            holds.setdefault(t.attr, []).append(bool(T.is_set_expr(val, set(), set())))
        for c in m.classes.values():
            for a, v in c.attrs.items():
                if isinstance(v, ast.AST):
                    holds.setdefault(a, []).append(bool(T.is_set_expr(v, set(), set())) or (isinstance(v, ast.Constant) and v.value is None) and None)
    out = set()
    for a, vs in holds.items():
        vs2 = [v for v in vs if v is not None]
        if vs2 and all(vs2):
            out.add(a)
    return out


def _is_foreign_set(e, set_attrs):
    return isinstance(e, ast.Attribute) and e.attr in set_attrs and not (isinstance(e.value, ast.Name) and e.value.id in ('self', 'cls'))


def _param_sinks(ix, m, T):
    """function name -> {parameter index (self not counted): sink text} for parameters iterated into an order-sensitive effect"""
    out = {}
    for qn, owner, fn in ix.functions_of(m):
        params = [a.arg for a in fn.args.args if a.arg not in ('self', 'cls')]
        if not params:
            continue
        reassigned = {x.id for n in det.walk_no_nested(fn) for x in ([n] if isinstance(n, ast.Name) else []) if isinstance(x.ctx, ast.Store)}
        sinks = {}
        for n in det.walk_no_nested(fn):
            it, sink = None, None
            if isinstance(n, ast.For) and isinstance(n.iter, ast.Name):
                eff = det._order_sensitive_body(n.body)
                if eff:
                    it, sink = n.iter, 'for-loop with order-sensitive body (%s)' % eff
            elif isinstance(n, (ast.ListComp, ast.GeneratorExp)) and isinstance(n.generators[0].iter, ast.Name):
                it, sink = n.generators[0].iter, 'list/generator built from it'
            elif isinstance(n, ast.Call) and isinstance(n.func, ast.Name) and n.func.id in ('list', 'tuple') and n.args and isinstance(n.args[0], ast.Name):
                it, sink = n.args[0], '%s() of it' % n.func.id
            elif isinstance(n, ast.Call) and isinstance(n.func, ast.Attribute) and n.func.attr == 'join' and n.args and isinstance(n.args[0], ast.Name):
                it, sink = n.args[0], 'str.join of it'
            if it is None or it.id not in params or it.id in reassigned:
                continue
            if det._cleansed(fn, n):
                continue
            sinks.setdefault(params.index(it.id), sink)
        if sinks:
            out.setdefault(fn.name, []).append((qn, sinks))
    # only unambiguous names
    return {k: v[0] for k, v in out.items() if len(v) == 1}


def rule_D1b(ctx):
    ix = ctx.index
    r = Rule('D1b', 'no set reaches an order-sensitive effect through `yield from`, through an attribute of another object, or through a callee that iterates its parameter', floor=3)
    mods = _compiler_modules(ix)
    set_attrs = _set_attr_names(ix, mods)
    r.info('attribute names that only hold sets: %s' % sorted(set_attrs))
    if len(set_attrs) < 5:
        raise AnalysisError('D1b: only %d set-valued attribute names found' % len(set_attrs))
    for m in mods:
        T = det.Taint(ix, m)
        T.build_summaries()
        psinks = _param_sinks(ix, m, T)
        for qn, owner, fn in ix.functions_of(m):
            T.cur_owner = owner
            attrs = T.set_attrs(owner)
            tainted = T.tainted_locals(fn, attrs)

            def unordered(e):
                return T.is_unordered(e, tainted, attrs) or _is_foreign_set(e, set_attrs)
            # (0) a dict built by iterating a set keeps the set's order: iterating it is as unordered as the set
            def dict_from_set(e):
                if isinstance(e, ast.DictComp):
                    return unordered(e.generators[0].iter)
                if isinstance(e, ast.Call) and isinstance(e.func, ast.Attribute) and e.func.attr == 'fromkeys' and e.args:
                    return unordered(e.args[0])
                if isinstance(e, ast.Call) and isinstance(e.func, ast.Name) and e.func.id in ('dict', 'OrderedDict') and len(e.args) == 1 and isinstance(e.args[0], (ast.GeneratorExp, ast.ListComp)):
                    return unordered(e.args[0].generators[0].iter)
                return False
            dnames = set()
            for n in det.walk_no_nested(fn):
                if isinstance(n, ast.Assign) and dict_from_set(n.value):
                    dnames |= {t.id for t in n.targets if isinstance(t, ast.Name)}
            for n in det.walk_no_nested(fn):
                it = sink = None
                cands = []
                if isinstance(n, ast.For):
                    cands = [(n.iter, 'for-loop with order-sensitive body (%s)' % det._order_sensitive_body(n.body))] if det._order_sensitive_body(n.body) else []
                elif isinstance(n, (ast.ListComp, ast.GeneratorExp)):
                    cands = [(n.generators[0].iter, 'list/generator built from it')]
                elif isinstance(n, ast.Call) and isinstance(n.func, ast.Name) and n.func.id in ('list', 'tuple') and n.args:
                    cands = [(n.args[0], '%s() of it' % n.func.id)]
                elif isinstance(n, ast.Call) and isinstance(n.func, ast.Attribute) and n.func.attr == 'join' and n.args:
                    cands = [(n.args[0], 'str.join of it')]
                for e, sk in cands:
                    base = e
                    if isinstance(base, ast.Call) and isinstance(base.func, ast.Attribute) and base.func.attr in ('keys', 'values', 'items') and not base.args:
                        base = base.func.value
                    if (isinstance(base, ast.Name) and base.id in dnames) or dict_from_set(base):
                        if det._cleansed(fn, n):
                            continue
                        key = '%s.%s:dict-from-set:%s' % (m.short, qn, norm_stmt(base)[:40])
                        r.inst(key, sample=key)
                        r.violate(key, m.rel, n.lineno, '%s.%s iterates a dict that was filled by iterating a set (%s) into an order-sensitive effect (%s): a dict keeps insertion order, i.e. the hash order of the set'
                                  % (m.short, qn, node_src(base, 40), sk))
            for n in det.walk_no_nested(fn):
                # (1) yield from <set>
                if isinstance(n, ast.YieldFrom):
                    if unordered(n.value):
                        key = '%s.%s:yield-from:%s' % (m.short, qn, norm_stmt(n.value)[:40])
                        r.inst(key, sample=key)
                        r.violate(key, m.rel, n.lineno, '%s.%s yields the elements of the unordered %s: consumers see them in hash / address order; wrap it in sorted()' % (m.short, qn, node_src(n.value, 50)))
                    elif isinstance(n.value, ast.Call) and isinstance(n.value.func, ast.Name) and n.value.func.id == 'sorted' and n.value.args and unordered(n.value.args[0]):
                        r.inst('%s.%s:yield-from-sorted' % (m.short, qn), sample='%s.%s: yield from sorted(set)' % (m.short, qn), nontrivial=False)
                # (2) a set held by another object
                it, sink = None, None
                if isinstance(n, ast.For) and _is_foreign_set(n.iter, set_attrs):
                    eff = det._order_sensitive_body(n.body)
                    if eff:
                        it, sink = n.iter, 'for-loop with order-sensitive body (%s)' % eff
                    else:
                        r.inst('%s.%s:foreign-for:%s' % (m.short, qn, norm_stmt(n.iter)[:40]), nontrivial=False)
                elif isinstance(n, (ast.ListComp, ast.GeneratorExp)) and _is_foreign_set(n.generators[0].iter, set_attrs):
                    it, sink = n.generators[0].iter, 'list/generator built from a set'
                elif isinstance(n, ast.Call) and isinstance(n.func, ast.Name) and n.func.id in ('list', 'tuple') and n.args and _is_foreign_set(n.args[0], set_attrs):
                    it, sink = n.args[0], '%s() of a set' % n.func.id
                elif isinstance(n, ast.Call) and isinstance(n.func, ast.Attribute) and n.func.attr == 'join' and n.args and _is_foreign_set(n.args[0], set_attrs):
                    it, sink = n.args[0], 'str.join of a set'
                if it is not None:
                    key = '%s.%s:%s' % (m.short, qn, norm_stmt(it)[:50])
                    if det._cleansed(fn, n):
                        r.inst(key, nontrivial=False)
                    else:
                        r.inst(key, sample='%s.%s: %s over %s' % (m.short, qn, sink, node_src(it, 40)))
                        r.violate(key, m.rel, n.lineno, '%s.%s iterates %s, which only ever holds a set, into an order-sensitive effect (%s): the result depends on PYTHONHASHSEED / object addresses; wrap it in sorted()'
                                  % (m.short, qn, node_src(it, 50), sink))
                # (3) a set handed to a callee that iterates the parameter
                if isinstance(n, ast.Call):
                    f = n.func
                    fname = f.id if isinstance(f, ast.Name) else f.attr if isinstance(f, ast.Attribute) and isinstance(f.value, ast.Name) and f.value.id in ('self', 'cls') else None
                    if fname in psinks:
                        cq, sinks = psinks[fname]
                        for i, a in enumerate(n.args):
                            if i in sinks:
                                key = '%s.%s->%s:arg%d' % (m.short, qn, fname, i)
                                u = unordered(a)
                                r.inst(key, sample='%s passes %s to %s (iterated there): unordered=%s' % (qn, node_src(a, 30), fname, bool(u)), nontrivial=bool(u))
                                if u:
                                    r.violate(key, m.rel, n.lineno, '%s.%s passes the unordered %s to %s(), which iterates that parameter into an order-sensitive effect (%s)'
                                              % (m.short, qn, node_src(a, 40), fname, sinks[i]))
    pc = ast.parse("def f(self):\n    yield self\n    yield from self.kids\n").body[0]
    r.positive_control(_pc_yield_from(pc), 'yield from a set attribute')
    return r


def _pc_yield_from(fn):
    for n in ast.walk(fn):
        if isinstance(n, ast.YieldFrom) and isinstance(n.value, ast.Attribute) and n.value.attr == 'kids':
            return True
    return False


# ------------------------------------------------------------------------------------------------- D3g
def _closure(fn):
    params = [a.arg for a in fn.args.args + fn.args.kwonlyargs]
    if fn.args.kwarg:
        params.append(fn.args.kwarg.arg)
    if fn.args.vararg:
        params.append(fn.args.vararg.arg)
    deps = {p: {p} for p in params}
    edges = []
    for n in walk_no_nested(fn):
        if isinstance(n, ast.Assign):
            src = {x.id for x in ast.walk(n.value) if isinstance(x, ast.Name)}
            for t in n.targets:
                for x in ast.walk(t):
                    if isinstance(x, ast.Name) and isinstance(x.ctx, ast.Store):
                        edges.append((x.id, src))
                    elif isinstance(x, ast.Subscript) and isinstance(x.ctx, ast.Store) and isinstance(x.value, ast.Name):
                        edges.append((x.value.id, src | {y.id for y in ast.walk(x.slice) if isinstance(y, ast.Name)}))
        elif isinstance(n, ast.AugAssign) and isinstance(n.target, ast.Name):
            edges.append((n.target.id, {x.id for x in ast.walk(n.value) if isinstance(x, ast.Name)} | {n.target.id}))
        elif isinstance(n, (ast.For, ast.comprehension)):
            src = {x.id for x in ast.walk(n.iter) if isinstance(x, ast.Name)}
            for x in ast.walk(n.target):
                if isinstance(x, ast.Name):
                    edges.append((x.id, src))
        elif isinstance(n, ast.If):
            pass
    # control dependence on a parameter test that selects the value: `if scope: safe = ...`
    for n in walk_no_nested(fn):
        if isinstance(n, ast.If):
            tn = {x.id for x in ast.walk(n.test) if isinstance(x, ast.Name)}
            for b in n.body + n.orelse:
                for x in ast.walk(b):
                    if isinstance(x, ast.Assign):
                        for t in x.targets:
                            if isinstance(t, ast.Name):
                                edges.append((t.id, tn))
    changed = True
    while changed:
        changed = False
        for tgt, src in edges:
            cur = deps.setdefault(tgt, set())
            add = set()
            for s in src:
                add |= deps.get(s, set())
            if not add <= cur:
                cur |= add
                changed = True
    return deps, params


def _memo_sites(ix):
    """every store `container[key] = value` into a memo container (module level, default argument, class or instance attribute with "cache" in its name)"""
    for m in _compiler_modules(ix, extra=()):
        for qn, owner, fn in ix.functions_of(m):
            if not any(isinstance(n, ast.Assign) and any(isinstance(t, ast.Subscript) for t in n.targets) for n in walk_no_nested(fn)):
                continue
            if 'cache' not in ast.unparse(fn).lower():
                continue
            deps, params = _closure(fn)
            dflt_caches = set()
            pos = fn.args.args + fn.args.kwonlyargs
            dflts = [None] * (len(fn.args.args) - len(fn.args.defaults)) + list(fn.args.defaults) + list(fn.args.kw_defaults)
            for a, d in zip(pos, dflts):
                if isinstance(d, ast.Dict) and not d.keys:
                    dflt_caches.add(a.arg)
            for n in walk_no_nested(fn):
                if not isinstance(n, ast.Assign):
                    continue
                for t in n.targets:
                    if not isinstance(t, ast.Subscript):
                        continue
                    base = t.value
                    cname = None
                    implicit = set()
                    if isinstance(base, ast.Name) and (base.id in dflt_caches or ('cache' in base.id.lower() and base.id in m.bindings)):
                        cname = base.id
                    elif isinstance(base, ast.Attribute) and 'cache' in base.attr.lower() and isinstance(base.value, ast.Name) and base.value.id in params:
                        cname = ast.unparse(base)
                        implicit = {base.value.id}
                    if cname is None:
                        continue
                    yield m, qn, fn, n, t, cname, implicit, deps, params, dflt_caches


def rule_D3g(ctx):
    ix = ctx.index
    r = Rule('D3g', 'every memo container (module level, default argument, class or instance attribute with "cache" in its name) is keyed by every parameter the memoised value is computed from', floor=6)
    for m, qn, fn, n, t, cname, implicit, deps, params, dflt_caches in _memo_sites(ix):
        used = set()
        for x in ast.walk(n.value):
            if isinstance(x, ast.Name):
                used |= deps.get(x.id, set())
        knames = set()
        for x in ast.walk(t.slice):
            if isinstance(x, ast.Name):
                knames |= deps.get(x.id, set())
        key = '%s.%s:%s' % (m.short, qn, cname)
        relevant = (used & set(params)) - dflt_caches
        r.inst(key, sample='%s caches by (%s); value depends on parameters %s' % (key, node_src(t.slice, 40), sorted(relevant)))
        missing = relevant - knames - implicit
        # a mapping parameter used as a whole for the value but only through single entries for the key
        kexpr = t.slice
        if isinstance(kexpr, ast.Name):
            ds = [a.value for a in walk_no_nested(fn) if isinstance(a, ast.Assign) and any(isinstance(x, ast.Name) and x.id == kexpr.id for x in a.targets)]
            if len(ds) == 1:
                kexpr = ds[0]
        for p in sorted(relevant & knames):
            proj = set()
            whole = False
            for x in ast.walk(kexpr):
                if isinstance(x, ast.Call) and isinstance(x.func, ast.Attribute) and x.func.attr == 'get' and isinstance(x.func.value, ast.Name) and x.func.value.id == p:
                    proj.add(id(x.func.value))
                if isinstance(x, ast.Subscript) and isinstance(x.value, ast.Name) and x.value.id == p and isinstance(x.slice, ast.Constant):
                    proj.add(id(x.value))
            for x in ast.walk(kexpr):
                if isinstance(x, ast.Name) and x.id == p and id(x) not in proj:
                    whole = True
            uses_whole = any(isinstance(x, ast.Name) and x.id == p and not _projected(n.value, x) for x in ast.walk(n.value))
            if proj and not whole and uses_whole:
                r.violate(key + ':partial:' + p, m.rel, n.lineno,
                          '%s memoises a value computed from the whole mapping %r in %s but the key (%s) only looks at single entries of it: two requests that differ in another entry share one memo slot'
                          % (qn, p, cname, node_src(kexpr, 50)))
        if missing:
            r.violate(key + ':' + ','.join(sorted(missing)), m.rel, n.lineno,
                      '%s memoises a value computed from parameter(s) %s in %s but the key (%s) does not depend on them: a later request that differs only there '
                      '(another module of the same process, another instantiation) gets the value computed for the first one' % (qn, sorted(missing), cname, node_src(t.slice, 50)))
    return r


def _projected(root, name_node):
    for x in ast.walk(root):
        if isinstance(x, ast.Call) and isinstance(x.func, ast.Attribute) and x.func.attr == 'get' and x.func.value is name_node:
            return True
        if isinstance(x, ast.Subscript) and x.value is name_node and isinstance(x.slice, ast.Constant):
            return True
    return False


# ------------------------------------------------------------------------------------------------- D2x / D4
ND_CALLS = {('time', 'time'), ('time', 'asctime'), ('time', 'ctime'), ('time', 'strftime'), ('time', 'localtime'), ('time', 'gmtime'), ('time', 'perf_counter'), ('time', 'monotonic'),
            ('os', 'getpid'), ('os', 'getppid'), ('os', 'urandom'), ('os', 'times'), ('uuid', 'uuid1'), ('uuid', 'uuid4'), ('datetime', 'now'), ('datetime', 'today'), ('datetime', 'utcnow'),
            ('date', 'today'), ('random', 'random'), ('random', 'randint'), ('random', 'choice'), ('random', 'getrandbits'), ('random', 'shuffle'), ('random', 'sample'),
            ('tempfile', 'mktemp'), ('tempfile', 'mkdtemp'), ('tempfile', 'mkstemp'), ('threading', 'get_ident'), ('socket', 'gethostname'), ('platform', 'node')}
ND_NAMES = {'time', 'perf_counter', 'getpid', 'urandom', 'uuid4', 'uuid1', 'monotonic', 'asctime', 'ctime'}
EMIT = re.compile(r'^(put|putln|put_safe|write|put_[a-z_]+|putln_[a-z_]+|mark_pos|declaration_code)$')


def _nd_call(n, m):
    if not isinstance(n, ast.Call):
        return None
    f = n.func
    if isinstance(f, ast.Attribute) and isinstance(f.value, ast.Name) and (f.value.id, f.attr) in ND_CALLS:
        return '%s.%s()' % (f.value.id, f.attr)
    if isinstance(f, ast.Attribute) and isinstance(f.value, ast.Attribute) and (f.value.attr, f.attr) in ND_CALLS:
        return '%s.%s()' % (f.value.attr, f.attr)
    if isinstance(f, ast.Name) and f.id in ND_NAMES:
        imp = m.imports.get(f.id)
        if imp and imp[0] == 'symbol' and imp[1] in ('time', 'os', 'uuid'):
            return '%s()' % f.id
    return None


def rule_D4(ctx):
    ix = ctx.index
    r = Rule('D4', 'values of the clock, the process id and random sources never reach emitted text (code writer calls, returned strings)', floor=2)
    for m in _compiler_modules(ix):
        for qn, owner, fn in ix.functions_of(m):
            srcs = [(n, _nd_call(n, m)) for n in walk_no_nested(fn)]
            srcs = [(n, s) for n, s in srcs if s]
            if not srcs:
                continue
            debug = fn.name in ('__repr__', '__str__', 'dump', 'dump_pos', 'print_call_chain', '__hash__', '__eq__', '__lt__') or 'debug' in fn.name.lower()
            tainted = {}
            for _ in range(4):
                for n in walk_no_nested(fn):
                    if isinstance(n, (ast.Assign, ast.AugAssign, ast.AnnAssign)) and getattr(n, 'value', None) is not None:
                        why = None
                        for x in ast.walk(n.value):
                            if any(x is s for s, _ in srcs):
                                why = [t for s, t in srcs if s is x][0]
                            elif isinstance(x, ast.Name) and x.id in tainted:
                                why = tainted[x.id]
                        if why:
                            # numeric differences of two clock readings (timing) stay tainted too: they are not to be emitted either
                            for t in (n.targets if isinstance(n, ast.Assign) else [n.target]):
                                for y in ast.walk(t):
                                    if isinstance(y, ast.Name) and isinstance(y.ctx, ast.Store):
                                        tainted.setdefault(y.id, why)

            def carries(e):
                for x in ast.walk(e):
                    for s, t in srcs:
                        if x is s:
                            return t
                    if isinstance(x, ast.Name) and x.id in tainted and isinstance(x.ctx, ast.Load):
                        return tainted[x.id]
                return None

            def compared_only(e, node):
                return False
            for s, what in srcs:
                key = '%s.%s:%s' % (m.short, qn, what)
                r.inst(key, sample=key)
            if debug:
                continue
            reported = set()
            local_files = set()
            for n in walk_no_nested(fn):
                if isinstance(n, ast.withitem) and isinstance(n.optional_vars, ast.Name) and isinstance(n.context_expr, ast.Call) and 'open' in ast.unparse(n.context_expr.func):
                    local_files.add(n.optional_vars.id)
                if isinstance(n, ast.Assign) and isinstance(n.value, ast.Call) and 'open' in ast.unparse(n.value.func):
                    local_files |= {t.id for t in n.targets if isinstance(t, ast.Name)}
            for n in walk_no_nested(fn):
                sink = None
                if isinstance(n, ast.Call) and isinstance(n.func, ast.Attribute) and isinstance(n.func.value, ast.Name) and n.func.value.id in local_files:
                    continue        # a report / result file opened right here, not a code writer
                if isinstance(n, ast.Call) and isinstance(n.func, ast.Attribute) and EMIT.match(n.func.attr) and not (isinstance(n.func.value, ast.Attribute) and n.func.value.attr in ('stderr', 'stdout')):
                    for a in list(n.args) + [k.value for k in n.keywords]:
                        w = carries(a)
                        if w and _stringish(a, tainted, srcs):
                            sink = ('is passed to %s()' % n.func.attr, w)
                elif isinstance(n, ast.Return) and n.value is not None:
                    w = carries(n.value)
                    if w and _stringish(n.value, tainted, srcs) and w not in ('id()', 'hash()'):
                        sink = ('is returned inside a string', w)
                if sink and (qn, sink[1]) not in reported:
                    reported.add((qn, sink[1]))
                    r.violate('%s.%s:%s' % (m.short, qn, sink[1]), m.rel, n.lineno,
                              '%s.%s: the value of %s %s: the generated text differs between two runs / two worker processes on identical input' % (m.short, qn, sink[1], sink[0]))
    return r


def _stringish(e, tainted, srcs):
    """does the expression build text from the tainted value (formatting, concatenation, str())?"""
    for x in ast.walk(e):
        if isinstance(x, ast.JoinedStr):
            return True
        if isinstance(x, ast.BinOp) and isinstance(x.op, (ast.Mod, ast.Add)):
            return True
        if isinstance(x, ast.Call) and isinstance(x.func, ast.Name) and x.func.id in ('str', 'repr', 'hex', 'format'):
            return True
        if isinstance(x, ast.Call) and isinstance(x.func, ast.Attribute) and x.func.attr in ('format', 'join', 'asctime', 'ctime', 'strftime', 'isoformat'):
            return True
    return isinstance(e, ast.Name)


# ------------------------------------------------------------------------------------------------- D5
MUTATORS = ('append', 'add', 'update', 'setdefault', 'extend', 'pop', 'insert', 'clear', 'remove', 'discard', 'popitem', 'appendleft')


def rule_D5(ctx):
    ix = ctx.index
    r = Rule('D5', 'no class-level mutable container of a compiler class is mutated through instances (it would be shared by all modules compiled in the process)', floor=1)
    mods = _compiler_modules(ix, extra=())
    cand = {}
    for m in mods:
        for c in m.classes.values():
            for a, v in c.attrs.items():
                if isinstance(v, (ast.Dict, ast.List, ast.Set)) or (isinstance(v, ast.Call) and isinstance(v.func, ast.Name) and v.func.id in ('dict', 'list', 'set', 'defaultdict', 'OrderedDict', 'OrderedSet')):
                    cand.setdefault(a, []).append(c)
    if not cand:
        raise AnalysisError('D5: no class-level containers found')
    rebinds, muts = {}, {}
    for m in mods:
        for qn, owner, fn in ix.functions_of(m):
            alias = {}
            for n in walk_no_nested(fn):
                if isinstance(n, ast.Assign) and len(n.targets) == 1 and isinstance(n.targets[0], ast.Name) and isinstance(n.value, ast.Attribute) and n.value.attr in cand:
                    alias[n.targets[0].id] = n.value.attr
            for n in walk_no_nested(fn):
                if isinstance(n, ast.Attribute) and n.attr in cand and isinstance(n.ctx, ast.Store) and not (isinstance(n.value, ast.Name) and n.value.id == 'cls'):
                    rebinds.setdefault(n.attr, []).append('%s.%s' % (m.short, qn))

                def attr_of(e):
                    if isinstance(e, ast.Attribute) and e.attr in cand:
                        return e.attr
                    if isinstance(e, ast.Name) and e.id in alias:
                        return alias[e.id]
                    return None
                a = None
                if isinstance(n, ast.Call) and isinstance(n.func, ast.Attribute) and n.func.attr in MUTATORS:
                    a = attr_of(n.func.value)
                elif isinstance(n, ast.Subscript) and isinstance(n.ctx, (ast.Store, ast.Del)):
                    a = attr_of(n.value)
                elif isinstance(n, ast.AugAssign):
                    a = attr_of(n.target)
                if a:
                    muts.setdefault(a, []).append(('%s.%s' % (m.short, qn), m.rel, n.lineno))
    for a, classes in sorted(cand.items()):
        if a not in muts:
            continue
        for c in classes:
            key = '%s.%s' % (c.qual, a)
            rb = rebinds.get(a)
            r.inst(key, sample='%s: class-level container, mutated in %s; rebound per instance: %s' % (key, sorted({x[0] for x in muts[a]})[:3], bool(rb)))
            if not rb:
                where = muts[a][0]
                r.violate(key, c.module.rel, c.node.lineno,
                          '%s is a class-level mutable container that is mutated through instances (e.g. in %s) and never rebound per instance: its content survives from one compiled module to the next, '
                          'so generated names / code depend on what was compiled before in the same process' % (key, where[0]))
    return r


# ------------------------------------------------------------------------------------------------- D6
def rule_D6(ctx):
    r = Rule('D6', 'Main.compile_multiple never hands a Context that has already compiled a source to compile_single again', floor=1)
    rel = 'Cython/Compiler/Main.py'
    tree = ctx.parse(rel)
    fns = [n for n in tree.body if isinstance(n, ast.FunctionDef) and n.name == 'compile_multiple']
    if not fns:
        raise AnalysisError('Main.compile_multiple not found')
    fn = fns[0]
    r.inst('Main.compile_multiple', sample='typestate of the context variable over the loop')
    bad = _ctx_reuse(fn)
    for line, var in sorted(bad):
        r.violate('Main.compile_multiple:context-reused', rel, line,
                  'compile_multiple passes the Context in %r to compile_single for a second source without creating a new one: declarations, utility code and type caches of the first module leak into '
                  'the second, whose C code then depends on the order of the sources' % var)
    pc = ast.parse("def compile_multiple(sources, options):\n    context = None\n    for s in sources:\n        if context is None:\n            context = Context.from_options(options)\n"
                   "        r = compile_single(s, options, context=context)\n").body[0]
    r.positive_control(bool(_ctx_reuse(pc)), 'context kept across iterations')
    return r


def _ctx_reuse(fn):
    bad = set()

    def fresh_expr(e):
        return (isinstance(e, ast.Constant) and e.value is None) or (isinstance(e, ast.Call) and 'Context' in ast.unparse(e.func))

    def tr(node, state):
        s = set(state)
        for c in pyflow.calls_in(node):
            name = c.func.id if isinstance(c.func, ast.Name) else c.func.attr if isinstance(c.func, ast.Attribute) else None
            if name in ('compile_single', 'run_pipeline', 'run_cached_pipeline'):
                for a in list(c.args) + [k.value for k in c.keywords]:
                    if isinstance(a, ast.Name) and ('ctxvar', a.id) in s or isinstance(a, ast.Name) and a.id == 'context':
                        if ('used', a.id) in s:
                            s.add(('BAD', c.lineno, a.id))
                        s.add(('used', a.id))
        if isinstance(node, ast.Assign):
            for t in node.targets:
                if isinstance(t, ast.Name):
                    if fresh_expr(node.value):
                        s.discard(('used', t.id))
                        s.add(('ctxvar', t.id))
                        if isinstance(node.value, ast.Constant):
                            s.add(('none', t.id))
                        else:
                            s.discard(('none', t.id))
                    elif ('ctxvar', t.id) in s:
                        s.discard(('ctxvar', t.id))
        return frozenset(s)
    o = pyflow.Flow(tr).run(fn)
    for st in o.normal | o.returns | o.raises:
        for f in st:
            if f[0] == 'BAD':
                bad.add((f[1], f[2]))
    return bad


# ------------------------------------------------------------------------------------------------- D3p: projections in memo keys
# A memo is sound only if its key determines the memoised value.  D3g asks that every parameter the value is computed from
# occurs in the key at all; D3p looks at HOW it occurs: a parameter that enters the key only through projections (p.attr,
# p.method(), len(p), type(p), bool(p), p.keys() ...) is identified by those projections only, so
# everything the value reads of p must be one of them.
_WHOLE_VIEWS = {'items', 'values', 'copy', 'iteritems', 'itervalues', '__iter__'}      # p.items() sees all of a mapping
_KEY_VIEWS = {'keys', 'iterkeys'}
_LOSSY_BUILTINS = {'len', 'min', 'max', 'sum', 'any', 'all'}                              # f(p) that identify p only partially
_LOSSY_PATH = {'basename', 'dirname', 'splitext', 'split'}                                   # os.path.f(p)
_ITER_BUILTINS = {'sorted', 'list', 'tuple', 'set', 'frozenset', 'iter', 'reversed'}


def _parents(root):
    par = {}
    for n in ast.walk(root):
        for c in ast.iter_child_nodes(n):
            par[c] = n
    return par


def _classify(x, par, is_kwdict, elem_of=None):
    """how the occurrence `x` (a Name in Load context) of a parameter is used: 'truth' | ('attr', chain) | ('call', name, node) | ('proj', label) | 'whole'"""
    p = par.get(x)
    if isinstance(p, ast.Attribute) and p.value is x:
        chain, top = [p.attr], p
        while isinstance(par.get(top), ast.Attribute) and par[top].value is top:
            top = par[top]
            chain.append(top.attr)
        call = par.get(top)
        if isinstance(call, ast.Call) and call.func is top:
            if len(chain) > 1:
                return ('attr', tuple(chain[:-1]))
            mname = chain[0]
            if mname in _WHOLE_VIEWS:
                return 'whole'
            if mname in _KEY_VIEWS:
                return ('proj', 'keys()')
            if mname == 'get' and call.args and isinstance(call.args[0], ast.Constant):
                return ('proj', '[%r]' % (call.args[0].value,))
            return ('call', mname, call)
        return ('attr', tuple(chain))
    if isinstance(p, ast.Subscript) and p.value is x and isinstance(p.slice, ast.Constant):
        return ('proj', '[%r]' % (p.slice.value,))
    if isinstance(p, (ast.IfExp, ast.If, ast.While)) and p.test is x:
        return 'truth'
    if isinstance(p, ast.UnaryOp) and isinstance(p.op, ast.Not):
        return 'truth'
    if isinstance(p, ast.BoolOp) and p.values[-1] is not x:
        return 'truth'
    if isinstance(p, ast.BoolOp) and isinstance(par.get(p), (ast.If, ast.While, ast.IfExp)) and par[p].test is p:
        return 'truth'
    if isinstance(p, ast.Compare) and len(p.ops) == 1 and isinstance(p.ops[0], (ast.Is, ast.IsNot, ast.Eq, ast.NotEq)):
        other = p.comparators[0] if p.left is x else p.left
        if isinstance(other, ast.Constant) and other.value is None:
            return 'truth'
    if isinstance(p, ast.Call) and isinstance(p.func, ast.Name) and x in p.args:
        f = p.func.id
        first = p.args[0] is x
        if f == 'bool' and first:
            return 'truth'
        if f in _LOSSY_BUILTINS and first:
            return ('proj', f + '()')
        if f in ('type', 'isinstance', 'issubclass') and first:
            return ('proj', 'type()')
        if f == 'getattr' and first and len(p.args) >= 2 and isinstance(p.args[1], ast.Constant) and isinstance(p.args[1].value, str):
            return ('attr', (p.args[1].value,))
        if f == 'hasattr' and first and len(p.args) == 2 and isinstance(p.args[1], ast.Constant):
            return ('proj', 'hasattr %r' % (p.args[1].value,))
        if is_kwdict and f in _ITER_BUILTINS and first:
            return ('proj', 'keys()')
    if isinstance(p, ast.Call) and isinstance(p.func, ast.Attribute) and p.func.attr in _LOSSY_PATH and p.args and p.args[0] is x:
        return ('proj', p.func.attr + '()')
    if isinstance(p, ast.comprehension) and p.iter is x:
        if is_kwdict:
            return ('proj', 'keys()')
        return 'whole'
    return 'whole'


def _method_reads(ix, mname, depth=0, stack=()):
    """first-level attributes of `self` that any compiler method called `mname` reads (through self.helper() calls as well); None = not resolvable;
    '*' in the result = `self` escapes as a whole"""
    cands = []
    for m in _compiler_modules(ix):
        for c in ix._all_classes(m):
            f = c.methods.get(mname)
            if f is not None:
                cands.append((c, f))
    if not cands or len(cands) > 12:
        return None
    out = set()
    for c, f in cands:
        if not f.args.args:
            return None
        if any(isinstance(d, ast.Name) and d.id in ('staticmethod', 'classmethod') for d in f.decorator_list):
            continue
        sn = f.args.args[0].arg
        par = _parents(f)
        for x in ast.walk(f):
            if not (isinstance(x, ast.Name) and x.id == sn and isinstance(x.ctx, ast.Load)):
                continue
            k = _classify(x, par, False)
            if k == 'truth':
                continue
            if isinstance(k, tuple) and k[0] == 'attr':
                out.add(k[1][0])
            elif isinstance(k, tuple) and k[0] == 'call':
                if k[1] in stack or k[1] == mname:
                    continue
                sub = _method_reads(ix, k[1], depth + 1, stack + (mname,)) if depth < 3 else None
                if sub is None:
                    out.add('*')
                else:
                    out |= sub
            elif isinstance(k, tuple) and k[0] == 'proj':
                out.add(k[1])
            else:
                out.add('*')
    return out


def _key_and_value_exprs(fn, n, t, params):
    """(expressions the key is built from, expressions the stored value is computed from): the store's own operands plus the right-hand sides of the
    local assignments they are built from (flow-insensitive) and the tests that select between such assignments"""
    assigns = {}
    tests = {}
    for a in walk_no_nested(fn):
        if isinstance(a, ast.Assign):
            for tg in a.targets:
                for y in ast.walk(tg):
                    if isinstance(y, ast.Name) and isinstance(y.ctx, ast.Store):
                        assigns.setdefault(y.id, []).append(a.value)
                    elif isinstance(y, ast.Subscript) and isinstance(y.ctx, ast.Store) and isinstance(y.value, ast.Name):
                        assigns.setdefault(y.value.id, []).append(a.value)
        elif isinstance(a, ast.AugAssign) and isinstance(a.target, ast.Name):
            assigns.setdefault(a.target.id, []).append(a.value)
        elif isinstance(a, (ast.For, ast.comprehension)):
            for y in ast.walk(a.target):
                if isinstance(y, ast.Name):
                    assigns.setdefault(y.id, []).append(a.iter)
        elif isinstance(a, ast.If):
            for b in a.body + a.orelse:
                for y in ast.walk(b):
                    if isinstance(y, ast.Assign):
                        for tg in y.targets:
                            if isinstance(tg, ast.Name):
                                tests.setdefault(tg.id, []).append(a.test)

    def close(roots):
        exprs, seen, todo = list(roots), set(), list(roots)
        while todo:
            e = todo.pop()
            for y in ast.walk(e):
                if isinstance(y, ast.Name) and isinstance(y.ctx, ast.Load) and y.id not in seen:
                    seen.add(y.id)
                    for v in assigns.get(y.id, []) + tests.get(y.id, []):
                        # a parameter re-bound to a container of itself (`components = tuple(components)`) is the same value
                        if y.id in params and isinstance(v, ast.Call) and isinstance(v.func, ast.Name) and v.func.id in ('tuple', 'list', 'frozenset') \
                                and len(v.args) == 1 and isinstance(v.args[0], ast.Name) and v.args[0].id == y.id:
                            continue
                        exprs.append(v)
                        todo.append(v)
        return exprs
    return close([t.slice]), close([n.value])


def _uses(exprs, p, is_kwdict):
    out = []
    for e in exprs:
        root = ast.Expression(body=e) if not isinstance(e, ast.Expression) else e
        par = _parents(root)
        for x in ast.walk(e):
            if isinstance(x, ast.Name) and x.id == p and isinstance(x.ctx, ast.Load):
                out.append((_classify(x, par, is_kwdict), x))
    return out


def _show_use(u):
    if u == 'truth':
        return 'its truth value'
    if u == 'whole':
        return 'the object itself'
    if u[0] == 'attr':
        return '.' + '.'.join(u[1])
    if u[0] == 'call':
        return '.%s()' % u[1]
    return u[1]


def memo_projection_findings(ix, m, qn, fn, n, t, params, relevant):
    """[(param, key projections, offending value use, detail)] and the list of (param, kind) obligations looked at"""
    kexprs, vexprs = _key_and_value_exprs(fn, n, t, params)
    findings, looked, infos = [], [], []
    kwd = fn.args.kwarg.arg if fn.args.kwarg else None
    for p in sorted(relevant):
        ku = [u for u, _ in _uses(kexprs, p, p == kwd)]
        if not ku:
            looked.append((p, 'indirect'))
            continue
        if 'whole' in ku:
            looked.append((p, 'whole'))
            continue
        looked.append((p, 'projected'))
        kattrs = {u[1] for u in ku if isinstance(u, tuple) and u[0] == 'attr'}
        kcalls = {u[1] for u in ku if isinstance(u, tuple) and u[0] == 'call'}
        kproj = {u[1] for u in ku if isinstance(u, tuple) and u[0] == 'proj'}
        shown = sorted({_show_use(u) for u in ku if u != 'truth'}) or ['its truth value']
        for u, x in _uses(vexprs, p, p == kwd):
            bad = None
            if u == 'truth':
                continue
            if u == 'whole':
                bad = 'uses %r as a whole (%s)' % (p, node_src(_stmt_of(x, vexprs), 60))
            elif u[0] == 'attr':
                if not any(u[1][:len(k)] == k for k in kattrs):
                    bad = 'reads %s.%s' % (p, '.'.join(u[1]))
            elif u[0] == 'proj':
                if u[1] not in kproj:
                    bad = 'reads %s of %r' % (u[1], p)
            elif u[0] == 'call':
                if u[1] in kcalls:
                    continue
                reads = _method_reads(ix, u[1])
                if reads is None:
                    infos.append('%s.%s: method %s.%s() of a memo parameter could not be resolved; its reads are not compared with the key' % (m.short, qn, p, u[1]))
                    continue
                missing = sorted(a for a in reads if a not in {k[0] for k in kattrs} and a not in kproj)
                if missing:
                    bad = 'calls %s.%s(), which reads %s' % (p, u[1], ', '.join('the whole object' if a == '*' else 'self.' + a for a in missing))
            if bad:
                findings.append((p, shown, bad))
                break
    return findings, looked, infos


def _stmt_of(x, exprs):
    for e in exprs:
        if any(y is x for y in ast.walk(e)):
            return e
    return x


_D3P_PC = '''
_type_identifier_cache = {}
def type_identifier_from_declaration(decl, scope=None):
    key = (decl, scope.name if scope else None)
    safe = _type_identifier_cache.get(key)
    if safe is None:
        safe = decl
        if scope:
            safe = scope.mangle(prefix="", name=safe)
        _type_identifier_cache[key] = safe
    return safe
'''


def rule_D3p(ctx):
    ix = ctx.index
    r = Rule('D3p', 'a parameter that enters a memo key only through projections (an attribute, a method result, len/type/truth, the keys of a mapping) '
             'is read by the memoised value only through those projections', floor=16)
    for m, qn, fn, n, t, cname, implicit, deps, params, dflt_caches in _memo_sites(ix):
        used = set()
        for x in ast.walk(n.value):
            if isinstance(x, ast.Name):
                used |= deps.get(x.id, set())
        relevant = (used & set(params)) - dflt_caches - implicit
        findings, looked, infos = memo_projection_findings(ix, m, qn, fn, n, t, params, relevant)
        for msg in infos:
            r.info(msg)
        for p, kind in looked:
            key = '%s.%s:%s:%s' % (m.short, qn, cname, p)
            r.inst(key, sample='%s: parameter %s enters the key (%s) %s' % (key, p, node_src(t.slice, 40), {'whole': 'as a whole', 'indirect': 'through other values only',
                                                                                                         'projected': 'through projections only'}[kind]), nontrivial=(kind == 'projected'))
        for p, shown, bad in findings:
            r.violate('%s.%s:%s:projection:%s' % (m.short, qn, cname, p), m.rel, n.lineno,
                      '%s memoises a value in %s whose key identifies parameter %r only by %s, but the value %s: two requests that agree in the key and differ there '
                      '(like-named scopes of two modules compiled in one process, two mappings with the same keys) share one memo slot, so the output depends on what was compiled before'
                      % (qn, cname, p, ', '.join(shown), bad))
    # embedded positive example (the key names the scope by .name, the value asks the scope to mangle)
    tree = ast.parse(_D3P_PC)
    fn = tree.body[1]
    deps, params = _closure(fn)
    st = [a for a in ast.walk(fn) if isinstance(a, ast.Assign) and isinstance(a.targets[0], ast.Subscript)][0]

    class _M:
        short = 'pc'
    f2, _, _ = memo_projection_findings(ix, _M, 'pc', fn, st, st.targets[0], params, {'decl', 'scope'})
    r.positive_control([p for p, _, _ in f2] == ['scope'], 'memo keyed by scope.name while the value calls scope.mangle()')
    return r
