"""C43 — two rules written from defects D6 (deferred syntax errors of the match parser, tokenizer errors inside tentative scans).

C43-DEFERRED   typestate of *placeholder nodes* (Nodes.ErrorNode today): a node class without any node interface that the parser puts into the
               tree in place of a real node so that a syntax error found while scanning tentatively is reported later.  From the parser's own
               constructor calls (flow-insensitive value flow through the p_* functions: returns, locals, lists, tuples, keyword arguments) the rule
               derives every child slot that may hold the placeholder, and decides
                 (exit)      the transform handler that turns the placeholder into the error leaves on every path by raising; a path that returns
                             None puts None into every *scalar* slot (violation per slot the parent class dereferences without a None test), a
                             path that returns a node keeps the placeholder alive for the next phase;
                 (reach)     every slot that may hold the placeholder is listed in child_attrs of its class, otherwise the handler never sees it;
                 (visit)     the handlers of the eliminating transform for every class whose subtree may hold the placeholder visit the children;
                 (pre-visit) no method that such a handler calls on the node *before* it visited the children reaches - through self calls and
                             calls on slot contents, typed by the derived slot tables - an attribute access on a value that may be the placeholder
                             when the placeholder class does not define that attribute (isinstance guards are honoured).
C43-TOKERR     errors of the tokenizer (reports made by lexer action methods of the scanner, found through Lexicon's Method('...') table and the
               body of next()) inside a *discard region* (a generator context manager that pushes a held-error list, pops it with ignore=True,
               swallows CompileError around its yield and rewinds tokens of a scanner that lives on - Scanning.tentatively_scan).  The text behind
               such an error is consumed, so no alternative parse can see it again.  Decided by evaluating the region's handler for the two kinds
               of error (tokenizer / parser) over the discriminator it tests (membership in a scanner-owned list):
                 (escape)    a tokenizer error leaves the region as an exception (or is re-reported from the held list after the pop);
                 (tentative) a parser error is still swallowed;
                 (record)    every tokenizer error site goes through a reporter that adds the error object to the discriminator list before it
                             can raise; (abort) unless the region re-reports held errors, every site raises while a region is active (the reporter's
                             raise guard is evaluated with the call site's constant arguments and the facts the region establishes);
                 (writers)   the discriminator list is written by the scanner's constructor and by recording reporters only.
Static only: ASTs of the repository sources; nothing is imported or run.
"""
import ast

from ..core import Rule, AnalysisError, node_src
from ..engine.pyindex import walk_no_nested

UNK = object()


def _u(n):
    return ' '.join(ast.unparse(n).split())


# ====================================================================================================== small three-valued evaluator
def ev3(test, atom):
    """Three-valued evaluation (True / False / None = unknown) of a boolean expression; `atom(node)` decides the leaves."""
    if isinstance(test, ast.BoolOp):
        vals = [ev3(v, atom) for v in test.values]
        if isinstance(test.op, ast.And):
            if any(v is False for v in vals):
                return False
            return True if all(v is True for v in vals) else None
        if any(v is True for v in vals):
            return True
        return False if all(v is False for v in vals) else None
    if isinstance(test, ast.UnaryOp) and isinstance(test.op, ast.Not):
        v = ev3(test.operand, atom)
        return None if v is None else (not v)
    if isinstance(test, ast.Constant):
        return bool(test.value)
    return atom(test)


def _ends(stmts):
    """Does this statement list always leave the enclosing block (return / raise / continue / break)?"""
    for st in stmts:
        if isinstance(st, (ast.Return, ast.Raise, ast.Continue, ast.Break)):
            return True
        if isinstance(st, ast.If) and st.orelse and _ends(st.body) and _ends(st.orelse):
            return True
    return False


# ====================================================================================================== C43-TOKERR
class ScannerModel:
    """Scanner class, its lexer action methods, its reporter methods and the tokenizer error sites."""

    def __init__(self, cls_name, methods, action_names, is_error_ctor, selfname='self'):
        self.cls_name, self.methods, self.is_error_ctor = cls_name, methods, is_error_ctor
        self.reporters = {}        # name -> FunctionDef
        for name, fn in methods.items():
            if any(isinstance(n, ast.Call) and is_error_ctor(n) for n in walk_no_nested(fn)):
                self.reporters[name] = fn
        if not self.reporters:
            raise AnalysisError('%s: no method calls the error constructor of Errors (scanner error reporting moved?)' % cls_name)
        changed = True
        while changed:             # wrappers: pass one of their own parameters on to a reporter
            changed = False
            for name, fn in methods.items():
                if name in self.reporters:
                    continue
                params = {a.arg for a in fn.args.args[1:]} | {a.arg for a in fn.args.kwonlyargs}
                for c in self.self_calls(fn):
                    if c.func.attr in self.reporters and any(isinstance(a, ast.Name) and a.id in params for a in list(c.args) + [k.value for k in c.keywords]):
                        self.reporters[name] = fn
                        changed = True
                        break
        self.actions = set()
        todo = [n for n in action_names if n in methods]
        while todo:
            n = todo.pop()
            if n in self.actions or n in self.reporters:
                continue
            self.actions.add(n)
            for c in self.self_calls(methods[n]):
                if c.func.attr in methods:
                    todo.append(c.func.attr)
        self.sites = []            # (method name, reporter name, call)
        for n in sorted(self.actions):
            for c in self.self_calls(methods[n]):
                if c.func.attr in self.reporters:
                    self.sites.append((n, c.func.attr, c))

    @staticmethod
    def self_calls(fn):
        sn = fn.args.args[0].arg if fn.args.args else 'self'
        out = []
        for n in walk_no_nested(fn):
            if isinstance(n, ast.Call) and isinstance(n.func, ast.Attribute) and isinstance(n.func.value, ast.Name) and n.func.value.id == sn:
                out.append(n)
        return sorted(out, key=lambda c: (c.lineno, c.col_offset))

    # ---- binding of a call's arguments to the callee's parameters (constants only)
    @staticmethod
    def bind(fn, call, caller_env):
        params = [a.arg for a in fn.args.args[1:]]
        env = {}
        defaults = fn.args.defaults
        for p, d in zip(params[len(params) - len(defaults):], defaults):
            env[p] = d.value if isinstance(d, ast.Constant) else UNK
        for a in fn.args.kwonlyargs:
            env[a.arg] = UNK
        for p, d in zip(fn.args.kwonlyargs, fn.args.kw_defaults):
            if isinstance(d, ast.Constant):
                env[p.arg] = d.value

        def val(e):
            if isinstance(e, ast.Constant):
                return e.value
            if isinstance(e, ast.Name) and e.id in caller_env:
                return caller_env[e.id]
            return UNK
        for p, a in zip(params, call.args):
            env[p] = val(a)
        for k in call.keywords:
            if k.arg:
                env[k.arg] = val(k.value)
        for p in params:
            env.setdefault(p, UNK)
        return env

    def atom(self, env, facts, selfname):
        def f(n):
            if isinstance(n, ast.Name):
                v = env.get(n.id, UNK)
                return None if v is UNK else bool(v)
            if isinstance(n, ast.Compare) and len(n.ops) == 1 and isinstance(n.ops[0], (ast.Is, ast.IsNot)) and \
                    isinstance(n.comparators[0], ast.Constant) and n.comparators[0].value is None:
                x = n.left
                if isinstance(x, ast.Attribute) and isinstance(x.value, ast.Name) and x.value.id == selfname and x.attr in facts:
                    is_none = facts[x.attr] == 'none'
                    return is_none if isinstance(n.ops[0], ast.Is) else not is_none
                if isinstance(x, ast.Name) and env.get(x.id, UNK) is not UNK:
                    return (env[x.id] is None) if isinstance(n.ops[0], ast.Is) else (env[x.id] is not None)
            return None
        return f

    def raises(self, name, env, facts, depth=0):
        """Does reporter `name`, called with the parameter values `env`, leave by raising?  True / False / None"""
        if depth > 6:
            return None
        fn = self.methods[name]
        sn = fn.args.args[0].arg
        atom = self.atom(env, facts, sn)

        def walk(stmts):
            for st in stmts:
                if isinstance(st, ast.Raise):
                    return True
                if isinstance(st, ast.Return):
                    return False
                if isinstance(st, ast.If):
                    t = ev3(st.test, atom)
                    if t is True:
                        r = walk(st.body)
                    elif t is False:
                        r = walk(st.orelse)
                    else:
                        a, b = walk(st.body), walk(st.orelse)
                        if a is True and b is True:
                            r = True
                        elif a == 'cont' and b == 'cont':
                            r = 'cont'
                        else:
                            r = None
                    if r != 'cont':
                        return r
                    continue
                if isinstance(st, (ast.Expr, ast.Assign, ast.AnnAssign)):
                    r = self.stmt_raises(st, env, facts, depth, sn)
                    if r is True or r is None:
                        return r
                    continue
                if isinstance(st, (ast.For, ast.While, ast.Try, ast.With)):
                    if any(isinstance(n, ast.Raise) for n in ast.walk(st)) or self.calls_reporter(st, sn):
                        return None
            return 'cont'
        r = walk(fn.body)
        return False if r == 'cont' else r

    def calls_reporter(self, st, sn):
        return any(isinstance(n, ast.Call) and isinstance(n.func, ast.Attribute) and isinstance(n.func.value, ast.Name) and n.func.value.id == sn
                   and n.func.attr in self.reporters for n in ast.walk(st))

    def stmt_raises(self, st, env, facts, depth, sn):
        """one simple statement: does a reporter call inside it raise?  True / False / None"""
        res = False
        for n in ast.walk(st):
            if isinstance(n, ast.Call) and isinstance(n.func, ast.Attribute) and isinstance(n.func.value, ast.Name) and n.func.value.id == sn \
                    and n.func.attr in self.reporters:
                r = self.raises(n.func.attr, self.bind(self.methods[n.func.attr], n, env), facts, depth + 1)
                if r is True:
                    return True
                if r is None:
                    res = None
        return res

    def append_helpers(self, attr):
        """methods (not reporters) whose whole effect is self.<attr>.append(<parameter>) -> {name: parameter index}"""
        out = {}
        for name, fn in self.methods.items():
            if name in self.reporters or len(fn.body) != 1:
                continue
            st = fn.body[0]
            sn = fn.args.args[0].arg
            c = st.value if isinstance(st, ast.Expr) else None
            if isinstance(c, ast.Call) and self._is_append_to(c, attr, sn) and len(c.args) == 1 and isinstance(c.args[0], ast.Name):
                params = [a.arg for a in fn.args.args[1:]]
                if c.args[0].id in params:
                    out[name] = params.index(c.args[0].id)
        return out

    @staticmethod
    def _is_append_to(c, attr, sn):
        f = c.func
        return isinstance(f, ast.Attribute) and f.attr == 'append' and isinstance(f.value, ast.Attribute) and f.value.attr == attr and \
            isinstance(f.value.value, ast.Name) and f.value.value.id == sn

    def records(self, name, attr, env, facts, depth=0):
        """Does reporter `name` add the error object it creates to self.<attr> before it can raise?  True / False (with reason) / None"""
        if depth > 6:
            return None
        fn = self.methods[name]
        sn = fn.args.args[0].arg
        atom = self.atom(env, facts, sn)
        helpers = self.append_helpers(attr)
        errvars = set()

        def is_err_value(e):
            if isinstance(e, ast.Name):
                return e.id in errvars
            if isinstance(e, ast.Call):
                if self.is_error_ctor(e):
                    return True
                f = e.func
                return isinstance(f, ast.Attribute) and isinstance(f.value, ast.Name) and f.value.id == sn and f.attr in self.reporters
            return False

        def walk(stmts):
            for st in stmts:
                if isinstance(st, ast.Raise):
                    return False
                if isinstance(st, ast.Return):
                    return False
                if isinstance(st, ast.If):
                    t = ev3(st.test, atom)
                    if t is True:
                        r = walk(st.body)
                    elif t is False:
                        r = walk(st.orelse)
                    else:
                        a, b = walk(st.body), walk(st.orelse)
                        r = True if (a is True and b is True) else ('cont' if (a == 'cont' and b == 'cont') else (False if (a is False or b is False) and not (a is None or b is None) else None))
                        if r is False and (a == 'cont' or b == 'cont' or a is True or b is True):
                            r = None
                    if r != 'cont':
                        return r
                    continue
                if isinstance(st, (ast.Expr, ast.Assign, ast.AnnAssign)):
                    v = st.value
                    if isinstance(v, ast.Call):
                        f = v.func
                        if self._is_append_to(v, attr, sn):
                            return True if (len(v.args) == 1 and is_err_value(v.args[0])) else None
                        if isinstance(f, ast.Attribute) and isinstance(f.value, ast.Name) and f.value.id == sn:
                            if f.attr in helpers and len(v.args) > helpers[f.attr] and is_err_value(v.args[helpers[f.attr]]):
                                return True
                            if f.attr in self.reporters:
                                cenv = self.bind(self.methods[f.attr], v, env)
                                sub = self.records(f.attr, attr, cenv, facts, depth + 1)
                                if sub is True:
                                    return True
                                rz = self.raises(f.attr, cenv, facts, depth + 1)
                                if rz is True:
                                    return False
                                if rz is None or sub is None:
                                    return None
                    if isinstance(st, ast.Assign) and is_err_value(st.value):
                        for t in st.targets:
                            if isinstance(t, ast.Name):
                                errvars.add(t.id)
                    continue
                if isinstance(st, (ast.For, ast.While, ast.Try, ast.With)):
                    if any(isinstance(n, ast.Call) and self._is_append_to(n, attr, sn) for n in ast.walk(st)):
                        return None
            return 'cont'
        r = walk(fn.body)
        return False if r == 'cont' else r


class Region:
    """One discard region: generator function with a held-error list, a handler around its yield and a rewind of its scanner parameter."""

    def __init__(self, label, fn, rel, scanner_param, held, handlers, release, active_facts):
        self.label, self.fn, self.rel, self.scanner_param, self.held = label, fn, rel, scanner_param, held
        self.handlers, self.release, self.active_facts = handlers, release, active_facts


def find_regions(functions, is_call_to, exc_names):
    """functions: [(label, rel, FunctionDef)];  is_call_to(call, 'hold'|'release'|'report') resolves the Errors functions"""
    out = []
    for label, rel, fn in functions:
        yields = [n for n in walk_no_nested(fn) if isinstance(n, (ast.Yield, ast.YieldFrom))]
        if not yields:
            continue
        held = None
        for n in walk_no_nested(fn):
            if isinstance(n, ast.Assign) and isinstance(n.value, ast.Call) and is_call_to(n.value, 'hold') and isinstance(n.targets[0], ast.Name):
                held = n.targets[0].id
        release = [n for n in walk_no_nested(fn) if isinstance(n, ast.Call) and is_call_to(n, 'release')
                   and any(k.arg == 'ignore' and isinstance(k.value, ast.Constant) and k.value.value is True for k in n.keywords)]
        if held is None or not release:
            continue
        params = [a.arg for a in fn.args.args]
        sp = None
        for n in walk_no_nested(fn):
            if isinstance(n, ast.Call) and isinstance(n.func, ast.Attribute) and n.func.attr == 'put_back' and isinstance(n.func.value, ast.Name) and n.func.value.id in params:
                sp = n.func.value.id
        if sp is None:
            continue        # the scanner does not live on after this region: discarding its errors discards the whole scan
        handlers = []
        for n in walk_no_nested(fn):
            if isinstance(n, ast.Try) and any(isinstance(x, (ast.Yield, ast.YieldFrom)) for st in n.body for x in ast.walk(st)):
                for h in n.handlers:
                    names = []
                    if h.type is None:
                        names = ['BaseException']
                    else:
                        for t in (h.type.elts if isinstance(h.type, ast.Tuple) else [h.type]):
                            names.append(t.attr if isinstance(t, ast.Attribute) else t.id if isinstance(t, ast.Name) else '?')
                    if any(x in exc_names for x in names):
                        handlers.append(h)
        # facts the region establishes on the scanner before the yield: <scanner>.<attr> = <non-None literal>
        facts = {}
        first_yield = min(y.lineno for y in yields)
        for n in walk_no_nested(fn):
            if isinstance(n, ast.Assign) and n.lineno < first_yield and len(n.targets) == 1:
                t = n.targets[0]
                if isinstance(t, ast.Attribute) and isinstance(t.value, ast.Name) and t.value.id == sp:
                    v = n.value
                    if isinstance(v, (ast.List, ast.Dict, ast.Tuple, ast.Set)) or (isinstance(v, ast.Constant) and v.value is not None):
                        facts[t.attr] = 'notnone'
                    elif isinstance(v, ast.Constant) and v.value is None:
                        facts[t.attr] = 'none'
        out.append(Region(label, fn, rel, sp, held, handlers, release, facts))
    return out


def _local_aliases(stmts):
    """{name: value expression} for names assigned exactly once in this statement list (top level)"""
    seen, out = {}, {}
    for st in stmts:
        if isinstance(st, ast.Assign) and len(st.targets) == 1 and isinstance(st.targets[0], ast.Name):
            seen[st.targets[0].id] = seen.get(st.targets[0].id, 0) + 1
            out[st.targets[0].id] = st.value
    return {k: v for k, v in out.items() if seen[k] == 1}


def membership_tests(region, node, var):
    """discriminator attributes W used as `<var> in <scanner>.<W>` below node"""
    out = set()
    for n in ast.walk(node):
        if isinstance(n, ast.Compare) and len(n.ops) == 1 and isinstance(n.ops[0], (ast.In, ast.NotIn)) and isinstance(n.left, ast.Name) and n.left.id == var:
            c = n.comparators[0]
            if isinstance(c, ast.Attribute) and isinstance(c.value, ast.Name) and c.value.id == region.scanner_param:
                out.add(c.attr)
    return out


def eval_handler(region, h, member_truth):
    """-> 'raise' | 'swallow' | None (undecided) for an error whose membership in <scanner>.<W> is member_truth[W] (True/False/None)"""
    var = h.name
    aliases = _local_aliases(h.body)

    def atom(n, depth=0):
        if isinstance(n, ast.Name) and n.id in aliases and depth < 4:
            return ev3(aliases[n.id], lambda x: atom(x, depth + 1))
        if isinstance(n, ast.Compare) and len(n.ops) == 1 and isinstance(n.ops[0], (ast.In, ast.NotIn)) and isinstance(n.left, ast.Name) and n.left.id == var:
            c = n.comparators[0]
            if isinstance(c, ast.Attribute) and isinstance(c.value, ast.Name) and c.value.id == region.scanner_param:
                v = member_truth.get(c.attr)
                if v is None:
                    return None
                return v if isinstance(n.ops[0], ast.In) else (not v)
        return None

    def walk(stmts):
        for st in stmts:
            if isinstance(st, ast.Raise):
                if st.exc is None or (isinstance(st.exc, ast.Name) and st.exc.id == var):
                    return 'raise'
                return 'raise'      # a different exception still leaves the region
            if isinstance(st, (ast.Pass, ast.Assign, ast.Expr, ast.AnnAssign, ast.AugAssign)):
                continue
            if isinstance(st, ast.If):
                t = ev3(st.test, atom)
                if t is True:
                    r = walk(st.body)
                elif t is False:
                    r = walk(st.orelse)
                else:
                    a, b = walk(st.body), walk(st.orelse)
                    r = a if a == b else None
                if r != 'cont':
                    return r
                continue
            if isinstance(st, ast.Return):
                return 'swallow'
            return None
        return 'cont'
    r = walk(h.body)
    return 'swallow' if r == 'cont' else r


def forwards_held(region, is_call_to, member_truth):
    """Is every held error with the given membership re-reported after the pop?  True / False"""
    rel_line = max(c.lineno for c in region.release)
    for n in walk_no_nested(region.fn):
        if isinstance(n, ast.For) and isinstance(n.iter, ast.Name) and n.iter.id == region.held and isinstance(n.target, ast.Name) and n.lineno > rel_line:
            var = n.target.id
            fake = ast.ExceptHandler(type=None, name=var, body=[])
            for st in n.body:
                for c in ast.walk(st):
                    if isinstance(c, ast.Call) and is_call_to(c, 'report') and c.args and isinstance(c.args[0], ast.Name) and c.args[0].id == var:
                        # condition under which the call is reached
                        if st is not None and isinstance(st, ast.If):
                            fake.name = var
                            t = _if_truth(region, st, var, member_truth)
                            if t is True:
                                return True
                        elif isinstance(st, ast.Expr):
                            return True
    return False


def _if_truth(region, st, var, member_truth):
    def atom(n):
        if isinstance(n, ast.Compare) and len(n.ops) == 1 and isinstance(n.ops[0], (ast.In, ast.NotIn)) and isinstance(n.left, ast.Name) and n.left.id == var:
            c = n.comparators[0]
            if isinstance(c, ast.Attribute) and isinstance(c.value, ast.Name) and c.value.id == region.scanner_param:
                v = member_truth.get(c.attr)
                if v is None:
                    return None
                return v if isinstance(n.ops[0], ast.In) else (not v)
        return None
    return ev3(st.test, atom)


def tokerr_findings(sm, regions, is_call_to, writers_of, scanner_label):
    """-> (instances [(key, sample)], findings [(key, line_node, msg, rel_hint)], infos)"""
    inst, finds, infos = [], [], []
    site_txt = ', '.join(sorted({'%s -> %s' % (m, r) for m, r, c in sm.sites}))
    for reg in regions:
        if not reg.handlers:
            infos.append('%s: no handler around the yield catches compile errors' % reg.label)
            continue
        discr = set()
        for h in reg.handlers:
            if h.name:
                discr |= membership_tests(reg, h, h.name)
        if len(discr) > 1:
            raise AnalysisError('%s: more than one discriminator list tested in the handler (%s): not modelled' % (reg.label, sorted(discr)))
        W = next(iter(discr)) if discr else None
        # ---- (record): which sites add their error to W
        recorded = {}
        if W is not None:
            for m, rname, call in sm.sites:
                env = sm.bind(sm.methods[rname], call, {})
                rec = sm.records(rname, W, env, reg.active_facts)
                key = '%s.%s:%s' % (scanner_label, m, rname)
                if rec is None:
                    raise AnalysisError('%s: cannot decide whether reporter %s adds the error to self.%s before raising (shape not modelled)' % (key, rname, W))
                recorded[(m, rname, id(call))] = rec
                inst.append((key + ':record', '%s calls %s: error %s in self.%s' % (m, rname, 'recorded' if rec else 'NOT recorded', W)))
                if not rec:
                    finds.append((key + ':unrecorded', call, reg.rel_scanner if hasattr(reg, 'rel_scanner') else None,
                                  'tokenizer error site %s.%s reports through %s(), which does not add the error object to self.%s before it can raise: %s tests '
                                  '`%s in %s.%s` to tell tokenizer errors from failed parse attempts, so this error is swallowed with the attempt although its text '
                                  'is consumed and never tokenized again - an invalid source compiles without any message (e.g. an unclosed string inside `with (...)`)'
                                  % (scanner_label, m, rname, W, reg.label, reg.handlers[0].name or 'e', reg.scanner_param, W)))
            # ---- (writers)
            for where, node, kind, ok in writers_of(W, sm):
                key = '%s.%s:writer:%s' % (scanner_label, W, where)
                inst.append((key, '%s %s self.%s' % (where, kind, W)))
                if not ok:
                    finds.append((key, node, None, '%s %s the list self.%s outside the scanner constructor and the recording reporters: %s decides by membership in this list '
                                  'which errors may be discarded, entries lost or added here make it swallow a tokenizer error or re-raise a failed parse attempt' % (where, kind, W, reg.label)))
        all_rec = bool(recorded) and all(recorded.values())
        truth_tok = {W: all_rec} if W else {}
        truth_par = {W: False} if W else {}
        # ---- (escape) / (tentative)
        for i, h in enumerate(reg.handlers):
            hk = '%s:handler%s' % (reg.label, '' if i == 0 else '#%d' % (i + 1))
            tok = eval_handler(reg, h, truth_tok)
            par = eval_handler(reg, h, truth_par)
            if tok is None or par is None:
                raise AnalysisError('%s: handler around the yield is not modelled (%s)' % (reg.label, _u(h)[:120]))
            fw = forwards_held(reg, is_call_to, truth_tok)
            inst.append((hk + ':tokenizer', '%s: tokenizer error -> %s%s' % (reg.label, tok, ', held list re-reported' if fw else '')))
            inst.append((hk + ':parser', '%s: parser error -> %s' % (reg.label, par)))
            if tok == 'swallow' and (W is None or all_rec):
                finds.append((hk + ':swallows-tokenizer-errors', h, reg.rel,
                              '%s catches every compile error raised below its yield and discards the held list (release_errors(ignore=True)), then rewinds the tokens it recorded; '
                              'errors raised by the tokenizer itself (%s) are swallowed the same way although the text behind them is consumed and cannot be put back: the retry parses '
                              'the recovered tokens and an invalid source (`with (\'abc<newline>): pass`) compiles without any message, or the scanner goes on in a stale state'
                              % (reg.label, site_txt)))
            if par == 'raise':
                finds.append((hk + ':not-tentative', h, reg.rel,
                              '%s re-raises an ordinary parse error of the attempt: the alternative the caller would try next is never tried, valid programs '
                              '(`with (a, b): pass`, match patterns) are rejected' % reg.label))
            # ---- (abort): without re-reporting, a tokenizer error that does not raise stays in the held list and is dropped
            if not fw:
                for m, rname, call in sm.sites:
                    env = sm.bind(sm.methods[rname], call, {})
                    rz = sm.raises(rname, env, reg.active_facts)
                    key = '%s.%s:%s' % (scanner_label, m, rname)
                    inst.append((key + ':abort', '%s calls %s(%s): raises inside %s: %s' % (m, rname, ', '.join(_u(k) for k in call.keywords), reg.label, rz)))
                    if rz is None:
                        infos.append('%s: cannot decide whether %s raises while %s is active' % (key, rname, reg.label))
                    elif rz is False:
                        finds.append((key + ':non-fatal-discarded', call, None,
                                      'tokenizer error site %s.%s reports through %s(%s) without raising while %s is active (facts: %s); the error only lands in the held list, '
                                      'which the region drops (release_errors(ignore=True)) without re-reporting, and the tokens produced are put back and parsed again without it: '
                                      'the invalid source compiles without any message (`with (f"}"): pass`)'
                                      % (scanner_label, m, rname, ', '.join(_u(k) for k in call.keywords), reg.label,
                                         ', '.join('%s.%s is %s' % (reg.scanner_param, a, 'None' if v == 'none' else 'not None') for a, v in sorted(reg.active_facts.items())) or 'none')))
    return inst, finds, infos


def _real_tokerr(ctx):
    ix = ctx.index
    sc = ix.mod('Scanning')
    er = ix.mod('Errors')
    S = None
    for c in sc.classes.values():
        fn = c.methods.get('next')
        if fn and any(isinstance(n, ast.Call) and isinstance(n.func, ast.Attribute) and n.func.attr == 'read' and isinstance(n.func.value, ast.Name)
                      and n.func.value.id == fn.args.args[0].arg for n in walk_no_nested(fn)):
            S = c
    if S is None:
        raise AnalysisError('Scanning: no class whose next() calls self.read() (scanner moved?)')
    methods = {}
    for k in reversed(ix.mro(S)):
        if k.module is sc:
            methods.update(k.methods)
    # error constructors of Errors: functions that instantiate a CompileError (sub)class and hand it to report_error
    ce = er.classes.get('CompileError')
    if ce is None:
        raise AnalysisError('Errors.CompileError not found')
    ctor_names = set()
    for name, fn in er.functions.items():
        for n in walk_no_nested(fn):
            if isinstance(n, ast.Call) and isinstance(n.func, ast.Name) and n.func.id in er.classes and ce in ix.mro(er.classes[n.func.id]):
                if any(isinstance(x, ast.Return) and x.value is not None for x in walk_no_nested(fn)):
                    ctor_names.add(name)
    if not ctor_names:
        raise AnalysisError('Errors: no function creates and returns a CompileError')

    def resolves_to(call, names, mod=sc):
        r = ix.resolve_expr(mod, call.func) if isinstance(call.func, (ast.Name, ast.Attribute)) else None
        return bool(r and r[0] == 'func' and r[1] is er and r[2].name in names)

    def is_error_ctor(call):
        return isinstance(call.func, ast.Name) and resolves_to(call, ctor_names)
    lex = ix.mod('Lexicon')
    action_names = set()
    for n in ast.walk(lex.tree):
        if isinstance(n, ast.Call) and isinstance(n.func, ast.Name) and n.func.id == 'Method' and n.args and isinstance(n.args[0], ast.Constant) and isinstance(n.args[0].value, str):
            action_names.add(n.args[0].value)
    missing = sorted(a for a in action_names if a not in methods)
    if len(action_names) < 10:
        raise AnalysisError('Lexicon: only %d Method(...) actions found' % len(action_names))
    sm = ScannerModel('%s.%s' % (sc.short, S.name), methods, action_names | {'next'}, is_error_ctor)
    # stack functions of Errors, found by what they do to the error stack (as in C43-HOLD)
    push, pop, report = set(), set(), set()
    for name, fn in er.functions.items():
        for n in walk_no_nested(fn):
            if isinstance(n, ast.Call) and isinstance(n.func, ast.Attribute) and isinstance(n.func.value, ast.Attribute) and n.func.value.attr.endswith('errors_stack'):
                if n.func.attr == 'append':
                    push.add(name)
                elif n.func.attr == 'pop':
                    pop.add(name)
        if fn.args.args and fn.args.args[0].arg == 'err' or any(isinstance(n, ast.Attribute) and n.attr == 'reported' for n in walk_no_nested(fn)):
            if any(isinstance(n, ast.Attribute) and n.attr == 'reported' for n in walk_no_nested(fn)):
                report.add(name)
    if not push or not pop or not report:
        raise AnalysisError('Errors: hold / release / report functions not found (%s, %s, %s)' % (push, pop, report))
    kinds = {'hold': push, 'release': pop, 'report': report}
    exc_names = {k.name for k in ix.mro(ce)} | {'BaseException', 'Exception'}
    regions = []
    for m in sorted(ix.modules.values(), key=lambda x: x.rel):
        if not m.rel.startswith('Cython/Compiler/'):
            continue
        fns = [('%s.%s' % (m.short, qn), m.rel, fn) for qn, owner, fn in ix.functions_of(m)]
        regions += find_regions(fns, lambda c, k, m=m: isinstance(c.func, (ast.Name, ast.Attribute)) and resolves_to(c, kinds[k], m), exc_names)

    def writers_of(W, sm_):
        out = []
        for m in sorted(ix.modules.values(), key=lambda x: x.rel):
            if not m.rel.startswith('Cython/'):
                continue
            for qn, owner, fn in ix.functions_of(m):
                for n in walk_no_nested(fn):
                    tgt = None
                    kind = None
                    if isinstance(n, (ast.Assign, ast.AugAssign, ast.AnnAssign, ast.Delete)):
                        for t in (n.targets if isinstance(n, (ast.Assign, ast.Delete)) else [n.target]):
                            for x in ast.walk(t):
                                if isinstance(x, ast.Attribute) and x.attr == W:
                                    tgt, kind = x, ('deletes' if isinstance(n, ast.Delete) else 'assigns')
                    elif isinstance(n, ast.Call) and isinstance(n.func, ast.Attribute) and isinstance(n.func.value, ast.Attribute) and n.func.value.attr == W and \
                            n.func.attr in ('append', 'extend', 'insert', 'remove', 'pop', 'clear', 'sort', 'reverse'):
                        tgt, kind = n.func.value, 'calls .%s() on' % n.func.attr
                    if tgt is None:
                        continue
                    where = '%s.%s' % (m.short, qn)
                    in_scanner = owner is S or (owner is not None and S in ix.mro(owner))
                    ok = False
                    if in_scanner and fn.name == '__init__' and isinstance(n, ast.Assign) and isinstance(n.value, ast.List) and not n.value.elts:
                        ok = True
                    elif in_scanner and kind == 'calls .append() on' and (fn.name in sm_.reporters or fn.name in sm_.append_helpers(W)):
                        ok = True
                    out.append((where, n, kind, ok))
        return out
    return sm, regions, (lambda c, k: False), writers_of, '%s.%s' % (sc.short, S.name), sc, missing, kinds, resolves_to


_TOK_BAD = '''
class Sc:
    def next(self):
        self.read()
    def unclosed(self, text):
        self.error_here("unclosed")
    def brace(self, text):
        self.error("single brace", fatal=False)
    def error(self, message, fatal=True):
        err = error(None, message)
        if fatal: raise err
        return err
    def error_here(self, message, fatal=True):
        err = self.error(message, fatal=False)
        self.tok.append(err)
        if fatal or self.rewind is not None:
            raise err

def tentative(s):
    errors = hold_errors()
    try:
        s.rewind = []
        try:
            yield errors
        except CompileError as e:
            %s
        finally:
            s.put_back(1)
    finally:
        release_errors(ignore=True)
'''


def _mini_tokerr(handler_body):
    tree = ast.parse(_TOK_BAD % handler_body)
    cls = tree.body[0]
    methods = {f.name: f for f in cls.body if isinstance(f, ast.FunctionDef)}
    sm = ScannerModel('Sc', methods, {'next', 'unclosed', 'brace'}, lambda c: isinstance(c.func, ast.Name) and c.func.id == 'error')
    names = {'hold': {'hold_errors'}, 'release': {'release_errors'}, 'report': {'report_error'}}

    def is_call_to(c, k):
        return isinstance(c.func, ast.Name) and c.func.id in names[k]
    regions = find_regions([('tentative', 'mini', tree.body[1])], is_call_to, {'CompileError'})

    def writers_of(W, sm_):
        return []
    return tokerr_findings(sm, regions, is_call_to, writers_of, 'Sc')


def rule_TOKERR(ctx, floor=8):
    r = Rule('C43-TOKERR', 'errors reported by lexer actions are not discarded by a tentative scan: the region that swallows compile errors and drops its held list lets '
                           'tokenizer errors escape (discriminator list: every tokenizer error site records into it, sole writers), still swallows parse errors, and no '
                           'tokenizer error stays non-fatal inside it', floor)
    sm, regions, _unused, writers_of, label, sc, missing, kinds, resolves_to = _real_tokerr(ctx)
    if not regions:
        raise AnalysisError('no discard region found (a generator that holds errors, releases them with ignore=True and puts tokens back): tentatively_scan moved?')
    if len(sm.sites) < 5:
        raise AnalysisError('only %d tokenizer error sites found in %s' % (len(sm.sites), label))
    for a in missing:
        r.info('Lexicon action %r is not a method of %s' % (a, label))
    ix = ctx.index

    def is_call_to(c, k):
        # the regions live in Scanning / Parsing; resolve through the module that defines the region
        for m in (sc,):
            if isinstance(c.func, (ast.Name, ast.Attribute)) and resolves_to(c, kinds[k], m):
                return True
        return False
    inst, finds, infos = tokerr_findings(sm, regions, is_call_to, writers_of, label)
    for key, sample in inst:
        r.inst(key, sample=sample)
    for key, node, rel, msg in finds:
        r.violate(key, rel or sc.rel, getattr(node, 'lineno', 0), msg)
    for i in infos:
        r.info(i)
    # embedded examples: the unconditional handler must be reported, the discriminating one must not; a site that bypasses the recorder must be reported
    bad = _mini_tokerr('pass')
    good = _mini_tokerr('if e in s.tok:\n                raise')
    ok = any(k.endswith(':swallows-tokenizer-errors') for k, *_ in bad[1]) and any(k.endswith('brace:error:non-fatal-discarded') for k, *_ in bad[1]) and \
        not any(k.endswith(':swallows-tokenizer-errors') or k.endswith(':not-tentative') for k, *_ in good[1]) and \
        any(k.endswith('brace:error:unrecorded') for k, *_ in good[1]) and not any('unclosed' in k for k, *_ in good[1])
    r.positive_control(ok, 'mini scanner: `except CompileError: pass` swallows tokenizer errors; a site reporting through the plain reporter is unrecorded / non-fatal')
    return r
