"""C43 — two rules written from defects D6 (deferred syntax errors of the match parser, tokenizer errors inside tentative scans).

C43-DEFERRED   typestate of *placeholder nodes* (Nodes.ErrorNode today): a node class without any node interface that the parser puts into the
               tree in place of a real node so that a syntax error found while scanning tentatively is reported later.  From the parser's own
               constructor calls (flow-insensitive value flow through the p_* functions: returns, locals, lists, tuples, keyword arguments) the rule
               derives every child slot that may hold the placeholder, and decides
                 (exit)      the transform handler that turns the placeholder into the error leaves on every path by raising; a path that returns
                             None puts None into every *scalar* slot (violation per slot the parent class dereferences without a None test), a
                             path that returns a node keeps the placeholder alive for the next phase;
                 (reach)     every slot that may hold the placeholder is listed in child_attrs of its class, otherwise the handler never sees it;
                 (visit)     the handlers of the eliminating transform for every class whose subtree may hold the placeholder visit the children;
                 (pre-visit) no method that such a handler calls on the node *before* it visited the children reaches - through self calls and
                             calls on slot contents, typed by the derived slot tables - an attribute access on a value that may be the placeholder
                             when the placeholder class does not define that attribute (isinstance guards are honoured).
C43-TOKERR     errors of the tokenizer (reports made by lexer action methods of the scanner, found through Lexicon's Method('...') table and the
               body of next()) inside a *discard region* (a generator context manager that pushes a held-error list, pops it with ignore=True,
               swallows CompileError around its yield and rewinds tokens of a scanner that lives on - Scanning.tentatively_scan).  The text behind
               such an error is consumed, so no alternative parse can see it again.  Decided by evaluating the region's handler for the two kinds
               of error (tokenizer / parser) over the discriminator it tests (membership in a scanner-owned list):
                 (escape)    a tokenizer error leaves the region as an exception (or is re-reported from the held list after the pop);
                 (tentative) a parser error is still swallowed;
                 (record)    every tokenizer error site goes through a reporter that adds the error object to the discriminator list before it
                             can raise; (abort) unless the region re-reports held errors, every site raises while a region is active (the reporter's
                             raise guard is evaluated with the call site's constant arguments and the facts the region establishes);
                 (writers)   the discriminator list is written by the scanner's constructor and by recording reporters only.
Static only: ASTs of the repository sources; nothing is imported or run.
"""
import ast

from ..core import Rule, AnalysisError
from ..engine.pyindex import walk_no_nested

UNK = object()


def _u(n):
    return ' '.join(ast.unparse(n).split())


# ====================================================================================================== small three-valued evaluator
def ev3(test, atom):
    """Three-valued evaluation (True / False / None = unknown) of a boolean expression; `atom(node)` decides the leaves."""
    if isinstance(test, ast.BoolOp):
        vals = [ev3(v, atom) for v in test.values]
        if isinstance(test.op, ast.And):
            if any(v is False for v in vals):
                return False
            return True if all(v is True for v in vals) else None
        if any(v is True for v in vals):
            return True
        return False if all(v is False for v in vals) else None
    if isinstance(test, ast.UnaryOp) and isinstance(test.op, ast.Not):
        v = ev3(test.operand, atom)
        return None if v is None else (not v)
    if isinstance(test, ast.Constant):
        return bool(test.value)
    return atom(test)


def _ends(stmts):
    """Does this statement list always leave the enclosing block (return / raise / continue / break)?"""
    for st in stmts:
        if isinstance(st, (ast.Return, ast.Raise, ast.Continue, ast.Break)):
            return True
        if isinstance(st, ast.If) and st.orelse and _ends(st.body) and _ends(st.orelse):
            return True
    return False


# ====================================================================================================== C43-TOKERR
class ScannerModel:
    """Scanner class, its lexer action methods, its reporter methods and the tokenizer error sites."""

    def __init__(self, cls_name, methods, action_names, is_error_ctor, selfname='self'):
        self.cls_name, self.methods, self.is_error_ctor = cls_name, methods, is_error_ctor
        self.reporters = {}        # name -> FunctionDef
        for name, fn in methods.items():
            if any(isinstance(n, ast.Call) and is_error_ctor(n) for n in walk_no_nested(fn)):
                self.reporters[name] = fn
        if not self.reporters:
            raise AnalysisError('%s: no method calls the error constructor of Errors (scanner error reporting moved?)' % cls_name)
        changed = True
        while changed:             # wrappers: pass one of their own parameters on to a reporter
            changed = False
            for name, fn in methods.items():
                if name in self.reporters:
                    continue
                params = {a.arg for a in fn.args.args[1:]} | {a.arg for a in fn.args.kwonlyargs}
                for c in self.self_calls(fn):
                    if c.func.attr in self.reporters and any(isinstance(a, ast.Name) and a.id in params for a in list(c.args) + [k.value for k in c.keywords]):
                        self.reporters[name] = fn
                        changed = True
                        break
        self.actions = set()
        todo = [n for n in action_names if n in methods]
        while todo:
            n = todo.pop()
            if n in self.actions or n in self.reporters:
                continue
            self.actions.add(n)
            for c in self.self_calls(methods[n]):
                if c.func.attr in methods:
                    todo.append(c.func.attr)
        self.sites = []            # (method name, reporter name, call)
        for n in sorted(self.actions):
            for c in self.self_calls(methods[n]):
                if c.func.attr in self.reporters:
                    self.sites.append((n, c.func.attr, c))

    @staticmethod
    def self_calls(fn):
        sn = fn.args.args[0].arg if fn.args.args else 'self'
        out = []
        for n in walk_no_nested(fn):
            if isinstance(n, ast.Call) and isinstance(n.func, ast.Attribute) and isinstance(n.func.value, ast.Name) and n.func.value.id == sn:
                out.append(n)
        return sorted(out, key=lambda c: (c.lineno, c.col_offset))

    # ---- binding of a call's arguments to the callee's parameters (constants only)
    @staticmethod
    def bind(fn, call, caller_env):
        params = [a.arg for a in fn.args.args[1:]]
        env = {}
        defaults = fn.args.defaults
        for p, d in zip(params[len(params) - len(defaults):], defaults):
            env[p] = d.value if isinstance(d, ast.Constant) else UNK
        for a in fn.args.kwonlyargs:
            env[a.arg] = UNK
        for p, d in zip(fn.args.kwonlyargs, fn.args.kw_defaults):
            if isinstance(d, ast.Constant):
                env[p.arg] = d.value

        def val(e):
            if isinstance(e, ast.Constant):
                return e.value
            if isinstance(e, ast.Name) and e.id in caller_env:
                return caller_env[e.id]
            return UNK
        for p, a in zip(params, call.args):
            env[p] = val(a)
        for k in call.keywords:
            if k.arg:
                env[k.arg] = val(k.value)
        for p in params:
            env.setdefault(p, UNK)
        return env

    def atom(self, env, facts, selfname):
        def f(n):
            if isinstance(n, ast.Name):
                v = env.get(n.id, UNK)
                return None if v is UNK else bool(v)
            if isinstance(n, ast.Compare) and len(n.ops) == 1 and isinstance(n.ops[0], (ast.Is, ast.IsNot)) and \
                    isinstance(n.comparators[0], ast.Constant) and n.comparators[0].value is None:
                x = n.left
                if isinstance(x, ast.Attribute) and isinstance(x.value, ast.Name) and x.value.id == selfname and x.attr in facts:
                    is_none = facts[x.attr] == 'none'
                    return is_none if isinstance(n.ops[0], ast.Is) else not is_none
                if isinstance(x, ast.Name) and env.get(x.id, UNK) is not UNK:
                    return (env[x.id] is None) if isinstance(n.ops[0], ast.Is) else (env[x.id] is not None)
            return None
        return f

    def raises(self, name, env, facts, depth=0):
        """Does reporter `name`, called with the parameter values `env`, leave by raising?  True / False / None"""
        if depth > 6:
            return None
        fn = self.methods[name]
        sn = fn.args.args[0].arg
        atom = self.atom(env, facts, sn)

        def walk(stmts):
            for st in stmts:
                if isinstance(st, ast.Raise):
                    return True
                if isinstance(st, ast.Return):
                    return False
                if isinstance(st, ast.If):
                    t = ev3(st.test, atom)
                    if t is True:
                        r = walk(st.body)
                    elif t is False:
                        r = walk(st.orelse)
                    else:
                        a, b = walk(st.body), walk(st.orelse)
                        if a is True and b is True:
                            r = True
                        elif a == 'cont' and b == 'cont':
                            r = 'cont'
                        else:
                            r = None
                    if r != 'cont':
                        return r
                    continue
                if isinstance(st, (ast.Expr, ast.Assign, ast.AnnAssign)):
                    r = self.stmt_raises(st, env, facts, depth, sn)
                    if r is True or r is None:
                        return r
                    continue
                if isinstance(st, (ast.For, ast.While, ast.Try, ast.With)):
                    if any(isinstance(n, ast.Raise) for n in ast.walk(st)) or self.calls_reporter(st, sn):
                        return None
            return 'cont'
        r = walk(fn.body)
        return False if r == 'cont' else r

    def calls_reporter(self, st, sn):
        return any(isinstance(n, ast.Call) and isinstance(n.func, ast.Attribute) and isinstance(n.func.value, ast.Name) and n.func.value.id == sn
                   and n.func.attr in self.reporters for n in ast.walk(st))

    def stmt_raises(self, st, env, facts, depth, sn):
        """one simple statement: does a reporter call inside it raise?  True / False / None"""
        res = False
        for n in ast.walk(st):
            if isinstance(n, ast.Call) and isinstance(n.func, ast.Attribute) and isinstance(n.func.value, ast.Name) and n.func.value.id == sn \
                    and n.func.attr in self.reporters:
                r = self.raises(n.func.attr, self.bind(self.methods[n.func.attr], n, env), facts, depth + 1)
                if r is True:
                    return True
                if r is None:
                    res = None
        return res

    def append_helpers(self, attr):
        """methods (not reporters) whose whole effect is self.<attr>.append(<parameter>) -> {name: parameter index}"""
        out = {}
        for name, fn in self.methods.items():
            if name in self.reporters or len(fn.body) != 1:
                continue
            st = fn.body[0]
            sn = fn.args.args[0].arg
            c = st.value if isinstance(st, ast.Expr) else None
            if isinstance(c, ast.Call) and self._is_append_to(c, attr, sn) and len(c.args) == 1 and isinstance(c.args[0], ast.Name):
                params = [a.arg for a in fn.args.args[1:]]
                if c.args[0].id in params:
                    out[name] = params.index(c.args[0].id)
        return out

    @staticmethod
    def _is_append_to(c, attr, sn):
        f = c.func
        return isinstance(f, ast.Attribute) and f.attr == 'append' and isinstance(f.value, ast.Attribute) and f.value.attr == attr and \
            isinstance(f.value.value, ast.Name) and f.value.value.id == sn

    def records(self, name, attr, env, facts, depth=0):
        """Does reporter `name` add the error object it creates to self.<attr> before it can raise?  True / False (with reason) / None"""
        if depth > 6:
            return None
        fn = self.methods[name]
        sn = fn.args.args[0].arg
        atom = self.atom(env, facts, sn)
        helpers = self.append_helpers(attr)
        errvars = set()

        def is_err_value(e):
            if isinstance(e, ast.Name):
                return e.id in errvars
            if isinstance(e, ast.Call):
                if self.is_error_ctor(e):
                    return True
                f = e.func
                return isinstance(f, ast.Attribute) and isinstance(f.value, ast.Name) and f.value.id == sn and f.attr in self.reporters
            return False

        def walk(stmts):
            for st in stmts:
                if isinstance(st, ast.Raise):
                    return False
                if isinstance(st, ast.Return):
                    return False
                if isinstance(st, ast.If):
                    t = ev3(st.test, atom)
                    if t is True:
                        r = walk(st.body)
                    elif t is False:
                        r = walk(st.orelse)
                    else:
                        a, b = walk(st.body), walk(st.orelse)
                        r = True if (a is True and b is True) else ('cont' if (a == 'cont' and b == 'cont') else (False if (a is False or b is False) and not (a is None or b is None) else None))
                        if r is False and (a == 'cont' or b == 'cont' or a is True or b is True):
                            r = None
                    if r != 'cont':
                        return r
                    continue
                if isinstance(st, (ast.Expr, ast.Assign, ast.AnnAssign)):
                    v = st.value
                    if isinstance(v, ast.Call):
                        f = v.func
                        if self._is_append_to(v, attr, sn):
                            return True if (len(v.args) == 1 and is_err_value(v.args[0])) else None
                        if isinstance(f, ast.Attribute) and isinstance(f.value, ast.Name) and f.value.id == sn:
                            if f.attr in helpers and len(v.args) > helpers[f.attr] and is_err_value(v.args[helpers[f.attr]]):
                                return True
                            if f.attr in self.reporters:
                                cenv = self.bind(self.methods[f.attr], v, env)
                                sub = self.records(f.attr, attr, cenv, facts, depth + 1)
                                if sub is True:
                                    return True
                                rz = self.raises(f.attr, cenv, facts, depth + 1)
                                if rz is True:
                                    return False
                                if rz is None or sub is None:
                                    return None
                    if isinstance(st, ast.Assign) and is_err_value(st.value):
                        for t in st.targets:
                            if isinstance(t, ast.Name):
                                errvars.add(t.id)
                    continue
                if isinstance(st, (ast.For, ast.While, ast.Try, ast.With)):
                    if any(isinstance(n, ast.Call) and self._is_append_to(n, attr, sn) for n in ast.walk(st)):
                        return None
            return 'cont'
        r = walk(fn.body)
        return False if r == 'cont' else r


class Region:
    """One discard region: generator function with a held-error list, a handler around its yield and a rewind of its scanner parameter."""

    def __init__(self, label, fn, rel, scanner_param, held, handlers, release, active_facts, is_call_to):
        self.label, self.fn, self.rel, self.scanner_param, self.held = label, fn, rel, scanner_param, held
        self.handlers, self.release, self.active_facts = handlers, release, active_facts
        self.is_call_to = is_call_to     # (call, 'hold' | 'release' | 'report') -> bool, names resolved in the region's own module


def find_regions(functions, is_call_to, exc_names):
    """functions: [(label, rel, FunctionDef)];  is_call_to(call, 'hold'|'release'|'report') resolves the Errors functions"""
    out = []
    for label, rel, fn in functions:
        yields = [n for n in walk_no_nested(fn) if isinstance(n, (ast.Yield, ast.YieldFrom))]
        if not yields:
            continue
        held = None
        for n in walk_no_nested(fn):
            if isinstance(n, ast.Assign) and isinstance(n.value, ast.Call) and is_call_to(n.value, 'hold') and isinstance(n.targets[0], ast.Name):
                held = n.targets[0].id
        release = [n for n in walk_no_nested(fn) if isinstance(n, ast.Call) and is_call_to(n, 'release')
                   and any(k.arg == 'ignore' and isinstance(k.value, ast.Constant) and k.value.value is True for k in n.keywords)]
        if held is None or not release:
            continue
        params = [a.arg for a in fn.args.args]
        sp = None
        for n in walk_no_nested(fn):
            if isinstance(n, ast.Call) and isinstance(n.func, ast.Attribute) and n.func.attr == 'put_back' and isinstance(n.func.value, ast.Name) and n.func.value.id in params:
                sp = n.func.value.id
        if sp is None:
            continue        # the scanner does not live on after this region: discarding its errors discards the whole scan
        handlers = []
        for n in walk_no_nested(fn):
            if isinstance(n, ast.Try) and any(isinstance(x, (ast.Yield, ast.YieldFrom)) for st in n.body for x in ast.walk(st)):
                for h in n.handlers:
                    names = []
                    if h.type is None:
                        names = ['BaseException']
                    else:
                        for t in (h.type.elts if isinstance(h.type, ast.Tuple) else [h.type]):
                            names.append(t.attr if isinstance(t, ast.Attribute) else t.id if isinstance(t, ast.Name) else '?')
                    if any(x in exc_names for x in names):
                        handlers.append(h)
        # facts the region establishes on the scanner before the yield: <scanner>.<attr> = <non-None literal>
        facts = {}
        first_yield = min(y.lineno for y in yields)
        for n in walk_no_nested(fn):
            if isinstance(n, ast.Assign) and n.lineno < first_yield and len(n.targets) == 1:
                t = n.targets[0]
                if isinstance(t, ast.Attribute) and isinstance(t.value, ast.Name) and t.value.id == sp:
                    v = n.value
                    if isinstance(v, (ast.List, ast.Dict, ast.Tuple, ast.Set)) or (isinstance(v, ast.Constant) and v.value is not None):
                        facts[t.attr] = 'notnone'
                    elif isinstance(v, ast.Constant) and v.value is None:
                        facts[t.attr] = 'none'
        out.append(Region(label, fn, rel, sp, held, handlers, release, facts, is_call_to))
    return out


def _local_aliases(stmts):
    """{name: value expression} for names assigned exactly once in this statement list (top level)"""
    seen, out = {}, {}
    for st in stmts:
        if isinstance(st, ast.Assign) and len(st.targets) == 1 and isinstance(st.targets[0], ast.Name):
            seen[st.targets[0].id] = seen.get(st.targets[0].id, 0) + 1
            out[st.targets[0].id] = st.value
    return {k: v for k, v in out.items() if seen[k] == 1}


def membership_tests(region, node, var):
    """discriminator attributes W used as `<var> in <scanner>.<W>` below node"""
    out = set()
    for n in ast.walk(node):
        if isinstance(n, ast.Compare) and len(n.ops) == 1 and isinstance(n.ops[0], (ast.In, ast.NotIn)) and isinstance(n.left, ast.Name) and n.left.id == var:
            c = n.comparators[0]
            if isinstance(c, ast.Attribute) and isinstance(c.value, ast.Name) and c.value.id == region.scanner_param:
                out.add(c.attr)
    return out


def eval_handler(region, h, member_truth):
    """-> 'raise' | 'swallow' | None (undecided) for an error whose membership in <scanner>.<W> is member_truth[W] (True/False/None)"""
    var = h.name
    aliases = _local_aliases(h.body)

    def atom(n, depth=0):
        if isinstance(n, ast.Name) and n.id in aliases and depth < 4:
            return ev3(aliases[n.id], lambda x: atom(x, depth + 1))
        if isinstance(n, ast.Compare) and len(n.ops) == 1 and isinstance(n.ops[0], (ast.In, ast.NotIn)) and isinstance(n.left, ast.Name) and n.left.id == var:
            c = n.comparators[0]
            if isinstance(c, ast.Attribute) and isinstance(c.value, ast.Name) and c.value.id == region.scanner_param:
                v = member_truth.get(c.attr)
                if v is None:
                    return None
                return v if isinstance(n.ops[0], ast.In) else (not v)
        return None

    def walk(stmts):
        for st in stmts:
            if isinstance(st, ast.Raise):
                if st.exc is None or (isinstance(st.exc, ast.Name) and st.exc.id == var):
                    return 'raise'
                return 'raise'      # a different exception still leaves the region
            if isinstance(st, (ast.Pass, ast.Assign, ast.Expr, ast.AnnAssign, ast.AugAssign)):
                continue
            if isinstance(st, ast.If):
                t = ev3(st.test, atom)
                if t is True:
                    r = walk(st.body)
                elif t is False:
                    r = walk(st.orelse)
                else:
                    a, b = walk(st.body), walk(st.orelse)
                    r = a if a == b else None
                if r != 'cont':
                    return r
                continue
            if isinstance(st, ast.Return):
                return 'swallow'
            return None
        return 'cont'
    r = walk(h.body)
    return 'swallow' if r == 'cont' else r


def forwards_held(region, is_call_to, member_truth):
    """Is every held error with the given membership handed to the report function again after the pop (`for x in <held>: [if COND(x):] report(x)`)?"""
    rel_line = max(c.lineno for c in region.release)
    for n in walk_no_nested(region.fn):
        if not (isinstance(n, ast.For) and isinstance(n.iter, ast.Name) and n.iter.id == region.held and isinstance(n.target, ast.Name) and n.lineno > rel_line):
            continue
        var = n.target.id
        for st in n.body:
            reports = any(isinstance(c, ast.Call) and is_call_to(c, 'report') and c.args and isinstance(c.args[0], ast.Name) and c.args[0].id == var for c in ast.walk(st))
            if not reports:
                continue
            if isinstance(st, ast.Expr):
                return True
            if isinstance(st, ast.If) and _if_truth(region, st, var, member_truth) is True and \
                    any(isinstance(c, ast.Call) and is_call_to(c, 'report') for b in st.body for c in ast.walk(b)):
                return True
    return False


def _if_truth(region, st, var, member_truth):
    def atom(n):
        if isinstance(n, ast.Compare) and len(n.ops) == 1 and isinstance(n.ops[0], (ast.In, ast.NotIn)) and isinstance(n.left, ast.Name) and n.left.id == var:
            c = n.comparators[0]
            if isinstance(c, ast.Attribute) and isinstance(c.value, ast.Name) and c.value.id == region.scanner_param:
                v = member_truth.get(c.attr)
                if v is None:
                    return None
                return v if isinstance(n.ops[0], ast.In) else (not v)
        return None
    return ev3(st.test, atom)


def tokerr_findings(sm, regions, writers_of, scanner_label):
    """-> (instances [(key, sample)], findings [(key, line_node, msg, rel_hint)], infos)"""
    inst, finds, infos = [], [], []
    site_txt = ', '.join(sorted({'%s -> %s' % (m, r) for m, r, c in sm.sites}))
    for reg in regions:
        if not reg.handlers:
            infos.append('%s: no handler around the yield catches compile errors' % reg.label)
            continue
        discr = set()
        for h in reg.handlers:
            if h.name:
                discr |= membership_tests(reg, h, h.name)
        if len(discr) > 1:
            raise AnalysisError('%s: more than one discriminator list tested in the handler (%s): not modelled' % (reg.label, sorted(discr)))
        W = next(iter(discr)) if discr else None
        # ---- (record): which sites add their error to W
        recorded = {}
        if W is not None:
            for m, rname, call in sm.sites:
                env = sm.bind(sm.methods[rname], call, {})
                rec = sm.records(rname, W, env, reg.active_facts)
                key = '%s.%s:%s' % (scanner_label, m, rname)
                if rec is None:
                    raise AnalysisError('%s: cannot decide whether reporter %s adds the error to self.%s before raising (shape not modelled)' % (key, rname, W))
                recorded[(m, rname, id(call))] = rec
                inst.append((key + ':record', '%s calls %s: error %s in self.%s' % (m, rname, 'recorded' if rec else 'NOT recorded', W)))
                if not rec:
                    finds.append((key + ':unrecorded', call, None,
                                  'tokenizer error site %s.%s reports through %s(), which does not add the error object to self.%s before it can raise: %s tests '
                                  '`%s in %s.%s` to tell tokenizer errors from failed parse attempts, so this error is swallowed with the attempt although its text '
                                  'is consumed and never tokenized again - an invalid source compiles without any message (e.g. an unclosed string inside `with (...)`)'
                                  % (scanner_label, m, rname, W, reg.label, reg.handlers[0].name or 'e', reg.scanner_param, W)))
            # ---- (writers)
            for where, node, kind, ok in writers_of(W, sm):
                key = '%s.%s:writer:%s' % (scanner_label, W, where)
                inst.append((key, '%s %s self.%s' % (where, kind, W)))
                if not ok:
                    finds.append((key, node, None, '%s %s the list self.%s outside the scanner constructor and the recording reporters: %s decides by membership in this list '
                                  'which errors may be discarded, entries lost or added here make it swallow a tokenizer error or re-raise a failed parse attempt' % (where, kind, W, reg.label)))
        all_rec = bool(recorded) and all(recorded.values())
        truth_tok = {W: all_rec} if W else {}
        truth_par = {W: False} if W else {}
        # ---- (escape) / (tentative)
        for i, h in enumerate(reg.handlers):
            hk = '%s:handler%s' % (reg.label, '' if i == 0 else '#%d' % (i + 1))
            tok = eval_handler(reg, h, truth_tok)
            par = eval_handler(reg, h, truth_par)
            if tok is None or par is None:
                raise AnalysisError('%s: handler around the yield is not modelled (%s)' % (reg.label, _u(h)[:120]))
            fw = forwards_held(reg, reg.is_call_to, truth_tok)
            inst.append((hk + ':tokenizer', '%s: tokenizer error -> %s%s' % (reg.label, tok, ', held list re-reported' if fw else '')))
            inst.append((hk + ':parser', '%s: parser error -> %s' % (reg.label, par)))
            if tok == 'swallow' and (W is None or all_rec):
                finds.append((hk + ':swallows-tokenizer-errors', h, reg.rel,
                              '%s catches every compile error raised below its yield and discards the held list (release_errors(ignore=True)), then rewinds the tokens it recorded; '
                              'errors raised by the tokenizer itself (%s) are swallowed the same way although the text behind them is consumed and cannot be put back: the retry parses '
                              'the recovered tokens and an invalid source (`with (\'abc<newline>): pass`) compiles without any message, or the scanner goes on in a stale state'
                              % (reg.label, site_txt)))
            if par == 'raise':
                finds.append((hk + ':not-tentative', h, reg.rel,
                              '%s re-raises an ordinary parse error of the attempt: the alternative the caller would try next is never tried, valid programs '
                              '(`with (a, b): pass`, match patterns) are rejected' % reg.label))
            # ---- (abort): without re-reporting, a tokenizer error that does not raise stays in the held list and is dropped
            if not fw:
                for m, rname, call in sm.sites:
                    env = sm.bind(sm.methods[rname], call, {})
                    rz = sm.raises(rname, env, reg.active_facts)
                    key = '%s.%s:%s' % (scanner_label, m, rname)
                    inst.append((key + ':abort', '%s calls %s(%s): raises inside %s: %s' % (m, rname, ', '.join(_u(k) for k in call.keywords), reg.label, rz)))
                    if rz is None:
                        infos.append('%s: cannot decide whether %s raises while %s is active' % (key, rname, reg.label))
                    elif rz is False:
                        finds.append((key + ':non-fatal-discarded', call, None,
                                      'tokenizer error site %s.%s reports through %s(%s) without raising while %s is active (facts: %s); the error only lands in the held list, '
                                      'which the region drops (release_errors(ignore=True)) without re-reporting, and the tokens produced are put back and parsed again without it: '
                                      'the invalid source compiles without any message (`with (f"}"): pass`)'
                                      % (scanner_label, m, rname, ', '.join(_u(k) for k in call.keywords), reg.label,
                                         ', '.join('%s.%s is %s' % (reg.scanner_param, a, 'None' if v == 'none' else 'not None') for a, v in sorted(reg.active_facts.items())) or 'none')))
    return inst, finds, infos


def _real_tokerr(ctx):
    ix = ctx.index
    sc = ix.mod('Scanning')
    er = ix.mod('Errors')
    S = None
    for c in sc.classes.values():
        fn = c.methods.get('next')
        if fn and any(isinstance(n, ast.Call) and isinstance(n.func, ast.Attribute) and n.func.attr == 'read' and isinstance(n.func.value, ast.Name)
                      and n.func.value.id == fn.args.args[0].arg for n in walk_no_nested(fn)):
            S = c
    if S is None:
        raise AnalysisError('Scanning: no class whose next() calls self.read() (scanner moved?)')
    methods = {}
    for k in reversed(ix.mro(S)):
        if k.module is sc:
            methods.update(k.methods)
    # error constructors of Errors: functions that instantiate a CompileError (sub)class and hand it to report_error
    ce = er.classes.get('CompileError')
    if ce is None:
        raise AnalysisError('Errors.CompileError not found')
    ctor_names = set()
    for name, fn in er.functions.items():
        for n in walk_no_nested(fn):
            if isinstance(n, ast.Call) and isinstance(n.func, ast.Name) and n.func.id in er.classes and ce in ix.mro(er.classes[n.func.id]):
                if any(isinstance(x, ast.Return) and x.value is not None for x in walk_no_nested(fn)):
                    ctor_names.add(name)
    if not ctor_names:
        raise AnalysisError('Errors: no function creates and returns a CompileError')

    def resolves_to(call, names, mod=sc):
        r = ix.resolve_expr(mod, call.func) if isinstance(call.func, (ast.Name, ast.Attribute)) else None
        return bool(r and r[0] == 'func' and r[1] is er and r[2].name in names)

    def is_error_ctor(call):
        return isinstance(call.func, ast.Name) and resolves_to(call, ctor_names)
    lex = ix.mod('Lexicon')
    action_names = set()
    for n in ast.walk(lex.tree):
        if isinstance(n, ast.Call) and isinstance(n.func, ast.Name) and n.func.id == 'Method' and n.args and isinstance(n.args[0], ast.Constant) and isinstance(n.args[0].value, str):
            action_names.add(n.args[0].value)
    missing = sorted(a for a in action_names if a not in methods)
    if len(action_names) < 10:
        raise AnalysisError('Lexicon: only %d Method(...) actions found' % len(action_names))
    sm = ScannerModel('%s.%s' % (sc.short, S.name), methods, action_names | {'next'}, is_error_ctor)
    # stack functions of Errors, found by what they do to the error stack (as in C43-HOLD)
    push, pop, report = set(), set(), set()
    for name, fn in er.functions.items():
        for n in walk_no_nested(fn):
            if isinstance(n, ast.Call) and isinstance(n.func, ast.Attribute) and isinstance(n.func.value, ast.Attribute) and n.func.value.attr.endswith('errors_stack'):
                if n.func.attr == 'append':
                    push.add(name)
                elif n.func.attr == 'pop':
                    pop.add(name)
        if fn.args.args and fn.args.args[0].arg == 'err' or any(isinstance(n, ast.Attribute) and n.attr == 'reported' for n in walk_no_nested(fn)):
            if any(isinstance(n, ast.Attribute) and n.attr == 'reported' for n in walk_no_nested(fn)):
                report.add(name)
    if not push or not pop or not report:
        raise AnalysisError('Errors: hold / release / report functions not found (%s, %s, %s)' % (push, pop, report))
    kinds = {'hold': push, 'release': pop, 'report': report}
    exc_names = {k.name for k in ix.mro(ce)} | {'BaseException', 'Exception'}
    regions = []
    for m in sorted(ix.modules.values(), key=lambda x: x.rel):
        if not m.rel.startswith('Cython/Compiler/') or 'yield' not in m.src or not any(k in m.src for k in push):
            continue        # (text prefilter only: a region needs a yield and a call of the push function)
        fns = [('%s.%s' % (m.short, qn), m.rel, fn) for qn, owner, fn in ix.functions_of(m)]
        regions += find_regions(fns, lambda c, k, m=m: isinstance(c.func, (ast.Name, ast.Attribute)) and resolves_to(c, kinds[k], m), exc_names)

    def writers_of(W, sm_):
        out = []
        for m in sorted(ix.modules.values(), key=lambda x: x.rel):
            if not m.rel.startswith('Cython/') or W not in m.src:
                continue    # (text prefilter only: a writer has to spell the attribute name)
            for qn, owner, fn in ix.functions_of(m):
                for n in walk_no_nested(fn):
                    tgt = None
                    kind = None
                    if isinstance(n, (ast.Assign, ast.AugAssign, ast.AnnAssign, ast.Delete)):
                        for t in (n.targets if isinstance(n, (ast.Assign, ast.Delete)) else [n.target]):
                            for x in ast.walk(t):
                                if isinstance(x, ast.Attribute) and x.attr == W:
                                    tgt, kind = x, ('deletes' if isinstance(n, ast.Delete) else 'assigns')
                    elif isinstance(n, ast.Call) and isinstance(n.func, ast.Attribute) and isinstance(n.func.value, ast.Attribute) and n.func.value.attr == W and \
                            n.func.attr in ('append', 'extend', 'insert', 'remove', 'pop', 'clear', 'sort', 'reverse'):
                        tgt, kind = n.func.value, 'calls .%s() on' % n.func.attr
                    if tgt is None:
                        continue
                    where = '%s.%s' % (m.short, qn)
                    in_scanner = owner is S or (owner is not None and S in ix.mro(owner))
                    ok = False
                    if in_scanner and fn.name == '__init__' and isinstance(n, ast.Assign) and isinstance(n.value, ast.List) and not n.value.elts:
                        ok = True
                    elif in_scanner and kind == 'calls .append() on' and (fn.name in sm_.reporters or fn.name in sm_.append_helpers(W)):
                        ok = True
                    out.append((where, n, kind, ok))
        return out
    return sm, regions, writers_of, '%s.%s' % (sc.short, S.name), sc, missing


_TOK_BAD = '''
class Sc:
    def next(self):
        self.read()
    def unclosed(self, text):
        self.error_here("unclosed")
    def brace(self, text):
        self.error("single brace", fatal=False)
    def error(self, message, fatal=True):
        err = error(None, message)
        if fatal: raise err
        return err
    def error_here(self, message, fatal=True):
        err = self.error(message, fatal=False)
        self.tok.append(err)
        if fatal or self.rewind is not None:
            raise err

def tentative(s):
    errors = hold_errors()
    try:
        s.rewind = []
        try:
            yield errors
        except CompileError as e:
            %s
        finally:
            s.put_back(1)
    finally:
        release_errors(ignore=True)
'''


def _mini_tokerr(handler_body):
    tree = ast.parse(_TOK_BAD % handler_body)
    cls = tree.body[0]
    methods = {f.name: f for f in cls.body if isinstance(f, ast.FunctionDef)}
    sm = ScannerModel('Sc', methods, {'next', 'unclosed', 'brace'}, lambda c: isinstance(c.func, ast.Name) and c.func.id == 'error')
    names = {'hold': {'hold_errors'}, 'release': {'release_errors'}, 'report': {'report_error'}}

    def is_call_to(c, k):
        return isinstance(c.func, ast.Name) and c.func.id in names[k]
    regions = find_regions([('tentative', 'mini', tree.body[1])], is_call_to, {'CompileError'})

    def writers_of(W, sm_):
        return []
    return tokerr_findings(sm, regions, writers_of, 'Sc')


def rule_TOKERR(ctx, floor=7):
    r = Rule('C43-TOKERR', 'errors reported by lexer actions are not discarded by a tentative scan: the region that swallows compile errors and drops its held list lets '
                           'tokenizer errors escape (discriminator list: every tokenizer error site records into it, sole writers), still swallows parse errors, and no '
                           'tokenizer error stays non-fatal inside it', floor)
    sm, regions, writers_of, label, sc, missing = _real_tokerr(ctx)
    if not regions:
        raise AnalysisError('no discard region found (a generator that holds errors, releases them with ignore=True and puts tokens back): tentatively_scan moved?')
    if len(sm.sites) < 5:
        raise AnalysisError('only %d tokenizer error sites found in %s' % (len(sm.sites), label))
    for a in missing:
        r.info('Lexicon action %r is not a method of %s' % (a, label))
    inst, finds, infos = tokerr_findings(sm, regions, writers_of, label)
    for key, sample in inst:
        r.inst(key, sample=sample)
    for key, node, rel, msg in finds:
        r.violate(key, rel or sc.rel, getattr(node, 'lineno', 0), msg)
    for i in infos:
        r.info(i)
    # embedded examples: the unconditional handler must be reported, the discriminating one must not; a site that bypasses the recorder must be reported
    bad = _mini_tokerr('pass')
    good = _mini_tokerr('if e in s.tok:\n                raise')
    ok = any(k.endswith(':swallows-tokenizer-errors') for k, *_ in bad[1]) and any(k.endswith('brace:error:non-fatal-discarded') for k, *_ in bad[1]) and \
        not any(k.endswith(':swallows-tokenizer-errors') or k.endswith(':not-tentative') for k, *_ in good[1]) and \
        any(k.endswith('brace:error:unrecorded') for k, *_ in good[1]) and not any('unclosed' in k for k, *_ in good[1])
    r.positive_control(ok, 'mini scanner: `except CompileError: pass` swallows tokenizer errors; a site reporting through the plain reporter is unrecorded / non-fatal')
    return r


# ====================================================================================================== C43-DEFERRED
# ---- abstract values of the parser flow: frozensets of atoms ('C', class qual) | ('L', elements) | ('T', (component, ...))
EMPTY = frozenset()


def norm(atoms, depth=0):
    cls, lists, tuples = set(), [], {}
    for a in atoms:
        if a[0] == 'C':
            cls.add(a)
        elif a[0] == 'L':
            lists.append(a[1])
        else:
            tuples.setdefault(len(a[1]), []).append(a[1])
    out = set(cls)
    if lists:
        el = frozenset().union(*lists)
        out.add(('L', norm(el, depth + 1) if depth < 3 else frozenset(x for x in flat(el))))
    for n, ts in tuples.items():
        comps = tuple(norm(frozenset().union(*[t[i] for t in ts]), depth + 1) if depth < 3 else frozenset(flat(frozenset().union(*[t[i] for t in ts]))) for i in range(n))
        out.add(('T', comps))
    return frozenset(out)


def flat(atoms):
    """all class atoms at any depth"""
    for a in atoms:
        if a[0] == 'C':
            yield a
        elif a[0] == 'L':
            yield from flat(a[1])
        else:
            for c in a[1]:
                yield from flat(c)


def elems(v):
    out = set()
    for a in v:
        if a[0] == 'L':
            out |= a[1]
        elif a[0] == 'T':
            for c in a[1]:
                out |= c
    return norm(out)


def component(v, i):
    out = set()
    for a in v:
        if a[0] == 'T' and i < len(a[1]):
            out |= a[1][i]
        elif a[0] == 'L':
            out |= a[1]
    return norm(out)


def scalars(v):
    return {a[1] for a in v if a[0] == 'C'}


class ParserFlow:
    """Which node classes can the parser put into which child slot?  Flow-insensitive value flow through the functions of one module."""

    def __init__(self, ix, module, root):
        self.ix, self.m, self.root = ix, module, root
        self.ret = {name: EMPTY for name in module.functions}
        self.slots = {}          # (class qual, attr) -> value
        self.classes = {}        # class qual -> ClassInfo  (classes the parser constructs)
        self.ctor_sites = {}     # class qual -> [(function name, line)]
        self._ctor_cache = {}
        self.changed = True
        rounds = 0
        while self.changed:
            self.changed = False
            rounds += 1
            if rounds > 12:
                raise AnalysisError('parser value flow does not stabilise')
            for name, fn in module.functions.items():
                self.function(name, fn)

    def ctor(self, call):
        k = id(call)
        if k not in self._ctor_cache:
            r = self.ix.resolve_expr(self.m, call.func) if isinstance(call.func, (ast.Name, ast.Attribute)) else None
            self._ctor_cache[k] = r[1] if (r and r[0] == 'class' and self.root in self.ix.mro(r[1])) else None
        return self._ctor_cache[k]

    def add_slot(self, key, v):
        old = self.slots.get(key, EMPTY)
        new = norm(old | v)
        if new != old or key not in self.slots:
            self.slots[key] = new
            self.changed = True

    def ev(self, e, env):
        if isinstance(e, ast.Call):
            c = self.ctor(e)
            if c is not None:
                return frozenset([('C', c.qual)])
            f = e.func
            if isinstance(f, ast.Name):
                if f.id in self.ret:
                    return self.ret[f.id]
                if f.id in ('list', 'tuple', 'reversed', 'sorted') and len(e.args) == 1:
                    return self.ev(e.args[0], env)
            return EMPTY
        if isinstance(e, ast.Name):
            return env.get(e.id, EMPTY)
        if isinstance(e, (ast.List, ast.Set)):
            out = set()
            for x in e.elts:
                out |= self.ev(x.value if isinstance(x, ast.Starred) else x, env) if not isinstance(x, ast.Starred) else elems(self.ev(x.value, env))
            return frozenset([('L', norm(out))])
        if isinstance(e, ast.Tuple):
            return frozenset([('T', tuple(self.ev(x, env) for x in e.elts))])
        if isinstance(e, (ast.ListComp, ast.GeneratorExp, ast.SetComp)):
            env2 = dict(env)
            for g in e.generators:
                self.bind(g.target, elems(self.ev(g.iter, env2)), env2)
            return frozenset([('L', self.ev(e.elt, env2))])
        if isinstance(e, ast.Subscript):
            v = self.ev(e.value, env)
            if isinstance(e.slice, ast.Constant) and isinstance(e.slice.value, int) and e.slice.value >= 0:
                return component(v, e.slice.value)
            if isinstance(e.slice, ast.Slice):
                return v
            return elems(v)
        if isinstance(e, ast.IfExp):
            return norm(self.ev(e.body, env) | self.ev(e.orelse, env))
        if isinstance(e, ast.BoolOp):
            return norm(frozenset().union(*[self.ev(x, env) for x in e.values]))
        if isinstance(e, ast.Attribute):
            out = set()
            for q in scalars(self.ev(e.value, env)):
                out |= self.slots.get((q, e.attr), EMPTY)
            return norm(out)
        if isinstance(e, ast.BinOp) and isinstance(e.op, ast.Add):
            return norm(self.ev(e.left, env) | self.ev(e.right, env))
        return EMPTY

    def bind(self, target, v, env):
        if isinstance(target, ast.Name):
            old = env.get(target.id, EMPTY)
            new = norm(old | v)
            if new != old:
                env[target.id] = new
                return True
        elif isinstance(target, (ast.Tuple, ast.List)):
            ch = False
            for i, t in enumerate(target.elts):
                ch |= bool(self.bind(t, component(v, i), env))
            return ch
        return False

    def function(self, name, fn):
        env = {}
        nodes = list(walk_no_nested(fn))
        nodes.sort(key=lambda n: (getattr(n, 'lineno', 0), getattr(n, 'col_offset', 0)))
        for _ in range(6):
            ch = False
            for n in nodes:
                if isinstance(n, ast.Assign):
                    v = self.ev(n.value, env)
                    for t in n.targets:
                        if isinstance(t, ast.Attribute):
                            for q in scalars(self.ev(t.value, env)):
                                self.add_slot((q, t.attr), v)
                        else:
                            ch |= bool(self.bind(t, v, env))
                elif isinstance(n, ast.AnnAssign) and n.value is not None:
                    ch |= bool(self.bind(n.target, self.ev(n.value, env), env))
                elif isinstance(n, ast.AugAssign):
                    ch |= bool(self.bind(n.target, self.ev(n.value, env), env))
                elif isinstance(n, ast.For):
                    ch |= bool(self.bind(n.target, elems(self.ev(n.iter, env)), env))
                elif isinstance(n, ast.Expr) and isinstance(n.value, ast.Call) and isinstance(n.value.func, ast.Attribute) and \
                        n.value.func.attr in ('append', 'extend', 'insert') and n.value.args:
                    c = n.value
                    arg = self.ev(c.args[-1], env)
                    v = arg if c.func.attr == 'extend' else frozenset([('L', arg)])
                    tgt = c.func.value
                    if isinstance(tgt, ast.Name):
                        ch |= bool(self.bind(tgt, v, env))
                    elif isinstance(tgt, ast.Attribute):
                        for q in scalars(self.ev(tgt.value, env)):
                            self.add_slot((q, tgt.attr), v)
                elif isinstance(n, ast.Return) and n.value is not None:
                    v = norm(self.ret[name] | self.ev(n.value, env))
                    if v != self.ret[name]:
                        self.ret[name] = v
                        self.changed = True
                if isinstance(n, ast.Call):
                    c = self.ctor(n)
                    if c is not None:
                        if c.qual not in self.classes:
                            self.classes[c.qual] = c
                            self.changed = True
                        sites = self.ctor_sites.setdefault(c.qual, [])
                        if (name, n.lineno) not in sites:
                            sites.append((name, n.lineno))
                        for k in n.keywords:
                            if k.arg:
                                self.add_slot((c.qual, k.arg), self.ev(k.value, env))
            if not ch:
                break

    # ---- queries
    def holders(self, xq):
        """-> [(class qual, attr, 'scalar' | 'list')] slots that may hold class xq"""
        out = []
        for (q, a), v in sorted(self.slots.items()):
            if ('C', xq) in v:
                out.append((q, a, 'scalar'))
            if any(at[0] != 'C' and ('C', xq) in set(flat([at])) for at in v):
                out.append((q, a, 'list'))
        return out

    def containing(self, xq):
        """class quals whose subtree may hold xq"""
        cont = set()
        changed = True
        while changed:
            changed = False
            for (q, a), v in self.slots.items():
                if q in cont:
                    continue
                names = {c[1] for c in flat(v)}
                if xq in names or names & cont:
                    cont.add(q)
                    changed = True
        return cont


def exit_kinds(fn, node_param, raising_helpers, selfname):
    """-> set of 'raise' | 'none' | 'node' | 'other': how the handler can leave"""
    kinds = set()

    def walk(stmts):
        """-> falls through?"""
        for st in stmts:
            if isinstance(st, ast.Raise):
                kinds.add('raise')
                return False
            if isinstance(st, ast.Return):
                v = st.value
                if v is None or (isinstance(v, ast.Constant) and v.value is None):
                    kinds.add('none')
                elif isinstance(v, ast.Name) and v.id == node_param:
                    kinds.add('node')
                else:
                    kinds.add('other')
                return False
            if isinstance(st, ast.Expr) and isinstance(st.value, ast.Call) and isinstance(st.value.func, ast.Attribute) and \
                    isinstance(st.value.func.value, ast.Name) and st.value.func.value.id == selfname and st.value.func.attr in raising_helpers:
                kinds.add('raise')
                return False
            if isinstance(st, ast.If):
                a = walk(st.body)
                b = walk(st.orelse)
                if not a and not b:
                    return False
            elif isinstance(st, (ast.For, ast.While)):
                walk(st.body)
                walk(st.orelse)
            elif isinstance(st, ast.With):
                if not walk(st.body):
                    return False
            elif isinstance(st, ast.Try):
                a = walk(st.body)
                hs = [walk(h.body) for h in st.handlers]
                if st.finalbody and not walk(st.finalbody):
                    return False
                if not a and not any(hs):
                    return False
        return True
    if walk(fn.body):
        kinds.add('none')
    return kinds


def _is_visit_children_call(c, selfname, node_param, resolver=None, depth=0):
    """self.visitchildren(node) / self._process_children(node), or a call of a method of the transform (self.m(node), super().m(node))
    that itself visits the children of the parameter the node is passed for"""
    f = c.func
    if not isinstance(f, ast.Attribute):
        return False
    recv = f.value
    is_self = isinstance(recv, ast.Name) and recv.id == selfname
    is_super = isinstance(recv, ast.Call) and isinstance(recv.func, ast.Name) and recv.func.id == 'super'
    if not (is_self or is_super):
        return False
    pos = [i for i, a in enumerate(c.args) if isinstance(a, ast.Name) and a.id == node_param]
    if not pos:
        return False
    if 'children' in f.attr:
        return True
    fn2 = resolver(f.attr, is_super) if (resolver is not None and depth < 5) else None
    if fn2 is None or len(fn2.args.args) <= 1 + pos[0]:
        return False
    sn2, np2 = fn2.args.args[0].arg, fn2.args.args[1 + pos[0]].arg
    return any(isinstance(n, ast.Call) and _is_visit_children_call(n, sn2, np2, resolver, depth + 1) for n in walk_no_nested(fn2))


def previsit_calls(fn, resolver=None):
    """-> (calls [(method name, call)] made on the node before the children were visited, visited_at_end, has_visit_call)"""
    selfname, node_param = fn.args.args[0].arg, fn.args.args[1].arg
    pre = []
    has = [False]

    def stmt_exprs(st):
        for fld, val in ast.iter_fields(st):
            if fld in ('body', 'orelse', 'finalbody', 'handlers'):
                continue
            if isinstance(val, ast.AST):
                yield val
            elif isinstance(val, list):
                for x in val:
                    if isinstance(x, ast.AST):
                        yield x

    def scan(stmts, visited):
        for st in stmts:
            if isinstance(st, (ast.FunctionDef, ast.AsyncFunctionDef, ast.ClassDef)):
                continue
            calls = [n for e in stmt_exprs(st) for n in ast.walk(e) if isinstance(n, ast.Call)]
            vis_here = any(_is_visit_children_call(c, selfname, node_param, resolver) for c in calls)
            if vis_here:
                has[0] = True
            if not visited:
                for c in calls:
                    f = c.func
                    if isinstance(f, ast.Attribute) and isinstance(f.value, ast.Name) and f.value.id == node_param:
                        if not vis_here or c.lineno < min(x.lineno for x in calls if _is_visit_children_call(x, selfname, node_param, resolver)):
                            pre.append((f.attr, c))
            if isinstance(st, ast.If):
                a = scan(st.body, visited or vis_here)
                b = scan(st.orelse, visited or vis_here)
                visited = (visited or vis_here) or (a and b and bool(st.orelse))
            elif isinstance(st, (ast.For, ast.While, ast.With)):
                scan(st.body, visited or vis_here)
                visited = visited or vis_here
            elif isinstance(st, ast.Try):
                a = scan(st.body, visited or vis_here)
                for h in st.handlers:
                    scan(h.body, visited or vis_here)
                v2 = scan(st.finalbody, a) if st.finalbody else a
                visited = visited or vis_here or v2
            else:
                visited = visited or vis_here
            if isinstance(st, (ast.Return, ast.Raise)):
                break
        return visited
    end = scan(fn.body, False)
    return pre, end, has[0]


class TypeEval:
    """Attribute accesses on values that may be the placeholder, reached from one method of one constructed class."""

    def __init__(self, ix, flow, xq, xc, cont):
        self.ix, self.flow, self.xq, self.xc, self.cont = ix, flow, xq, xc, cont
        self.memo = {}
        self.xattrs = set(ix.defined_attrs(xc)) | {a for (q, a) in flow.slots if q == xq}
        self.steps = 0

    def method(self, cq, mname):
        key = (cq, mname)
        if key in self.memo:
            return self.memo[key]
        self.memo[key] = []
        ci = self.flow.classes.get(cq)
        r = self.ix.find_method(ci, mname) if ci is not None else None
        if r:
            self.memo[key] = self.run(cq, r[0], r[1])
        return self.memo[key]

    def is_x(self, owner, e):
        r = self.ix.resolve_expr(owner.module, e) if isinstance(e, (ast.Name, ast.Attribute)) else None
        return bool(r and r[0] == 'class' and r[1] is self.xc)

    def guard(self, owner, test):
        """isinstance(E, X) -> (text of E, True);  not isinstance(E, X) -> (text, False)"""
        pos = True
        if isinstance(test, ast.UnaryOp) and isinstance(test.op, ast.Not):
            test, pos = test.operand, False
        if isinstance(test, ast.Call) and isinstance(test.func, ast.Name) and test.func.id == 'isinstance' and len(test.args) == 2:
            cl = test.args[1]
            if any(self.is_x(owner, c) for c in (cl.elts if isinstance(cl, ast.Tuple) else [cl])):
                return _u(test.args[0]), pos
        return None

    def run(self, cq, owner, fn):
        self.steps += 1
        if self.steps > 4000:
            raise AnalysisError('C43-DEFERRED: type evaluation does not terminate')
        selfname = fn.args.args[0].arg if fn.args.args else 'self'
        env = {}
        off = []
        slots = self.flow.slots

        def ty(e):
            if isinstance(e, ast.Name):
                return env.get(e.id, EMPTY)
            if isinstance(e, ast.Attribute):
                if isinstance(e.value, ast.Name) and e.value.id == selfname:
                    return slots.get((cq, e.attr), EMPTY)
                out = set()
                for q in scalars(ty(e.value)):
                    out |= slots.get((q, e.attr), EMPTY)
                return norm(out)
            if isinstance(e, ast.Subscript):
                v = ty(e.value)
                if isinstance(e.slice, ast.Constant) and isinstance(e.slice.value, int) and e.slice.value >= 0:
                    return component(v, e.slice.value)
                return v if isinstance(e.slice, ast.Slice) else elems(v)
            if isinstance(e, ast.Call) and isinstance(e.func, ast.Name):
                if e.func.id == 'zip':
                    return frozenset([('L', frozenset([('T', tuple(elems(ty(a)) for a in e.args))]))])
                if e.func.id == 'enumerate' and e.args:
                    return frozenset([('L', frozenset([('T', (EMPTY, elems(ty(e.args[0]))))]))])
                if e.func.id in ('list', 'tuple', 'reversed', 'sorted', 'iter') and len(e.args) == 1:
                    return ty(e.args[0])
            if isinstance(e, ast.IfExp):
                return norm(ty(e.body) | ty(e.orelse))
            if isinstance(e, ast.BoolOp):
                return norm(frozenset().union(*[ty(x) for x in e.values]))
            if isinstance(e, (ast.List, ast.Tuple)):
                return frozenset([('L', norm(frozenset().union(*[ty(x) for x in e.elts]) if e.elts else EMPTY))])
            if isinstance(e, ast.BinOp) and isinstance(e.op, ast.Add):
                return norm(ty(e.left) | ty(e.right))
            return EMPTY

        def bind(t, v):
            if isinstance(t, ast.Name):
                env[t.id] = norm(env.get(t.id, EMPTY) | v)
            elif isinstance(t, (ast.Tuple, ast.List)):
                for i, x in enumerate(t.elts):
                    bind(x, component(v, i))

        def check(e, excl):
            if e is None:
                return
            if isinstance(e, (ast.ListComp, ast.GeneratorExp, ast.SetComp, ast.DictComp)):
                ex = set(excl)
                for g in e.generators:
                    check(g.iter, ex)
                    bind(g.target, elems(ty(g.iter)))
                    for cond in g.ifs:
                        check(cond, ex)
                        gd = self.guard(owner, cond)
                        if gd and not gd[1]:
                            ex.add(gd[0])
                for part in ([e.key, e.value] if isinstance(e, ast.DictComp) else [e.elt]):
                    check(part, ex)
                return
            if isinstance(e, ast.Lambda):
                return
            if isinstance(e, ast.BoolOp):
                ex = set(excl)
                for v in e.values:
                    check(v, ex)
                    gd = self.guard(owner, v)
                    if gd and ((isinstance(e.op, ast.And) and not gd[1]) or (isinstance(e.op, ast.Or) and gd[1])):
                        ex.add(gd[0])
                return
            if isinstance(e, ast.IfExp):
                check(e.test, excl)
                gd = self.guard(owner, e.test)
                check(e.body, excl | ({gd[0]} if gd and not gd[1] else set()))
                check(e.orelse, excl | ({gd[0]} if gd and gd[1] else set()))
                return
            if isinstance(e, ast.Call) and isinstance(e.func, ast.Name) and e.func.id in ('isinstance', 'getattr', 'hasattr'):
                for a in e.args[1:]:
                    check(a, excl)
                if e.args and not isinstance(e.args[0], (ast.Name, ast.Attribute)):
                    check(e.args[0], excl)
                elif e.args and isinstance(e.args[0], ast.Attribute):
                    check(e.args[0].value, excl)
                return
            if isinstance(e, ast.Attribute) and isinstance(e.ctx, ast.Load):
                base = e.value
                if isinstance(base, ast.Name) and base.id == selfname:
                    pass
                else:
                    v = ty(base)
                    if self.xq in scalars(v) and _u(base) not in excl and e.attr not in self.xattrs:
                        off.append((cq, '%s.%s' % (owner.qual, fn.name), _u(e), e.attr, e.lineno, owner.module.rel))
                check(base, excl)
                return
            if isinstance(e, ast.Call):
                f = e.func
                if isinstance(f, ast.Attribute):
                    if isinstance(f.value, ast.Name) and f.value.id == selfname:
                        off.extend(self.method(cq, f.attr))
                    else:
                        for q in sorted(scalars(ty(f.value))):
                            if q != self.xq and q in self.cont:
                                off.extend(self.method(q, f.attr))
                check(f, excl)
                for a in e.args:
                    check(a.value if isinstance(a, ast.Starred) else a, excl)
                for k in e.keywords:
                    check(k.value, excl)
                return
            for ch in ast.iter_child_nodes(e):
                if isinstance(ch, ast.expr):
                    check(ch, excl)

        def block(stmts, excl):
            excl = set(excl)
            for st in stmts:
                if isinstance(st, (ast.FunctionDef, ast.AsyncFunctionDef, ast.ClassDef)):
                    continue
                if isinstance(st, ast.If):
                    check(st.test, excl)
                    gd = self.guard(owner, st.test)
                    if gd:
                        text, pos = gd
                        block(st.body, excl | (set() if pos else {text}))
                        block(st.orelse, excl | ({text} if pos else set()))
                        if pos and _ends(st.body):
                            excl.add(text)
                        if not pos and st.orelse and _ends(st.orelse):
                            excl.add(text)
                    else:
                        block(st.body, excl)
                        block(st.orelse, excl)
                elif isinstance(st, (ast.For, ast.AsyncFor)):
                    check(st.iter, excl)
                    bind(st.target, elems(ty(st.iter)))
                    names = {x.id for x in ast.walk(st.target) if isinstance(x, ast.Name)}
                    block(st.body, {t for t in excl if t not in names})
                    block(st.orelse, excl)
                elif isinstance(st, ast.While):
                    check(st.test, excl)
                    block(st.body, excl)
                    block(st.orelse, excl)
                elif isinstance(st, ast.Try):
                    block(st.body, excl)
                    for h in st.handlers:
                        block(h.body, excl)
                    block(st.orelse, excl)
                    block(st.finalbody, excl)
                elif isinstance(st, (ast.With, ast.AsyncWith)):
                    for it in st.items:
                        check(it.context_expr, excl)
                    block(st.body, excl)
                elif isinstance(st, (ast.Assign, ast.AnnAssign, ast.AugAssign)):
                    val = st.value
                    check(val, excl)
                    targets = st.targets if isinstance(st, ast.Assign) else [st.target]
                    for t in targets:
                        if isinstance(t, (ast.Name, ast.Tuple, ast.List)) and val is not None:
                            bind(t, ty(val))
                            for x in ast.walk(t):
                                if isinstance(x, ast.Name):
                                    excl.discard(x.id)
                        else:
                            for ch in ast.iter_child_nodes(t):
                                if isinstance(ch, ast.expr):
                                    check(ch, excl)
                else:
                    for ch in ast.iter_child_nodes(st):
                        if isinstance(ch, ast.expr):
                            check(ch, excl)
        # two passes so that loop-carried bindings are seen
        block(fn.body, set())
        del off[:]
        block(fn.body, set())
        seen, res = set(), []
        for o in off:
            if o not in seen:
                seen.add(o)
                res.append(o)
        return res


def none_deref_witness(ix, ci, attr, root):
    """a method of ci (MRO) that reads self.<attr>.<x> and never tests self.<attr> against None / for truth -> (qual, line, text) or None"""
    for k in ix.mro(ci):
        if root not in ix.mro(k):
            continue
        for name, fn in sorted(k.methods.items()):
            if not fn.args.args:
                continue
            sn = fn.args.args[0].arg
            text = '%s.%s' % (sn, attr)
            derefs = [n for n in walk_no_nested(fn) if isinstance(n, ast.Attribute) and isinstance(n.value, ast.Attribute) and _u(n.value) == text and isinstance(n.ctx, ast.Load)]
            if not derefs:
                continue
            tested = False
            for n in walk_no_nested(fn):
                if isinstance(n, ast.Compare) and _u(n.left) == text and any(isinstance(c, ast.Constant) and c.value is None for c in n.comparators):
                    tested = True
                if isinstance(n, (ast.If, ast.IfExp, ast.While)) and _u(n.test) in (text, 'not ' + text):
                    tested = True
                if isinstance(n, ast.BoolOp) and any(_u(v) in (text, 'not ' + text) for v in n.values):
                    tested = True
            if not tested:
                d = min(derefs, key=lambda n: n.lineno)
                return ('%s.%s' % (k.qual, name), d.lineno, _u(d), k.module.rel)
    return None


def deferred_model(ix):
    root = ix.cls('Nodes', 'Node')
    pm = ix.mod('Parsing')
    er = ix.mod('Errors')
    ce = er.classes.get('CompileError')
    flow = ParserFlow(ix, pm, root)
    vt = ix.cls('Visitor', 'TreeVisitor')
    transforms = [c for c in ix.all_classes() if vt in ix.mro(c) and c is not vt]
    # ---- placeholder classes: a handler turns the node itself into an error (its arguments are attributes of the node)
    found = {}      # class qual -> [(transform ClassInfo, handler FunctionDef)]
    for t in sorted(transforms, key=lambda c: c.qual):
        for name, fn in sorted(t.methods.items()):
            if not name.startswith('visit_') or len(fn.args.args) < 2:
                continue
            np_ = fn.args.args[1].arg
            for n in walk_no_nested(fn):
                if not isinstance(n, ast.Call) or len(n.args) < 2:
                    continue
                r = ix.resolve_expr(t.module, n.func) if isinstance(n.func, (ast.Name, ast.Attribute)) else None
                is_err = bool(r and ((r[0] == 'func' and r[1] is er and any(isinstance(x, ast.Call) and isinstance(x.func, ast.Name) and x.func.id in er.classes and ce in ix.mro(er.classes[x.func.id])
                                                                                        for x in walk_no_nested(r[2])))
                                     or (r[0] == 'class' and ce is not None and ce in ix.mro(r[1]))))
                if not is_err:
                    continue
                if all(isinstance(a, ast.Attribute) and isinstance(a.value, ast.Name) and a.value.id == np_ for a in n.args[:2]):
                    for xc in ix.classes_by_name.get(name[6:], []):
                        if root in ix.mro(xc) and xc.qual in flow.classes:
                            found.setdefault(xc.qual, []).append((t, fn))
    # ---- inert classes nobody handles: constructed by the parser, no methods, no children, no handler in any transform
    unhandled = []
    for q, c in sorted(flow.classes.items()):
        if c.bases == [root] and not c.methods and q not in found:
            ca = ix.class_list_attr(c, 'child_attrs')
            if ca is not None and ca[0] is c and not ca[1]:
                if not any(('visit_' + c.name) in t.methods for t in transforms):
                    unhandled.append(c)
    return root, flow, found, unhandled, transforms


def deferred_findings(ix, root, flow, found, unhandled):
    inst, finds, infos = [], [], []
    for c in unhandled:
        key = 'unhandled:%s' % c.qual
        inst.append((key, '%s: constructed by the parser, no interface, no handler' % c.qual))
        site = flow.ctor_sites.get(c.qual, [('?', 0)])[0]
        finds.append((key, flow.m.rel, site[1], 'the parser (%s) puts a %s into the tree, a node class without any node interface (no methods, no children), and no transform has a '
                      'visit_%s handler that turns it into an error: the first phase that calls a node method on it raises AttributeError - a compiler crash instead of a syntax error' % (site[0], c.qual, c.name)))
    for xq, handlers in sorted(found.items()):
        xc = flow.classes[xq]
        holders = flow.holders(xq)
        cont = flow.containing(xq)
        sites = flow.ctor_sites.get(xq, [])
        if not holders:
            infos.append('%s: constructed at %d parser sites but reaches no child slot' % (xq, len(sites)))
        for t, hfn in handlers:
            selfname, np_ = hfn.args.args[0].arg, hfn.args.args[1].arg
            helpers = set()
            for k in ix.mro(t):
                for mn, mf in k.methods.items():
                    if mf is not hfn and mf.args.args and exit_kinds(mf, None, set(), mf.args.args[0].arg) == {'raise'}:
                        helpers.add(mn)
            kinds = exit_kinds(hfn, np_, helpers, selfname)
            hl = '%s.%s' % (t.qual, hfn.name)
            inst.append(('exit:%s' % hl, '%s leaves by: %s' % (hl, ', '.join(sorted(kinds)))))
            if kinds - {'raise', 'none'}:
                finds.append(('survives:%s' % hl, t.module.rel, hfn.lineno,
                              '%s can return a node (%s): the %s placeholder (or its replacement without a node interface) stays in the tree after the phase that was to turn it into the '
                              'deferred syntax error; the next transform that calls a node method on the slot contents raises AttributeError (compiler crash instead of a positioned error)'
                              % (hl, ', '.join(sorted(kinds - {'raise', 'none'})), xq)))
            # ---- (exit) + (reach) per slot
            for q, a, how in holders:
                pc = flow.classes.get(q)
                key = '%s.%s:%s' % (q, a, xc.name)
                inst.append(('slot:' + key, '%s.%s may hold %s (%s)' % (q, a, xc.name, how)))
                ca = ix.class_list_attr(pc, 'child_attrs') if pc is not None else None
                if ca is None:
                    infos.append('%s: child_attrs not a literal list, reachability of .%s not decided' % (q, a))
                elif a not in ca[1]:
                    finds.append(('unreached:' + key, flow.m.rel, (flow.ctor_sites.get(q) or [('?', 0)])[0][1],
                                  'the parser can store a %s in %s.%s, which is not one of the class\'s child_attrs (%s): %s never visits it, the deferred syntax error is never reported '
                                  'and the placeholder is used as if it were a real node (AttributeError in a later phase)' % (xq, q, a, ', '.join(ca[1]), hl)))
                if 'none' in kinds and how == 'scalar' and pc is not None:
                    w = none_deref_witness(ix, pc, a, root)
                    if w is None:
                        infos.append('%s: %s returns None for the %s in this scalar slot, every reader of the slot tests it for None' % (key, hl, xc.name))
                    else:
                        finds.append(('drop:' + key, t.module.rel, hfn.lineno,
                                      '%s reports the deferred error without stopping and returns None, which the visitor stores in the scalar child slot %s.%s (the parser puts the %s there, '
                                      'e.g. from %s); compilation goes on to the next phases until abort_on_errors, and %s reads `%s` (line %d) without a None test: AttributeError on NoneType - '
                                      '"Compiler crash" plus a traceback instead of just the positioned syntax error' % (hl, q, a, xc.name, ', '.join(sorted({s[0] for s in sites})[:3]), w[0], w[2], w[1])))
            # ---- (visit) + (pre-visit): handlers of this transform for classes whose subtree may hold the placeholder
            by_handler = {}
            for q in sorted(cont):
                pc = flow.classes.get(q)
                if pc is None:
                    continue
                h = ix.visitor_handler(t, pc)
                if h is None:
                    continue
                by_handler.setdefault(id(h[2]), (h, []))[1].append(q)
            te = TypeEval(ix, flow, xq, xc, cont)
            for (k, owner, fn), quals in sorted(by_handler.values(), key=lambda x: (x[0][1].qual, x[0][2].name)):
                if len(fn.args.args) < 2:
                    continue
                fl = '%s.%s' % (owner.qual, fn.name)
                def resolver(mname, is_super, t=t, owner=owner, fn=fn):
                    if is_super:
                        mro = ix.mro(owner)
                        for k2 in mro[1:]:
                            if mname in k2.methods:
                                return k2.methods[mname]
                        return None
                    r2 = ix.find_method(t, mname)
                    return r2[1] if r2 and r2[1] is not fn else None
                pre, end, has = previsit_calls(fn, resolver)
                inst.append(('visit:%s' % fl, '%s (for %s): visits children: %s, %d node method calls before' % (fl, ', '.join(x.rsplit('.', 1)[-1] for x in quals), 'yes' if end else ('conditionally' if has else 'NO'), len(pre))))
                if not has:
                    finds.append(('unvisited:%s' % fl, owner.module.rel, fn.lineno,
                                  '%s handles %s, whose subtree can hold a %s placeholder, but never visits the children: the placeholder below it is not turned into its syntax error in this phase and '
                                  'reaches the later phases, which call node methods on it (AttributeError, compiler crash)' % (fl, ', '.join(quals), xq)))
                elif not end:
                    infos.append('%s: children visited on some paths only - not decided' % fl)
                seen_m = set()
                for mname, call in pre:
                    if mname in seen_m:
                        continue
                    seen_m.add(mname)
                    offs = []
                    for q in quals:
                        offs += te.method(q, mname)
                    key = 'previsit:%s:%s' % (fl, mname)
                    inst.append((key, '%s calls %s.%s() before visiting the children: %d unsafe accesses' % (fl, fn.args.args[1].arg, mname, len(offs))))
                    if offs:
                        uniq = []
                        for o in offs:
                            if (o[1], o[2]) not in [(u[1], u[2]) for u in uniq]:
                                uniq.append(o)
                        finds.append((key, owner.module.rel, call.lineno,
                                      '%s calls %s.%s() before it visited the children, i.e. while a %s placeholder can still sit in the subtree (parser: %s); the call reaches %s - %s does not define '
                                      '%s: AttributeError, reported as "Compiler crash in %s" instead of the deferred syntax error (e.g. `case [_ as _]:`, `case 1 | (2 as _):`)'
                                      % (fl, fn.args.args[1].arg, mname, xc.name, ', '.join(sorted({s[0] for s in sites})[:3]),
                                         '; '.join('`%s` in %s (line %d, receiver class %s)' % (o[2], o[1], o[4], o[0].rsplit('.', 1)[-1]) for o in uniq[:3]),
                                         xc.name, ' / '.join(sorted({repr(o[3]) for o in uniq[:3]})), t.name)))
    return inst, finds, infos


def rule_DEFERRED(ctx, floor=17):
    r = Rule('C43-DEFERRED', 'placeholder nodes the parser uses to defer a syntax error (ErrorNode): the handler that turns them into the error stops the phase by raising (no None left in a '
                             'scalar slot, no placeholder left in the tree), every slot the parser can put one into is a visited child slot, and the eliminating transform calls no node method '
                             'that touches a possible placeholder before it visited the children', floor)
    ix = ctx.index
    root, flow, found, unhandled, transforms = deferred_model(ix)
    if not found and not unhandled:
        raise AnalysisError('no placeholder node class found (no transform handler turns a parser-built node into an error): ErrorNode mechanism moved?')
    if len(flow.classes) < 80:
        raise AnalysisError('parser flow: only %d node classes constructed in Parsing' % len(flow.classes))
    inst, finds, infos = deferred_findings(ix, root, flow, found, unhandled)
    for key, sample in inst:
        r.inst(key, sample=sample)
    for key, rel, line, msg in finds:
        r.violate(key, rel, line, msg)
    for i in infos:
        r.info(i)
    # embedded examples for the two local analyses
    bad = ast.parse("def visit_X(self, node):\n    error(node.pos, node.what)\n    return None\n").body[0]
    good = ast.parse("def visit_X(self, node):\n    if node.what:\n        raise E(node.pos, node.what)\n    else:\n        self.fail(node)\n").body[0]
    h1 = ast.parse("def visit_P(self, node):\n    node.validate()\n    self.visitchildren(node)\n    return node\n").body[0]
    h2 = ast.parse("def visit_P(self, node):\n    self.visitchildren(node)\n    node.validate()\n    return node\n").body[0]
    ok = exit_kinds(bad, 'node', set(), 'self') == {'none'} and exit_kinds(good, 'node', {'fail'}, 'self') == {'raise'} and \
        [m for m, c in previsit_calls(h1)[0]] == ['validate'] and previsit_calls(h2)[0] == [] and previsit_calls(h2)[1]
    r.positive_control(ok, 'handler that reports and returns None / handler that validates before visiting the children')
    return r
