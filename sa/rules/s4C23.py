"""C23, fifth round (session H3): the "which exception is being handled" context of the code generator is dynamically scoped.

C23-EXCSCOPE   A yield / await / yield-from site decides from `code.funcstate.<current_except>` whether the suspended generator keeps the exception it is handling
               (__Pyx_Coroutine_SwapException) or drops it (__Pyx_Coroutine_ResetAndClearException); `raise` without operands re-raises from
               `code.funcstate.<exc_vars>`.  Both attributes of FunctionState describe the innermost except clause / exceptional finally clause whose code is being
               generated *right now*; try statements nest, so every generator method that writes one of them has to behave like a dynamic scope:
                 (restore)  on every normal exit of the method the attribute holds the value it had on entry -- the last write on the path stores a local that was
                            loaded from the attribute before the first write (a constant such as None is only right for the outermost statement);
                 (set)      code for an except clause (a call of a generate_* method that class ExceptClauseNode defines) is generated while the attribute the yield
                            sites test holds a value written by this method -- not the entry value, not None;
                 (outside)  every other nested code generation in such a method (try body, else clause ...) sees the entry value.
               The attributes are found from their readers (the test that selects between the two __Pyx_Coroutine_* emissions in YieldExprNode.generate_yield_code, the
               funcstate reads of ReraiseStatNode), the writers by scanning every function of Cython/Compiler for stores to <x>.funcstate.<attr> (aliases of
               <x>.funcstate followed); the three clauses are decided path-sensitively with sa/engine/pyflow.
"""
import ast

from ..core import Rule, AnalysisError
from ..engine import pyflow
from ..engine.pyindex import walk_no_nested

SWAP, RESET = '__Pyx_Coroutine_SwapException', '__Pyx_Coroutine_ResetAndClearException'


def _is_funcstate(e, aliases):
    return (isinstance(e, ast.Attribute) and e.attr == 'funcstate') or (isinstance(e, ast.Name) and e.id in aliases)


def _attr_of(e, aliases):
    """attribute name if e is <x>.funcstate.<attr> (or <alias>.<attr>)"""
    if isinstance(e, ast.Attribute) and _is_funcstate(e.value, aliases):
        return e.attr
    return None


def _aliases(fn):
    out = set()
    for n in walk_no_nested(fn):
        if isinstance(n, ast.Assign) and len(n.targets) == 1 and isinstance(n.targets[0], ast.Name) and isinstance(n.value, ast.Attribute) and n.value.attr == 'funcstate':
            out.add(n.targets[0].id)
    return out


def yield_test_attrs(fn):
    """attributes of funcstate tested by the `if` that chooses between the Swap and the ResetAndClear emission"""
    out = set()
    al = _aliases(fn)
    for n in walk_no_nested(fn):
        if not isinstance(n, ast.If):
            continue
        texts = [[c.value for st in blk for c in ast.walk(st) if isinstance(c, ast.Constant) and isinstance(c.value, str)] for blk in (n.body, n.orelse)]
        has = lambda i, h: any(h in t for t in texts[i])
        if (has(0, SWAP) and has(1, RESET)) or (has(0, RESET) and has(1, SWAP)):
            for x in ast.walk(n.test):
                a = _attr_of(x, al)
                if a:
                    out.add(a)
    return out


def funcstate_reads(fn):
    al = _aliases(fn)
    return {a for a in (_attr_of(x, al) for x in ast.walk(fn)) if a}


def scope_analysis(fn, attr, clause_gen):
    """-> (exit values: set of abstract values at the normal exits, events: set of (kind 'clause'|'other', call text, value, line))
    abstract values: 'ENTRY' the value on entry | 'NONE' the constant None | 'NEW' anything else"""
    al = _aliases(fn)

    def val(state):
        for f in state:
            if isinstance(f, tuple) and f[0] == 'val':
                return f[1]
        return 'ENTRY'

    def setval(state, v):
        return frozenset({f for f in state if not (isinstance(f, tuple) and f[0] == 'val')} | {('val', v)})

    def loc(state, name):
        for f in state:
            if isinstance(f, tuple) and f[0] == 'loc' and f[1] == name:
                return f[2]
        return None

    def setloc(state, name, v):
        s = {f for f in state if not (isinstance(f, tuple) and f[0] == 'loc' and f[1] == name)}
        if v is not None:
            s.add(('loc', name, v))
        return frozenset(s)

    def absval(e, state):
        """abstract value of an expression stored into the attribute"""
        if _attr_of(e, al) == attr:
            return val(state)
        if isinstance(e, ast.Name) and loc(state, e.id) is not None:
            return loc(state, e.id)
        if isinstance(e, ast.Constant) and e.value is None:
            return 'NONE'
        return 'NEW'

    def transfer(node, state):
        s = state
        # nested code generation performed by this statement / test
        for c in pyflow.calls_in(node):
            if isinstance(c.func, ast.Attribute) and c.func.attr.startswith('generate_') and c.func.attr.endswith('_code'):
                kind = 'clause' if c.func.attr in clause_gen else 'other'
                s = frozenset(s | {('evt', kind, ast.unparse(c.func), val(s), c.lineno)})
        if isinstance(node, ast.Assign):
            pairs = []
            for t in node.targets:
                if isinstance(t, (ast.Tuple, ast.List)) and isinstance(node.value, (ast.Tuple, ast.List)) and len(t.elts) == len(node.value.elts):
                    pairs += list(zip(t.elts, node.value.elts))
                else:
                    pairs.append((t, node.value))
            vals = [absval(v, s) if not isinstance(t, (ast.Tuple, ast.List)) else None for t, v in pairs]     # right-hand sides first
            for (t, v), av in zip(pairs, vals):
                if _attr_of(t, al) == attr:
                    s = setval(s, av)
                elif isinstance(t, ast.Name):
                    saved = av if (_attr_of(v, al) == attr or (isinstance(v, ast.Name) and loc(s, v.id) is not None)) else None
                    s = setloc(s, t.id, saved)
                elif isinstance(t, (ast.Tuple, ast.List)):
                    for x in ast.walk(t):
                        if isinstance(x, ast.Name):
                            s = setloc(s, x.id, None)
        elif isinstance(node, (ast.AugAssign, ast.AnnAssign)):
            t = node.target
            if _attr_of(t, al) == attr:
                s = setval(s, 'NEW' if isinstance(node, ast.AugAssign) or node.value is None else absval(node.value, s))
            elif isinstance(t, ast.Name):
                s = setloc(s, t.id, None)
        elif isinstance(node, (ast.For, ast.comprehension)):
            pass
        return s
    try:
        out = pyflow.Flow(transfer, correlate=True).run(fn)
    except pyflow.TooManyStates:
        raise AnalysisError('C23-EXCSCOPE: too many states in %s' % fn.name)
    exits = set()
    events = set()
    for st in set(out.normal) | set(out.returns):
        exits.add(val(st))
        events |= {f[1:] for f in st if isinstance(f, tuple) and f[0] == 'evt'}
    return exits, events


def rule_excscope(ctx, floor=4):     # 6 today; extracting save/set/loop/restore into a helper moves the two 'outside' obligations out of the writer (4 remain)
    ix = ctx.index
    r = Rule('C23-EXCSCOPE', 'the handled-exception context of the code generator (funcstate attribute the yield sites test to keep or drop the exception a suspended generator is '
             'handling, and the re-raise variables) is dynamically scoped: every method that sets it restores the value found on entry on every exit, generates except clauses '
             'with it set and everything else with the entry value', floor)
    y = ix.cls('ExprNodes', 'YieldExprNode')
    yfn = ix.find_method(y, 'generate_yield_code') if y else None
    if not yfn:
        raise AnalysisError('ExprNodes.YieldExprNode.generate_yield_code not found')
    tested = yield_test_attrs(yfn[1])
    if len(tested) != 1:
        raise AnalysisError('generate_yield_code: the test selecting between %s and %s reads the funcstate attributes %s (expected exactly one)' % (SWAP, RESET, sorted(tested)))
    rr = ix.cls('Nodes', 'ReraiseStatNode')
    rfn = ix.find_method(rr, 'generate_execution_code') if rr else None
    if not rfn:
        raise AnalysisError('Nodes.ReraiseStatNode.generate_execution_code not found')
    fs = ix.cls('Code', 'FunctionState')
    if fs is None:
        raise AnalysisError('Code.FunctionState not found')
    reraise_attrs = {a for a in funcstate_reads(rfn[1]) if a in fs.self_attrs and a not in fs.methods and not ix.find_method(fs, a)}
    if not reraise_attrs:
        raise AnalysisError('ReraiseStatNode.generate_execution_code reads no data attribute of funcstate')
    attrs = sorted(tested | reraise_attrs)
    for a in attrs:
        if a not in fs.self_attrs:
            raise AnalysisError('Code.FunctionState has no attribute %r' % a)
    ec = ix.cls('Nodes', 'ExceptClauseNode')
    if ec is None:
        raise AnalysisError('Nodes.ExceptClauseNode not found')
    clause_gen = {n for n in ec.methods if n.startswith('generate_') and n.endswith('_code')}
    if not clause_gen:
        raise AnalysisError('Nodes.ExceptClauseNode defines no generate_*_code method')
    the_test_attr = next(iter(tested))
    mods = [m for name, m in sorted(ix.modules.items()) if name.startswith('Cython.Compiler.')]
    writers = 0
    clause_sites = 0
    for m in mods:
        if not any(('.' + a) in m.src for a in attrs):
            continue
        for qual, owner, fn in ix.functions_of(m):
            al = _aliases(fn)
            written = set()
            for n in walk_no_nested(fn):
                if isinstance(n, (ast.Assign, ast.AugAssign, ast.AnnAssign)):
                    for t in (n.targets if isinstance(n, ast.Assign) else [n.target]):
                        for x in ast.walk(t):
                            a = _attr_of(x, al)
                            if a in attrs and isinstance(x.ctx, ast.Store):
                                written.add(a)
            for a in sorted(written):
                writers += 1
                base = '%s.%s:%s' % (m.short, qual, a)
                exits, events = scope_analysis(fn, a, clause_gen)
                r.inst(base + ':restore', sample='%s: value at the exits %s' % (base, sorted(exits)))
                bad = sorted(exits - {'ENTRY'})
                if bad:
                    what = {'NONE': 'the constant None', 'NEW': 'a value set by this method (never restored / restored from a local taken after the write)'}
                    r.violate(base + ':restore', m.rel, fn.lineno,
                              '%s.%s leaves funcstate.%s holding %s on a normal exit instead of the value found on entry: code generated afterwards for an ENCLOSING except '
                              'clause (a try statement nested inside an `except` block, then a yield / await / bare raise after it) sees the wrong handled-exception context -- '
                              'a generator suspended there drops (or wrongly keeps) the exception it is handling: sys.exc_info() / __context__ after the resume differ from CPython'
                              % (m.short, qual, a, ' / '.join(what[b] for b in bad)))
                if a != the_test_attr:
                    continue
                for kind, text, v, line in sorted(events):
                    key = '%s:%s:%s' % (base, 'set' if kind == 'clause' else 'outside', text)
                    r.inst(key, sample='%s under %s' % (key, v))
                    if kind == 'clause':
                        clause_sites += 1
                        if v != 'NEW':
                            r.violate(key, m.rel, line, '%s.%s generates an except clause (%s) while funcstate.%s holds %s: a yield / await inside the clause emits %s and the '
                                      'suspended generator forgets the exception it is handling' % (m.short, qual, text, a, 'the value found on entry' if v == 'ENTRY' else 'None', RESET))
                    elif v != 'ENTRY':
                        r.violate(key, m.rel, line, '%s.%s generates code that is not an except clause (%s) while funcstate.%s holds %s: a yield / await there is treated as '
                                  'lying inside this statement\'s except clause' % (m.short, qual, text, a, 'a value set by this method' if v == 'NEW' else 'None'))
    if writers < 2 or clause_sites < 1:
        raise AnalysisError('C23-EXCSCOPE: %d writers of %s and %d except-clause generation sites found' % (writers, attrs, clause_sites))
    # positive control
    pc = ast.parse('def generate_execution_code(self, code):\n    code.funcstate.current_except = self\n    for c in self.except_clauses:\n        c.generate_handling_code(code, 1)\n'
                   '    code.funcstate.current_except = None\n').body[0]
    pc2 = ast.parse('def generate_execution_code(self, code):\n    fs = code.funcstate\n    saved = fs.current_except\n    fs.current_except = self\n    try:\n        for c in self.except_clauses:\n'
                    '            c.generate_handling_code(code, 1)\n    finally:\n        fs.current_except = saved\n').body[0]
    e1, ev1 = scope_analysis(pc, 'current_except', {'generate_handling_code'})
    e2, ev2 = scope_analysis(pc2, 'current_except', {'generate_handling_code'})
    r.positive_control(e1 == {'NONE'} and e2 == {'ENTRY'} and all(v == 'NEW' for k, _, v, _ in ev2 if k == 'clause') and bool(ev2),
                       'reset to None instead of the saved value is rejected; save / set / try-finally restore through an alias is accepted')
    return r
