"""C40, two rules written from two deviations of the unmodified tree (safe type inference changes results of pure-Python code).

  C40-INFSCOPE   *Which scope does the overflow marking look names up in?*  Type inference runs once per scope object: every
                 `node.<attr>.infer_types()` call of a tree transform names a (node class, scope attribute) pair whose entries get C types
                 and whose `might_overflow` flags are read.  MarkOverflowingArithmetic finds the entry of a name through
                 `self.env.lookup(name)`, so while it visits the children of such a node `self.env` must BE that scope (and be put back
                 afterwards).  The obligations are derived from the inference call sites (sibling agreement: inferring transform vs marking
                 visitor), the handler the visitor dispatch selects for every class of the family is evaluated by the checker's evaluator on
                 a stub node.  Deviation: comprehensions (`ScopedExprNode.expr_scope`) were inferred but never installed:
                 `[i*i*i*i for i in range(3000000, 3000002)]` wrapped around.

  C40-ITEMTYPE   *Is the type inferred for an item read from a container value-faithful?*  Decision table of `IndexNode.infer_type` for an
                 integer index under safe inference (`infer_types=None`) over the COMPLETE partition of pure-Python container kinds
                 (str / bytes / bytearray objects; list / tuple / set literals whose items are all of one literal kind, with and without a
                 None item, with a constant and with an unknown index): the result is a Python object type that admits the item, or a C type
                 whose conversion back to Python gives an object of the item's Python type (Py_UCS4 -> str, bint -> bool, C integer -> int,
                 C double -> float).  This is the type MarkParallelAssignments / NextNode hand to inference for `for x in <container>` and
                 `x = <container>[i]`.  Deviation: `(b"a", b"b")` items were inferred as `unsigned char`: the loop variable held 97, 98.

Both rules interpret repository *code* with the evaluator of rules/pC07.py (+ the extensions below); nothing is imported or executed.
A construct the evaluator does not model is an ANALYSIS-ERROR, never a verdict.

Not decided: C40-INFSCOPE takes the scopes that are inferred from the `<node>.<attr>.infer_types()` call sites (another call shape is refused) and
says nothing about how a name is resolved inside the installed scope (closure entries: known finding K12).  C40-ITEMTYPE: literals that mix
Python types (the spanning type of two kinds is C40-BOOL / C40-PYTYPE territory), starred items (the recursive call answers None for every
StarredUnpackingNode today), the aggressive mode (infer_types=True: outside the property), the inferred types of the item literals themselves
(assumed: bytes / str literal -> bytes / str object, int -> C long, float -> C double, bool -> bint), `tuple[X, Y]` subscripted container types.

Registration: in props/C40.py `from ..rules import dD1` and `dD1.rule_infscope(ctx), dD1.rule_itemtype(ctx)` in the list run() returns.
"""
import ast

from ..core import Rule, AnalysisError, node_src
from .pC07 import Obj, Unsupported, RepoFn, Method, Sym
from .sC40 import LoopEval, PairEval

TI = 'Cython/Compiler/TypeInference.py'
EN = 'Cython/Compiler/ExprNodes.py'


def _label(x):
    return getattr(x, 'label', repr(x))


# ====================================================================================================== C40-INFSCOPE
def _is_node_class(ix, c):
    return any(k.name == 'Node' and k.module.short == 'Nodes' for k in ix.mro(c))


def inference_sites(ix):
    """Every zero-argument `<recv>.infer_types()` call in the compiler package -> [(module, visit method, node class name, scope attribute, line)].
    The receiver must be `<node parameter>.<attr>` inside a `visit_<NodeClass>` method; any other shape is not modelled."""
    sites = []
    for m in ix.modules.values():
        if 'infer_types' not in m.src:
            continue
        for qual, owner, fn in ix.functions_of(m):
            for n in ast.walk(fn):
                if not (isinstance(n, ast.Call) and isinstance(n.func, ast.Attribute) and n.func.attr == 'infer_types' and not n.args and not n.keywords):
                    continue
                # only calls that belong to this function itself (nested functions are listed on their own)
                if not any(n is x for x in _own_nodes(fn)):
                    continue
                recv = n.func.value
                params = [a.arg for a in fn.args.args]
                if (owner is not None and fn.name.startswith('visit_') and len(params) >= 2 and isinstance(recv, ast.Attribute)
                        and isinstance(recv.value, ast.Name) and recv.value.id == params[1]):
                    sites.append((m, owner, fn, fn.name[len('visit_'):], recv.attr, n.lineno))
                else:
                    raise AnalysisError('%s:%d %s: `%s` runs type inference on a scope this rule cannot attribute to a node class (expected '
                                        '`<node>.<scope attribute>.infer_types()` in a visit_<NodeClass> method)' % (m.rel, n.lineno, qual, node_src(n, 60)))
    return sites


def _own_nodes(fn):
    stack = list(ast.iter_child_nodes(fn))
    while stack:
        n = stack.pop()
        yield n
        if isinstance(n, (ast.FunctionDef, ast.AsyncFunctionDef, ast.Lambda, ast.ClassDef)):
            continue
        stack.extend(ast.iter_child_nodes(n))


class _Reached(Exception):
    pass


class _Loose(Obj):
    """Stub whose unmodelled methods are no-ops (they return the stub): used to walk a visit method up to its infer_types() call."""


class SiteEval(LoopEval):
    def getattr(self, o, name, frame):
        if isinstance(o, _Loose):
            if name in o.attrs:
                return o.attrs[name]
            if o.cls is not None:
                a = self.ix.find_class_attr(o.cls, name)
                if a is not None and isinstance(a[1], ast.AST) and not isinstance(a[1], (ast.FunctionDef, ast.ClassDef)):
                    try:
                        return ast.literal_eval(a[1])
                    except Exception:
                        raise Unsupported('class attribute %s.%s is not a literal' % (a[0].name, name))
                if self.ix.find_method(o.cls, name) is None:
                    raise Unsupported('attribute %s of a %s is not known statically' % (name, o.cls.name))
            return lambda *a, **kw: o
        return LoopEval.getattr(self, o, name, frame)


def site_reaches(ix, owner, fn, cls, attr):
    """Does the visit method `fn` run <node>.<attr>.infer_types() for a node of class `cls` (class-level flags)?  True / False / None = cannot tell."""
    def hit():
        raise _Reached()
    scope = _Loose('scope', flag_default=None, infer_types=hit)
    node = _Loose(cls.name, cls=cls, flag_default=None, **{attr: scope})
    try:
        SiteEval(ix).call(Method(RepoFn(owner.module, fn, owner), _Loose('transform', flag_default=None)), [node])
    except _Reached:
        return True
    except Unsupported:
        return None
    return False


_CHILD_VISITS = ('visitchildren', '_visitchildren', 'visit', '_visit', '_process_children')


def _visitor_self(ix, vis, env, stack, seen):
    so = Obj(vis.name, cls=vis, flag_default=None, might_overflow=False, env=env)
    so.attrs['env_stack'] = Obj('env_stack', append=lambda v: stack.append(v), pop=lambda: stack.pop())
    for name in _CHILD_VISITS:
        so.attrs[name] = lambda n, *a, **kw: seen.append(so.attrs['env'])
    return so


def _scope(label):
    """Scope stub; the scopes around it are other objects (a handler that installs one of them installs the wrong scope)."""
    o = Obj(label, flag_default=False)
    for a in ('outer_scope', 'parent_scope'):
        o.attrs[a] = Obj('%s of the %s' % (a, label), flag_default=False)
    return o


def _scope_stub(cls, attr, scope, has_local):
    others = {}
    for a in ('local_scope', 'expr_scope', 'scope'):
        if a != attr:
            others[a] = _scope('node.%s (another scope of the node)' % a)
    entry = Obj('entry', flag_default=False, scope=_scope('scope the node is declared in'))
    return Obj(cls.name, flag_default=False, entry=entry, name='f', has_local_scope=has_local, **dict(others, **{attr: scope}))


def run_scope_handler(ix, vis, owner, fn, cls, attr, scope, has_local=True):
    """-> (scopes `self.env` held at each visit of the children, scope afterwards, incoming scope)"""
    outer = _scope('enclosing scope')
    stack, seen = [], []
    so = _visitor_self(ix, vis, outer, stack, seen)
    node = _scope_stub(cls, attr, scope, has_local)
    ev = LoopEval(ix)
    ev.call(Method(RepoFn(owner.module, fn, owner), so), [node])
    return seen, so.attrs['env'], outer


def _scope_problem(seen, after, want, outer):
    if not seen:
        return 'does not visit the children'
    if not all(x is want for x in seen):
        return 'visits the children with self.env = %s' % ', '.join(sorted({_label(x) for x in seen if x is not want}))
    if after is not outer:
        return 'leaves self.env = %s behind' % _label(after)
    return None


def scope_table(ix, vis):
    """-> rows (node class, attr, handler name, handler line, scenario, problem or None), infos"""
    rows, infos = [], []
    sites = inference_sites(ix)
    if not sites:
        raise AnalysisError('no `<node>.<scope>.infer_types()` call found: where does type inference run?')
    pairs = {}
    for m, owner, fn, kname, attr, line in sites:
        cands = [c for c in ix.classes_by_name.get(kname, []) if _is_node_class(ix, c)]
        if len(cands) != 1:
            raise AnalysisError('%s.%s infers the scope of a %s, which is not exactly one node class' % (owner.name, fn.name, kname))
        pairs.setdefault((cands[0].qual, attr), (cands[0], attr, '%s.%s' % (owner.name, fn.name), owner, fn))
    for (qual, attr), (base, attr, where, site_owner, site_fn) in sorted(pairs.items()):
        if base.name == 'ModuleNode':
            # the root: the scope is installed by the entry point of the visitor, not by a handler
            rows.extend(_module_rows(ix, vis, base, attr, where, infos))
            continue
        default = ix.find_class_attr(base, attr)
        optional = default is not None and isinstance(default[1], ast.Constant) and default[1].value is None
        for cls in [base] + ix.subclasses(base):
            h = ix.visitor_handler(vis, cls)
            if h is None:
                raise AnalysisError('no handler of %s for %s' % (vis.name, cls.name))
            k, owner, fn = h
            local = _scope('node.%s (the scope %s infers)' % (attr, where))
            scenarios = []
            reached = site_reaches(ix, site_owner, site_fn, cls, attr)
            if reached is None:
                infos.append('%s: cannot tell whether it infers the %s of a %s; assumed that it does' % (where, attr, cls.name))
            if reached is not False:
                scenarios.append(('own scope', local, True))
            else:
                infos.append('%s does not infer the %s of a %s (class-level flags)' % (where, attr, cls.name))
            if optional:
                scenarios.append(('no own scope', None, False))
            for what, scope, has_local in scenarios:
                try:
                    seen, after, outer = run_scope_handler(ix, vis, owner, fn, cls, attr, scope, has_local)
                except Unsupported as e:
                    raise AnalysisError('%s.%s cannot be evaluated on a %s (%s): %s' % (owner.name, fn.name, cls.name, what, e))
                except IndexError:
                    rows.append((cls, attr, fn, what, where, 'pops an empty scope stack'))
                    continue
                rows.append((cls, attr, fn, what, where, _scope_problem(seen, after, local if scope is not None else outer, outer)))
    return rows, infos


def _module_rows(ix, vis, base, attr, where, infos):
    r = ix.find_method(vis, '__call__')
    if r is None:
        infos.append('%s has no __call__ of its own: the scope of the module is not followed (module globals are Python objects)' % vis.name)
        return []
    owner, fn = r
    if owner is not vis and not any(k is owner for k in ix.mro(vis) if k.module is vis.module):
        infos.append('%s.__call__ is inherited from %s: no scope is installed for the module (module globals are Python objects)' % (vis.name, owner.name))
        return []
    scope = _scope('root.%s (the scope %s infers)' % (attr, where))
    root = _scope_stub(base, attr, scope, True)
    stack, seen = [], []
    so = _visitor_self(ix, vis, None, stack, seen)
    h = ix.visitor_handler(vis, base)
    if h is None:
        raise AnalysisError('no handler of %s for %s' % (vis.name, base.name))

    def super_hook(name, args):
        if name != '__call__':
            return NotImplemented
        k, howner, hfn = h
        LoopEval(ix).call(Method(RepoFn(howner.module, hfn, howner), so), [args[0]])
        return args[0]
    try:
        LoopEval(ix, super_hook=super_hook).call(Method(RepoFn(owner.module, fn, owner), so), [root])
    except Unsupported as e:
        infos.append('%s.__call__ cannot be evaluated (%s): the scope of the module is not followed' % (vis.name, e))
        return []
    # the scope stays installed after the run: nothing follows the root
    return [(base, attr, fn, 'root', where, _scope_problem(seen, None, scope, None))]


_PC_INFSCOPE = '''
class V:
    def visit_FuncDefNode(self, node):
        self.env_stack.append(self.env)
        self.env = node.local_scope
        self.visit_safe_node(node)
        self.env = self.env_stack.pop()
        return node
    def visit_safe_node(self, node):
        self.visitchildren(node)
        return node
    visit_Node = visit_safe_node
'''


def rule_infscope(ctx, floor=13):
    r = Rule('C40-INFSCOPE', 'while MarkOverflowingArithmetic visits the children of a node whose scope attribute a transform runs infer_types() on, self.env is that scope '
                             '(names are marked on the entries that inference reads) and the previous scope is back afterwards', floor)
    ix = ctx.index
    vis = ix.cls('TypeInference', 'MarkOverflowingArithmetic')
    rows, infos = scope_table(ix, vis)
    for cls, attr, fn, what, where, problem in rows:
        key = '%s.%s:%s' % (cls.name, attr, what)
        r.inst(key, sample='%s -> %s.%s: %s' % (key, vis.name, fn.name, problem or 'children visited in the inferred scope, restored'))
        if problem:
            r.violate(key, vis.module.rel, fn.lineno,
                      '%s runs type inference on %s.%s, but %s.%s (the handler selected for a %s) %s [%s]: self.env.lookup(name) does not reach the variables '
                      'declared in that scope (or finds another variable of the same name), their might_overflow flag stays unset and safe inference gives them '
                      'C integer types whose arithmetic wraps around, e.g. [i*i*i*i for i in range(3000000, 3000002)]'
                      % (where, cls.name, attr, vis.name, fn.name, cls.name, problem, what))
    for i in infos:
        r.info(i)
    # embedded example: a visitor that knows function scopes only, asked about a comprehension-like node
    pc = ast.parse(_PC_INFSCOPE).body[0]
    fns = {f.name: f for f in pc.body if isinstance(f, ast.FunctionDef)}
    outer = Obj('outer', flag_default=False)
    inner = Obj('inner', flag_default=False)
    seen, stack = [], []
    so = Obj('V', flag_default=None, env=outer)
    so.attrs['env_stack'] = Obj('env_stack', append=lambda v: stack.append(v), pop=lambda: stack.pop())
    so.attrs['visitchildren'] = lambda n, *a, **kw: seen.append(so.attrs['env'])
    so.attrs['visit_safe_node'] = Method(RepoFn(vis.module, fns['visit_safe_node']), so)
    LoopEval(ix).call(Method(RepoFn(vis.module, fns['visit_safe_node']), so), [Obj('ComprehensionNode', flag_default=False, expr_scope=inner)])
    r.positive_control(_scope_problem(seen, so.attrs['env'], inner, outer) is not None, 'scoped expression visited by the default handler keeps the enclosing scope')
    return r


# ====================================================================================================== C40-ITEMTYPE
PT = 'Cython/Compiler/PyrexTypes.py'

# reference: the Python type of the object a C-API / utility conversion function creates (CPython C-API manual: PyLong_* -> int, PyFloat_FromDouble -> float,
# PyBool_FromLong -> bool, PyUnicode_FromOrdinal -> str of one character)
_TO_PY_RESULT = {
    '__Pyx_PyBool_FromLong': 'bool', '__Pyx_PyUnicode_FromOrdinal': 'str', 'PyFloat_FromDouble': 'float',
    'PyLong_FromSsize_t': 'int', '__Pyx_PyLong_FromSize_t': 'int', '__Pyx_PyLong_FromHash_t': 'int', '__Pyx_PyLong_From_': 'int',
}


def _c_singleton_pytype(ix, ctor_name):
    """Python type of the object a value of the C type class `ctor_name` converts into, from its to_py_function."""
    cls = ix.cls('PyrexTypes', ctor_name)
    a = ix.find_class_attr(cls, 'to_py_function')
    if a is None:
        raise AnalysisError('PyrexTypes.%s has no to_py_function' % ctor_name)
    try:
        v = ast.literal_eval(a[1])
    except Exception:
        raise AnalysisError('PyrexTypes.%s.to_py_function is not a literal' % a[0].name)
    if v is None:
        # the name is made up when the helper is instantiated: `self.to_py_function = "<prefix>" + self.specialization_name()`
        prefixes = set()
        for k in ix.mro(cls):
            for fn in k.methods.values():
                for n in ast.walk(fn):
                    if isinstance(n, ast.Assign) and any(isinstance(t, ast.Attribute) and t.attr == 'to_py_function' and isinstance(t.value, ast.Name) and t.value.id == 'self'
                                                         for t in n.targets):
                        e = n.value
                        if isinstance(e, ast.BinOp) and isinstance(e.op, ast.Add) and isinstance(e.left, ast.Constant) and isinstance(e.left.value, str):
                            prefixes.add(e.left.value)
        if len(prefixes) != 1:
            raise AnalysisError('PyrexTypes.%s: cannot tell which conversion helper it instantiates (%s)' % (ctor_name, sorted(prefixes)))
        v = prefixes.pop()
    if v not in _TO_PY_RESULT:
        raise AnalysisError('PyrexTypes.%s converts to Python with %s, whose result type is not in the reference table' % (ctor_name, v))
    return _TO_PY_RESULT[v]


class ItemEval(PairEval, LoopEval):
    """LoopEval + set comprehensions / generator expressions (evaluated eagerly), membership of a stub in a set, iteration over sets."""

    def expr(self, e, env, frame):
        if isinstance(e, (ast.SetComp, ast.GeneratorExp)) and len(e.generators) == 1 and not e.generators[0].is_async:
            g = e.generators[0]
            seq = self.expr(g.iter, env, frame)
            if not isinstance(seq, (list, tuple, set, frozenset)):
                raise Unsupported('comprehension over %r' % (seq,))
            out = []
            inner = dict(env)
            for v in sorted(seq, key=_label) if isinstance(seq, (set, frozenset)) else seq:
                self.assign(g.target, v, inner, frame)
                if all(self.truth(self.expr(c, inner, frame)) for c in g.ifs):
                    out.append(self.expr(e.elt, inner, frame))
            if isinstance(e, ast.SetComp):
                res = []
                for x in out:
                    if not any(x is y for y in res):
                        if not (x is None or isinstance(x, (Obj, Sym))):
                            raise Unsupported('set of plain values')
                        res.append(x)
                return frozenset(res) if all(isinstance(x, (Obj, Sym)) or x is None for x in res) else res
            return out
        if isinstance(e, ast.ListComp) and len(e.generators) == 1:
            seq = self.expr(e.generators[0].iter, env, frame)
            if isinstance(seq, (set, frozenset)):
                e2 = ast.GeneratorExp(elt=e.elt, generators=e.generators)
                return self.expr(e2, env, frame)
        return LoopEval.expr(self, e, env, frame)

    def compare(self, a, op, b, lit=False):
        if isinstance(op, (ast.In, ast.NotIn)) and isinstance(b, (set, frozenset, tuple, list)) and (a is None or isinstance(a, (Obj, Sym))):
            r = any(x is a for x in b)
            return r if isinstance(op, ast.In) else not r
        return PairEval.compare(self, a, op, b, lit)

    def stmt(self, s, env, frame):
        if isinstance(s, ast.For) and not s.orelse:
            seq = self.expr(s.iter, env, frame)
            if isinstance(seq, (set, frozenset)):
                for v in sorted(seq, key=_label):
                    self.assign(s.target, v, env, frame)
                    self.block(s.body, env, frame)
                return
        return LoopEval.stmt(self, s, env, frame)


class ItemDomain:
    """Stubs of the types and nodes `IndexNode.infer_type` sees for pure-Python containers."""

    def __init__(self, ctx):
        from .sC40 import singleton_ranks
        self.ctx = ctx
        self.ix = ix = ctx.index
        ranks = singleton_ranks(ctx)
        pt = ix.mod('PyrexTypes')
        bt = ix.cls('PyrexTypes', 'BuiltinObjectType')
        fm = ix.find_class_attr(bt, '_builtin_type_flag_mapping')
        try:
            flagmap = ast.literal_eval(fm[1]) if fm is not None else None
        except Exception:
            flagmap = None
        if not isinstance(flagmap, dict):
            raise AnalysisError('PyrexTypes.BuiltinObjectType._builtin_type_flag_mapping is not a literal dict')

        def T(label, **kw):
            kw.setdefault('equivalent_type', None)
            kw.setdefault('supports_container_type', False)
            kw.setdefault('has_uniform_element_type', False)
            return Obj(label, flag_default=False, **kw)

        self.py_object = T('object', is_pyobject=True)
        self.builtin = {}
        for name in ('int', 'float', 'bool', 'str', 'bytes', 'bytearray', 'list', 'tuple', 'set'):
            if name not in flagmap:
                raise AnalysisError('no flags for the builtin type %s in _builtin_type_flag_mapping' % name)
            o = T('%s object' % name, is_pyobject=True, is_builtin_type=True, name=name, **{f: True for f in flagmap[name]})
            # an unsubscripted container type knows nothing about its items
            o.attrs['infer_indexed_type'] = lambda index: None
            o.attrs['infer_iterator_type'] = lambda: None
            self.builtin[name] = o
        self.c = {}
        self.c_pytype = {}
        for name, flags in (('c_uchar_type', dict(is_int=True)), ('c_char_type', dict(is_int=True)), ('c_int_type', dict(is_int=True)), ('c_long_type', dict(is_int=True)),
                            ('c_py_ssize_t_type', dict(is_int=True)), ('c_py_ucs4_type', dict(is_int=True, is_unicode_char=True)),
                            ('c_bint_type', dict(is_int=True)), ('c_double_type', dict(is_float=True))):
            if name not in ranks:
                raise AnalysisError('PyrexTypes.%s = Ctor(rank, ...) not found' % name)
            ctor, rank, signed = ranks[name]
            o = T('C %s' % name[2:-5], is_numeric=True, rank=rank, signed=signed, **flags)
            self.c[name] = o
            self.c_pytype[id(o)] = _c_singleton_pytype(ix, ctor)
        # equivalent_type links are set up in Builtin.py: `<py>_type.equivalent_type = PyrexTypes.c_<x>_type` and back
        links = 0
        bmod = ix.mod('Builtin')
        for n in ast.walk(bmod.tree):
            if isinstance(n, ast.Assign) and len(n.targets) == 1 and isinstance(n.targets[0], ast.Attribute) and n.targets[0].attr == 'equivalent_type':
                a, b = self._type_ref(n.targets[0].value), self._type_ref(n.value)
                if a is not None and b is not None:
                    a.attrs['equivalent_type'] = b
                    links += 1
        if links < 4:
            raise AnalysisError('Builtin.py: the equivalent_type links of bool/float were not found')
        self.overrides = {('PyrexTypes', 'py_object_type'): self.py_object, ('ExprNodes', 'py_object_type'): self.py_object,
                          ('ExprNodes', 'all'): all, ('ExprNodes', 'any'): any, ('ExprNodes', 'is_pythran_expr'): (lambda t: False),
                          ('PyrexTypes', 'reduce_spanning_types'): self._reduce}
        for name, o in self.c.items():
            self.overrides[('PyrexTypes', name)] = o
        for name, o in self.builtin.items():
            self.overrides[('Builtin', name + '_type')] = o
            self.overrides[('ExprNodes', name + '_type')] = o
        self.overrides[('Builtin', 'unicode_type')] = self.builtin['str']
        self.overrides[('ExprNodes', 'unicode_type')] = self.builtin['str']

    def _type_ref(self, e):
        if isinstance(e, ast.Name) and e.id.endswith('_type'):
            return self.builtin.get(e.id[:-5])
        if isinstance(e, ast.Attribute) and isinstance(e.value, ast.Name) and e.value.id == 'PyrexTypes':
            return self.c.get(e.attr)
        return None

    @staticmethod
    def _reduce(types):
        res = []
        for t in types:
            if not any(t is x for x in res):
                res.append(t)
        if len(res) != 1:
            raise Unsupported('spanning type of %d different item types (outside the homogeneous domain)' % len(res))
        return res[0]

    # ---- item kinds: (label, Python type of the value, inferred type, string literal?, one character?)
    # a C type can hold the value of a number, a bool or ONE character; it cannot hold a longer string, a bytes object or an arbitrary object
    @staticmethod
    def c_representable(kind):
        label, pytype, typ, is_str, one = kind
        return pytype in ('int', 'float', 'bool') or (pytype == 'str' and one)

    def item_kinds(self):
        b, c = self.builtin, self.c
        return [
            ('one-byte bytes literal', 'bytes', b['bytes'], True, True),
            ('longer bytes literal', 'bytes', b['bytes'], True, False),
            ('one-character str literal', 'str', b['str'], True, True),
            ('longer str literal', 'str', b['str'], True, False),
            ('int literal', 'int', c['c_long_type'], False, False),
            ('float literal', 'float', c['c_double_type'], False, False),
            ('bool literal', 'bool', c['c_bint_type'], False, False),
            ('Python int value', 'int', b['int'], False, False),
            ('untyped value', None, self.py_object, False, False),
        ]

    def item(self, kind):
        label, pytype, typ, is_str, one = kind
        return Obj(label, flag_default=False, is_none=False, is_starred=False, is_string_literal=is_str, is_literal=is_str,
                   infer_type=lambda env, t=typ: t, can_coerce_to_char_literal=lambda o=one: o, type=typ)

    def none_item(self):
        return Obj('None', flag_default=False, is_none=True, is_starred=False, is_string_literal=False, is_literal=True,
                   infer_type=lambda env: self.py_object, can_coerce_to_char_literal=lambda: False, type=self.py_object)

    def literal(self, ctype, items):
        typ = self.builtin[ctype]
        return Obj('%s literal' % ctype, flag_default=False, is_sequence_constructor=ctype in ('list', 'tuple'), is_sequence_or_set_constructor=True,
                   is_dict_literal=False, is_set_literal=ctype == 'set', is_literal=ctype == 'tuple', args=list(items), infer_type=lambda env: typ, type=typ, cf_state=None, is_name=False)

    def variable(self, ctype, assigned=None):
        typ = self.builtin[ctype]
        cf = [Obj('assignment', flag_default=False, rhs=assigned)] if assigned is not None else []
        return Obj('%s variable' % ctype, flag_default=False, is_sequence_constructor=False, is_sequence_or_set_constructor=False, is_dict_literal=False,
                   is_literal=False, is_name=True, infer_type=lambda env: typ, type=typ, cf_state=cf)

    def index(self, const):
        ssize = self.c['c_py_ssize_t_type']
        return Obj('constant index 0' if const else 'index of unknown value', flag_default=False, is_slice=False, is_sequence_constructor=False,
                   infer_type=lambda env: ssize, type=ssize, has_constant_result=lambda: const, constant_result=0 if const else Obj('not_a_constant', flag_default=False))


def item_scenarios(dom):
    """-> [(key, base stub, index stub, set of Python types the item may have (None in the set = unknown object), may be None?, items no C type can hold)]"""
    out = []
    kinds = dom.item_kinds()
    for ctype in ('tuple', 'list', 'set'):
        for k in kinds:
            variants = [('', [k, k], False), ('+None', [k, None, k], True)]
            for k2 in kinds:
                # two literals of one Python type that differ in length (the one-character special case must hold for ALL items)
                if k2 is not k and k2[1] == k[1] and k2[2] is k[2] and k[3] and k2[3] and k[4] and not k2[4]:
                    variants.append(('+' + k2[0], [k, k2], False))
                    variants.append((', ' + k2[0] + ' first', [k2, k], False))
            for suffix, its, has_none in variants:
                for const in ((False,) if ctype == 'set' else (False, True)):
                    nodes = [dom.none_item() if i is None else dom.item(i) for i in its]
                    read = its[:1] if const else [i for i in its if i is not None]         # the items the index may select
                    pytypes = {i[1] for i in read}
                    no_c = sorted({i[0] for i in read if not dom.c_representable(i)})
                    idx = dom.index(const)
                    key = '%s of %s%s [%s]' % (ctype, k[0], suffix, idx.label)
                    out.append((key, dom.literal(ctype, nodes), idx, pytypes, has_none and not const, no_c))
                    if ctype == 'tuple' and not suffix:
                        # tuples are immutable: a variable with one assignment of a literal is followed to the literal
                        key = 'tuple variable assigned once (%s) [%s]' % (k[0], idx.label)
                        out.append((key, dom.variable('tuple', dom.literal('tuple', nodes)), idx, pytypes, False, no_c))
    for ctype in ('tuple', 'list'):
        out.append(('%s variable, items unknown' % ctype, dom.variable(ctype), dom.index(False), {None}, True, ['untyped value']))
    out.append(('str object', dom.variable('str'), dom.index(False), {'str'}, False, []))
    out.append(('bytes object', dom.variable('bytes'), dom.index(False), {'int'}, False, []))
    out.append(('bytearray object', dom.variable('bytearray'), dom.index(False), {'int'}, False, []))
    return out


def item_verdict(dom, res, pytypes, maybe_none, no_c=()):
    """None if a variable of type `res` keeps every item as it is, else what goes wrong."""
    if not isinstance(res, Obj):
        return 'answers %r, which is not a type' % (res,)
    if res is dom.py_object:
        return None
    if res.attrs.get('is_pyobject'):
        name = res.attrs.get('name')
        bad = sorted(str(p) for p in pytypes if p != name)
        if bad:
            return 'answers %s for items that are %s objects' % (res.label, ' / '.join('arbitrary' if p == 'None' else p for p in bad))
        return None
    back = dom.c_pytype.get(id(res))
    if back is None:
        return 'answers %s, a C type this rule has no conversion for' % res.label
    if maybe_none:
        return 'answers %s although an item may be None' % res.label
    if no_c:
        return 'answers %s although no C type can hold a %s' % (res.label, ' / '.join(no_c))
    bad = sorted(str(p) for p in pytypes if p != back)
    if bad:
        return 'answers %s, which comes back as a Python %s, for items that are %s objects' % (res.label, back, ' / '.join('arbitrary' if p == 'None' else p for p in bad))
    return None


def item_table(dom, cls, fn, scenarios, mode=None):
    rows = []
    for key, base, idx, pytypes, maybe_none, no_c in scenarios:
        ev = ItemEval(dom.ix, overrides=dom.overrides)
        env = Obj('scope', flag_default=False, directives={'infer_types': mode})
        node = Obj('IndexNode', cls=cls, flag_default=False, base=base, index=idx, pos=None)
        try:
            res = ev.call(Method(RepoFn(cls.module, fn, cls), node), [env])
        except Unsupported as e:
            raise AnalysisError('%s.%s cannot be evaluated for %s: %s' % (cls.name, fn.name, key, e))
        rows.append((key, res, item_verdict(dom, res, pytypes, maybe_none, no_c)))
    return rows


_PC_ITEMTYPE = '''
class IndexNode:
    def infer_type(self, env):
        base_type = self.base.infer_type(env)
        if base_type.is_pytuple_type or base_type.is_pylist_type:
            types = {item.infer_type(env) for item in self.base.args}
            if len(types) == 1 and all(item.is_string_literal and item.can_coerce_to_char_literal() for item in self.base.args):
                return PyrexTypes.c_uchar_type
        return py_object_type
'''


def rule_itemtype(ctx, floor=110):
    r = Rule('C40-ITEMTYPE', 'under safe inference the type IndexNode.infer_type() answers for an item of a pure-Python container (what `for x in c` / `x = c[i]` give the variable) '
                             'is a Python type that admits the item or a C type that converts back to an object of the item\'s Python type', floor)
    ix = ctx.index
    dom = ItemDomain(ctx)
    cls = ix.cls('ExprNodes', 'IndexNode')
    r0 = ix.find_method(cls, 'infer_type')
    if r0 is None:
        raise AnalysisError('ExprNodes.IndexNode.infer_type vanished')
    owner, fn = r0
    scenarios = item_scenarios(dom)
    for key, res, problem in item_table(dom, cls, fn, scenarios, mode=None):
        r.inst(key, sample='%s -> %s' % (key, _label(res)))
        if problem:
            r.violate('IndexNode.infer_type:%s' % key, owner.module.rel, fn.lineno,
                      'with infer_types=None (safe), %s.infer_type() %s [%s]: safe_spanning_type keeps a C integer that is not marked as overflowing, so an untyped '
                      'variable that receives such an item (`for x in (b"a", b"b")`, `x = (b"a", b"b")[i]`) holds a different value than in CPython, or the conversion raises'
                      % (owner.name, problem, key))
    # embedded example: one-character bytes literals inferred as a C char
    pcls = ast.parse(_PC_ITEMTYPE).body[0]
    pfn = pcls.body[0]
    sc = [s for s in scenarios if s[0].startswith('tuple of one-byte bytes literal [index of unknown')]
    if len(sc) != 1:
        raise AnalysisError('C40-ITEMTYPE: scenario for the embedded example not found')
    key, base, idx, pytypes, maybe_none, no_c = sc[0]
    ev = ItemEval(ix, overrides=dom.overrides)
    res = ev.call(Method(RepoFn(cls.module, pfn, None), Obj('IndexNode', flag_default=False, base=base, index=idx)), [Obj('scope', flag_default=False, directives={'infer_types': None})])
    r.positive_control(item_verdict(dom, res, pytypes, maybe_none, no_c) is not None, 'bytes literals inferred as unsigned char')
    return r
