"""C01-UNPACK: index agreement in the sequence-unpacking code generators (ExprNodes.SequenceNode.generate_*).

`a, *b, c, d = seq` and `a, b = seq` are compiled by emitters that walk three parallel lists — the targets (`args`), one temporary per
target (`unpacked_items`) and its coercion (`coerced_unpacked_items`) — and write C item fetches whose index is computed from a Python
loop counter.  The emitters are interpreted *symbolically* (list views are affine maps  j -> offset + step*j  over a base list of
symbolic length N, loop counters and the star position stay symbolic, emitted C text keeps placeholders), which decides, for all
target counts and star positions at once:

 FETCH  every emitted `<temp of target p> = GETTER(container, index)` fetches index  p  (from the front) or  SIZE - (N - p)  (from the
        end, SIZE being the emitted size of the same container) — target p receives item p / the (N-p)-th item from the end;
 ALIGN  whenever elements of two parallel lists meet (zip(...), `args[i].generate_assignment_code(coerced[i])`) they carry the same index;
 COUNT  the size guard in front of from-the-end fetches admits exactly the sizes >= the number of fetches, and the slice that trims
        the starred list drops exactly that many items.

A linear form that differs from the required one differs for almost all (N, star, j): some program assigns the wrong item.
"""
import ast, re

from ..core import Rule, AnalysisError
from ..engine import cexpr
from ..engine.pyindex import walk_no_nested

REL = 'Cython/Compiler/ExprNodes.py'


# ------------------------------------------------------------------------------------------------------------------ linear forms
class Lin:
    __slots__ = ('c',)

    def __init__(self, c=None):
        self.c = {k: v for k, v in (c or {}).items() if v != 0}

    @staticmethod
    def const(n):
        return Lin({1: n})

    @staticmethod
    def sym(s):
        return Lin({s: 1})

    def __add__(self, o):
        d = dict(self.c)
        for k, v in o.c.items():
            d[k] = d.get(k, 0) + v
        return Lin(d)

    def __neg__(self):
        return Lin({k: -v for k, v in self.c.items()})

    def __sub__(self, o):
        return self + (-o)

    def scale(self, n):
        return Lin({k: v * n for k, v in self.c.items()})

    def __eq__(self, o):
        return isinstance(o, Lin) and self.c == o.c

    def __hash__(self):
        return hash(tuple(sorted(self.c.items(), key=repr)))

    def is_const(self):
        return all(k == 1 for k in self.c)

    def value(self):
        return self.c.get(1, 0)

    def sign(self):
        """+1 when every coefficient is >= 0 (symbols are non-negative counts), -1 when every one is <= 0 and some < 0, else 0"""
        vs = list(self.c.values())
        if all(v >= 0 for v in vs):
            return 1
        if all(v <= 0 for v in vs):
            return -1
        return 0

    def __repr__(self):
        if not self.c:
            return '0'
        out = []
        for k, v in sorted(self.c.items(), key=lambda kv: (kv[0] == 1, str(kv[0]))):
            t = str(abs(v)) if k == 1 else (k if abs(v) == 1 else '%d*%s' % (abs(v), k))
            out.append(('-' if v < 0 else '+') + t)
        s = ''.join(out)
        return s[1:] if s[0] == '+' else s


# ------------------------------------------------------------------------------------------------------------------ abstract values
class View:
    """element j (0 <= j < length) is base[off + step*j]; base None: the integers off + step*j (range)"""

    def __init__(self, base, off, step, length):
        self.base, self.off, self.step, self.length = base, off, step, length

    def at(self, j):
        idx = self.off + j.scale(self.step)
        return idx if self.base is None else Elem(self.base, idx)

    def __eq__(self, o):
        return isinstance(o, View) and (self.base, self.off, self.step, self.length) == (o.base, o.off, o.step, o.length)

    def __repr__(self):
        return '%s[%r%s*j | j<%r]' % (self.base, self.off, '+' if self.step > 0 else '-', self.length)


class Elem:
    def __init__(self, base, idx):
        self.base, self.idx = base, idx

    def __eq__(self, o):
        return isinstance(o, Elem) and self.base == o.base and self.idx == o.idx

    def __repr__(self):
        return '%s[%r]' % (self.base, self.idx)


class Enum:
    def __init__(self, it, start):
        self.it, self.start = it, start


class Zip:
    def __init__(self, its):
        self.its = its


class Tup:
    def __init__(self, items):
        self.items = items

    def __eq__(self, o):
        return isinstance(o, Tup) and self.items == o.items


class Opaque:
    n = 0

    def __init__(self, what=''):
        Opaque.n += 1
        self.id, self.what = Opaque.n, what

    def __repr__(self):
        return '<%s#%d>' % (self.what, self.id)


class Text:
    """emitted C text: parts are str | ('elem', Elem) | ('lin', Lin) | ('sym', Opaque)"""

    def __init__(self, parts):
        self.parts = parts


def _iter_len(v):
    if isinstance(v, View):
        return v.length
    if isinstance(v, Enum):
        return _iter_len(v.it)
    if isinstance(v, Zip):
        ls = [_iter_len(x) for x in v.its]
        ls = [x for x in ls if x is not None]
        return ls[0] if ls and all(x == ls[0] for x in ls) else (min(ls, key=lambda l: l.c.get('N', 0)) if ls else None)
    return None


# ------------------------------------------------------------------------------------------------------------------ interpreter
class Emission:
    def __init__(self, text, loops, lineno):
        self.text, self.loops, self.lineno = text, loops, lineno


class Emitter:
    """symbolic run of one generator method"""

    def __init__(self, fn, parallel, param_views=None):
        self.fn = fn
        self.parallel = parallel            # attribute name -> base tag
        self.code = None
        for a in fn.args.args:
            if a.arg == 'code':
                self.code = 'code'
        self.env = {}
        for k, v in (param_views or {}).items():
            self.env[k] = v
        self.loops = []                     # [(counter symbol, Lin length or None)]
        self.nloops = 0
        self.emissions = []
        self.aligns = []                    # (kind, lineno, Elem, Elem)
        self.notes = []
        self.nn = set()                     # linear forms known to be >= 0 (lengths, counters, their sums)

    # ---- expressions
    def mark(self, l):
        if isinstance(l, Lin):
            self.nn.add(l)
        return l

    def sgn(self, l):
        """-1: counted from the end (the negation of a known non-negative form, or all coefficients <= 0); else +1"""
        if l in self.nn:
            return 1
        if l.c and (-l) in self.nn:
            return -1
        return -1 if l.sign() < 0 else 1

    def ev(self, n):
        m = getattr(self, 'e_' + type(n).__name__, None)
        if m is None:
            return Opaque(type(n).__name__)
        return m(n)

    def e_Constant(self, n):
        if isinstance(n.value, bool):
            return Opaque('bool')
        if isinstance(n.value, int):
            l = Lin.const(n.value)
            return self.mark(l) if n.value >= 0 else l
        if isinstance(n.value, str):
            return Text([n.value])
        return Opaque('const')

    def e_Name(self, n):
        if n.id in self.env:
            return self.env[n.id]
        v = Opaque(n.id)
        self.env[n.id] = v
        return v

    def e_Attribute(self, n):
        if isinstance(n.value, ast.Name) and n.value.id == 'self' and n.attr in self.parallel:
            return View(self.parallel[n.attr], Lin(), 1, Lin.sym('N'))
        self.ev(n.value)
        return Opaque('.' + n.attr)

    def e_Tuple(self, n):
        return Tup([self.ev(x) for x in n.elts])

    e_List = e_Tuple

    def e_UnaryOp(self, n):
        v = self.ev(n.operand)
        if isinstance(n.op, ast.USub) and isinstance(v, Lin):
            return -v
        return Opaque('unary')

    def e_BinOp(self, n):
        if isinstance(n.op, ast.Mod) and isinstance(n.left, ast.Constant) and isinstance(n.left.value, str):
            return self.fmt(n.left.value, n.right)
        a, b = self.ev(n.left), self.ev(n.right)
        if isinstance(a, Lin) and isinstance(b, Lin):
            if isinstance(n.op, ast.Add):
                return self.mark(a + b) if a in self.nn and b in self.nn else a + b
            if isinstance(n.op, ast.Sub):
                return a - b
            if isinstance(n.op, ast.Mult) and (a.is_const() or b.is_const()):
                return b.scale(a.value()) if a.is_const() else a.scale(b.value())
        if isinstance(n.op, ast.Add) and isinstance(a, Text) and isinstance(b, Text):
            return Text(a.parts + b.parts)
        return Opaque('binop')

    def part(self, v):
        if isinstance(v, Lin):
            return ('lin', v)
        if isinstance(v, tuple) and v and v[0] == 'elemres':
            return ('elem', v[1])
        if isinstance(v, Text):
            return v
        if isinstance(v, Opaque):
            return ('sym', v)
        return ('sym', Opaque('value'))

    def fmt(self, tpl, right):
        vals = [self.ev(x) for x in right.elts] if isinstance(right, ast.Tuple) else [self.ev(right)]
        parts, i, pos = [], 0, 0
        for m in re.finditer(r'%(?:\([^)]*\))?[-#0 +]*\d*(?:\.\d+)?([sdrif%])', tpl):
            parts.append(tpl[pos:m.start()])
            pos = m.end()
            if m.group(1) == '%':
                parts.append('%')
                continue
            if i >= len(vals):
                return Opaque('format')
            p = self.part(vals[i])
            i += 1
            if isinstance(p, Text):
                parts.extend(p.parts)
            else:
                parts.append(p)
        parts.append(tpl[pos:])
        return Text(parts)

    def e_JoinedStr(self, n):
        parts = []
        for v in n.values:
            if isinstance(v, ast.Constant):
                parts.append(str(v.value))
            else:
                p = self.part(self.ev(v.value))
                if isinstance(p, Text):
                    parts.extend(p.parts)
                else:
                    parts.append(p)
        return Text(parts)

    def e_IfExp(self, n):
        self.ev(n.test)
        a, b = self.ev(n.body), self.ev(n.orelse)
        if isinstance(a, Lin) and a == b:
            return a
        return Opaque('ifexp')

    def e_Compare(self, n):
        self.ev(n.left)
        for c in n.comparators:
            self.ev(c)
        return Opaque('compare')

    def e_BoolOp(self, n):
        for v in n.values:
            self.ev(v)
        return Opaque('boolop')

    def e_ListComp(self, n):
        return Opaque('comprehension')

    e_GeneratorExp = e_ListComp

    def _slice(self, v, sl):
        lo = self.ev(sl.lower) if sl.lower is not None else None
        hi = self.ev(sl.upper) if sl.upper is not None else None
        st = self.ev(sl.step) if sl.step is not None else None
        for x in (lo, hi, st):
            if x is not None and not isinstance(x, Lin):
                return Opaque('slice')
        if st is not None and not (st.is_const() and st.value() in (1, -1)):
            return Opaque('slice step')
        step = st.value() if st is not None else 1
        if step == 1:
            start, stop = Lin(), v.length
            if lo is not None:
                start = lo if self.sgn(lo) >= 0 else v.length + lo
            if hi is not None:
                stop = hi if self.sgn(hi) >= 0 else v.length + hi
            return View(v.base, v.off + start.scale(v.step), v.step, stop - start)
        if lo is None and hi is None:
            return View(v.base, v.off + (v.length - Lin.const(1)).scale(v.step), -v.step, v.length)
        return Opaque('reversed slice with bounds')

    def e_Subscript(self, n):
        v = self.ev(n.value)
        if isinstance(v, View):
            if isinstance(n.slice, ast.Slice):
                return self._slice(v, n.slice)
            k = self.ev(n.slice)
            if isinstance(k, Lin):
                if self.sgn(k) < 0:
                    return v.at(v.length + k)
                # non-negative, or of mixed sign (i-1): counted from the front; it can then only agree with a required index it equals
                return v.at(k)
            return Opaque('index')
        if isinstance(n.slice, ast.Slice):
            for x in (n.slice.lower, n.slice.upper, n.slice.step):
                if x is not None:
                    self.ev(x)
        else:
            self.ev(n.slice)
        return Opaque('subscript')

    def e_Call(self, n):
        f = n.func
        if isinstance(f, ast.Name):
            args = [self.ev(a) for a in n.args]
            if f.id == 'len' and len(args) == 1:
                ln = _iter_len(args[0])
                return self.mark(ln) if ln is not None else Opaque('len')
            if f.id == 'enumerate' and args:
                start = args[1] if len(args) > 1 else Lin()
                for k in n.keywords:
                    if k.arg == 'start':
                        start = self.ev(k.value)
                return Enum(args[0], start if isinstance(start, Lin) else None)
            if f.id == 'zip':
                return Zip(args)
            if f.id == 'reversed' and len(args) == 1 and isinstance(args[0], View):
                v = args[0]
                return View(v.base, v.off + (v.length - Lin.const(1)).scale(v.step), -v.step, v.length)
            if f.id in ('list', 'tuple', 'iter') and len(args) == 1 and isinstance(args[0], (View, Enum, Zip)):
                return args[0]
            if f.id == 'range' and args and all(isinstance(a, Lin) for a in args):
                if len(args) == 1:
                    return View(None, Lin(), 1, args[0])
                if len(args) == 2:
                    return View(None, args[0], 1, args[1] - args[0])
            return Opaque(f.id + '()')
        if isinstance(f, ast.Attribute):
            recv = self.ev(f.value)
            args = [self.ev(a) for a in n.args]
            for k in n.keywords:
                args.append(self.ev(k.value))
            if isinstance(recv, Elem):
                for a in args:
                    if isinstance(a, Elem) and a.base != recv.base:
                        self.aligns.append(('call .%s' % f.attr, n.lineno, recv, a))
                if not n.args and not n.keywords and 'result' in f.attr:
                    return ('elemres', recv)
            return Opaque('.%s()' % f.attr)
        return Opaque('call')

    # ---- statements
    def bind(self, t, v, lineno=0):
        if isinstance(t, ast.Name):
            self.env[t.id] = v
        elif isinstance(t, (ast.Tuple, ast.List)):
            items = v.items if isinstance(v, Tup) and len(v.items) == len(t.elts) else [Opaque('unpack') for _ in t.elts]
            for x, y in zip(t.elts, items):
                self.bind(x, y, lineno)

    def element(self, it, j, lineno):
        if isinstance(it, View):
            return it.at(j)
        if isinstance(it, Enum):
            cnt = (it.start + j) if it.start is not None else Opaque('enumerate start')
            if it.start is not None and it.start in self.nn:
                self.mark(cnt)
            return Tup([cnt, self.element(it.it, j, lineno)])
        if isinstance(it, Zip):
            els = [self.element(x, j, lineno) for x in it.its]
            flat = [e for e in els if isinstance(e, Elem)]
            for a in flat[1:]:
                if a.base != flat[0].base:
                    self.aligns.append(('zip', lineno, flat[0], a))
            return Tup(els)
        return Opaque('element')

    def merge(self, e1, e2):
        out = {}
        for k in set(e1) | set(e2):
            a, b = e1.get(k), e2.get(k)
            if a is not None and b is not None and (a is b or (not isinstance(a, (Opaque, Text, tuple)) and not isinstance(b, (Opaque, Text, tuple)) and a == b)):
                out[k] = a
            elif a is not None and b is None:
                out[k] = a          # defined on one branch only (e.g. inside `if x: ...`): keep
            elif b is not None and a is None:
                out[k] = b
            else:
                out[k] = Opaque('merge:' + k)
        return out

    def run(self, stmts):
        for s in stmts:
            if isinstance(s, ast.Assign):
                v = self.ev(s.value)
                for t in s.targets:
                    self.bind(t, v, s.lineno)
            elif isinstance(s, ast.AugAssign):
                self.ev(s.value)
                if isinstance(s.target, ast.Name):
                    self.env[s.target.id] = Opaque('augassign')
            elif isinstance(s, ast.For):
                it = self.ev(s.iter)
                self.nloops += 1
                j = self.mark(Lin.sym('j%d' % self.nloops))
                if isinstance(it, (View, Enum, Zip)):
                    self.loops.append((('j%d' % self.nloops), _iter_len(it)))
                    self.bind(s.target, self.element(it, j, s.lineno), s.lineno)
                else:
                    self.loops.append((('j%d' % self.nloops), None))
                    self.bind(s.target, Opaque('loop variable'), s.lineno)
                self.run(s.body)
                self.loops.pop()
                self.run(s.orelse)
            elif isinstance(s, ast.If):
                self.ev(s.test)
                env0 = dict(self.env)
                self.run(s.body)
                e1 = self.env
                self.env = dict(env0)
                self.run(s.orelse)
                self.env = self.merge(e1, self.env)
            elif isinstance(s, (ast.While,)):
                self.ev(s.test)
                self.run(s.body)
                self.run(s.orelse)
            elif isinstance(s, ast.With):
                self.run(s.body)
            elif isinstance(s, ast.Try):
                self.run(s.body)
                for h in s.handlers:
                    self.run(h.body)
                self.run(s.orelse)
                self.run(s.finalbody)
            elif isinstance(s, ast.Expr):
                c = s.value
                if isinstance(c, ast.Call) and isinstance(c.func, ast.Attribute) and isinstance(c.func.value, ast.Name) \
                        and c.func.value.id == self.code and c.func.attr in ('putln', 'put') and c.args:
                    t = self.ev(c.args[0])
                    if isinstance(t, Text):
                        self.emissions.append(Emission(t, list(self.loops), s.lineno))
                    for a in c.args[1:]:
                        self.ev(a)
                else:
                    self.ev(c)
            elif isinstance(s, ast.Return):
                if s.value is not None:
                    self.ev(s.value)
            elif isinstance(s, (ast.Pass, ast.Assert, ast.Break, ast.Continue, ast.Raise, ast.Global, ast.Nonlocal, ast.Import, ast.ImportFrom,
                                ast.Delete, ast.AnnAssign, ast.FunctionDef)):
                continue
            else:
                raise AnalysisError('%s: statement kind %s is not modelled' % (self.fn.name, type(s).__name__))


# ------------------------------------------------------------------------------------------------------------------ emitted C text
def c_text(text):
    """-> (C text with placeholder identifiers, {placeholder: part})"""
    out, table = [], {}
    ids = {}
    for p in text.parts:
        if isinstance(p, str):
            out.append(p)
            continue
        kind, v = p
        if kind == 'sym':
            key = ('sym', v.id)
        elif kind == 'lin':
            key = ('lin', len(table))
        else:
            key = ('elem', v.base, repr(v.idx))
        if key not in ids:
            ids[key] = '__%s%d' % ({'sym': 'S', 'lin': 'L', 'elem': 'E'}[kind], len(ids))
            table[ids[key]] = p
        out.append(' ' + ids[key] + ' ')
    return ''.join(out), table


def to_lin(e, table):
    """C expression AST over placeholders -> Lin (opaque symbols become Lin symbols 'S<id>') or None"""
    k = e[0]
    if k == 'num':
        return Lin.const(e[1])
    if k == 'id':
        p = table.get(e[1])
        if p is None:
            return None
        if p[0] == 'lin':
            return p[1]
        if p[0] == 'sym':
            return Lin.sym('S%d' % p[1].id)
        return None
    if k == 'cast':
        return to_lin(e[2], table)
    if k == 'un' and e[1] in '+-':
        v = to_lin(e[2], table)
        return None if v is None else (v if e[1] == '+' else -v)
    if k == 'bin' and e[1] in '+-':
        a, b = to_lin(e[2], table), to_lin(e[3], table)
        if a is None or b is None:
            return None
        return a + b if e[1] == '+' else a - b
    return None


SIZE_FUNC = re.compile(r'(?:GET_SIZE|_SIZE|_Size|_Length|GET_LENGTH)$')
_STMT = re.compile(r'^\s*(__[ES]\d+)\s*=\s*([A-Za-z_]\w*)\s*\((.*)\)\s*$', re.S)


def split_top(s, sep):
    out, depth, cur = [], 0, ''
    for ch in s:
        if ch in '([{':
            depth += 1
        elif ch in ')]}':
            depth -= 1
        if ch == sep and depth == 0:
            out.append(cur)
            cur = ''
        else:
            cur += ch
    out.append(cur)
    return out


def _ident(table, name):
    """canonical identity of a placeholder used as a container / size variable"""
    p = table.get(name.strip())
    if p is None:
        return name.strip()
    if p[0] == 'sym':
        return 'S%d' % p[1].id
    if p[0] == 'elem':
        return 'E:%s[%r]' % (p[1].base, p[1].idx)
    return name.strip()


def analyse_emissions(em):
    """-> dict(fetches=[...], sizes={S sym: container sym}, guards=[...], trims=[...])"""
    fetches, sizes, guards, trims = [], {}, [], []
    for e in em.emissions:
        text, table = c_text(e.text)
        for stmt in split_top(text, ';'):
            m = _STMT.match(stmt)
            if m:
                lhs, callee, argtxt = m.groups()
                args = [a.strip() for a in split_top(argtxt, ',')]
                if lhs.startswith('__S') and len(args) == 1 and SIZE_FUNC.search(callee) and args[0] in table:
                    sizes['S%d' % table[lhs][1].id] = (_ident(table, args[0]), callee)
                if lhs.startswith('__E') and len(args) >= 2:
                    try:
                        idx = to_lin(cexpr.parse(args[1]), table)
                    except cexpr.ParseError:
                        idx = None
                    cont = _ident(table, args[0])
                    fetches.append(dict(elem=table[lhs][1], callee=callee, index=idx, index_text=args[1], container=cont, loops=e.loops, lineno=e.lineno,
                                        nargs=len(args)))
                elif len(args) >= 2:
                    for a in args[1:]:
                        try:
                            v = to_lin(cexpr.parse(a), table)
                        except cexpr.ParseError:
                            v = None
                        if v is not None and any(isinstance(k, str) and k.startswith('S') and c == 1 for k, c in v.c.items()) and len(v.c) > 1:
                            trims.append(dict(callee=callee, form=v, container=_ident(table, args[0]), lineno=e.lineno))
            # size guards: if ( ... S < L ... )
            for gm in re.finditer(r'\bif\s*\(', stmt):
                depth, i = 0, gm.end() - 1
                j = i
                while j < len(stmt):
                    if stmt[j] == '(':
                        depth += 1
                    elif stmt[j] == ')':
                        depth -= 1
                        if depth == 0:
                            break
                    j += 1
                cond = stmt[i + 1:j]
                try:
                    ce = cexpr.parse(cond)
                except cexpr.ParseError:
                    continue
                for x in cexpr.walk(ce):
                    if x[0] == 'bin' and x[1] in ('<', '<=', '>', '>='):
                        a, b = to_lin(x[2], table), to_lin(x[3], table)
                        if a is None or b is None:
                            continue
                        op = x[1]
                        if len(b.c) == 1 and list(b.c.values()) == [1] and not b.is_const():
                            a, b, op = b, a, {'<': '>', '<=': '>=', '>': '<', '>=': '<='}[op]
                        if len(a.c) == 1 and list(a.c.values()) == [1] and not a.is_const() and str(list(a.c)[0]).startswith('S') \
                                and not any(str(k).startswith('S') for k in b.c):
                            guards.append(dict(size=list(a.c)[0], op=op, bound=b, lineno=e.lineno))
    return dict(fetches=fetches, sizes=sizes, guards=guards, trims=trims)


# ------------------------------------------------------------------------------------------------------------------ the rule
def parallel_lists(cls):
    """attributes of `self` that one method resets to [] and fills by exactly one top-level append per iteration of a loop over self.args
    -> ({attr: base tag}, method name)"""
    for mname, fn in cls.methods.items():
        reset = [t.attr for s in fn.body if isinstance(s, ast.Assign) and isinstance(s.value, ast.List) and not s.value.elts
                 for t in s.targets if isinstance(t, ast.Attribute) and isinstance(t.value, ast.Name) and t.value.id == 'self']
        if len(reset) < 2:
            continue
        for s in fn.body:
            if isinstance(s, ast.For) and any(isinstance(x, ast.Attribute) and x.attr == 'args' and isinstance(x.value, ast.Name) and x.value.id == 'self'
                                              for x in ast.walk(s.iter)):
                counts = {}
                for b in s.body:
                    if isinstance(b, ast.Expr) and isinstance(b.value, ast.Call) and isinstance(b.value.func, ast.Attribute) and b.value.func.attr == 'append':
                        r = b.value.func.value
                        if isinstance(r, ast.Attribute) and isinstance(r.value, ast.Name) and r.value.id == 'self':
                            counts[r.attr] = counts.get(r.attr, 0) + 1
                nested = sum(1 for b in s.body for x in ast.walk(b) if not isinstance(b, ast.Expr) and isinstance(x, ast.Call)
                             and isinstance(x.func, ast.Attribute) and x.func.attr in ('append', 'insert', 'extend')
                             and isinstance(x.func.value, ast.Attribute) and x.func.value.attr in reset)
                par = [a for a in reset if counts.get(a) == 1]
                if len(par) >= 2 and not nested:
                    tags = {'args': 'args'}
                    for a in par:
                        tags[a] = a
                    return tags, mname
    return None, None


def check_function(r, cls, mname, fn, parallel, param_views=None):
    em = Emitter(fn, parallel, param_views)
    em.run(fn.body)
    res = analyse_emissions(em)
    q = '%s.%s' % (cls.name, mname)
    N = Lin.sym('N')
    seen = {}

    def uniq(key):
        seen[key] = seen.get(key, 0) + 1
        return key if seen[key] == 1 else '%s#%d' % (key, seen[key])
    from_end = {}
    for f in res['fetches']:
        el = f['elem']
        if el.base not in parallel.values():
            continue
        key = uniq('%s:fetch:%s(%s)' % (q, f['callee'], el.base))
        idx = f['index']
        r.inst(key, sample='%s: %s[%r] = %s(.., %s)' % (key, el.base, el.idx, f['callee'], f['index_text'].strip() if idx is None else idx))
        if idx is None:
            r.info('%s: index expression %r is not an integer form (not decided)' % (key, f['index_text']))
            continue
        ssyms = [k for k in idx.c if isinstance(k, str) and k.startswith('S')]
        if not ssyms:
            if idx != el.idx:
                r.violate(key, REL, f['lineno'], '%s emits `%s = %s(seq, %r)` for the target at position %r: target p must receive item p — the unpacked '
                          'values are assigned to the wrong targets' % (q, 'item', f['callee'], idx, el.idx))
            continue
        if len(ssyms) != 1 or idx.c[ssyms[0]] != 1:
            r.violate(key, REL, f['lineno'], '%s: fetch index %r is not of the form SIZE - k' % (q, idx))
            continue
        S = ssyms[0]
        rest = idx - Lin.sym(S)
        want = el.idx - N
        sz = res['sizes'].get(S)
        if sz is None:
            r.info('%s: %s in the fetch index is not defined by an emitted size call (not decided)' % (key, S))
        elif sz[0] != f['container']:
            r.violate(key, REL, f['lineno'], '%s: the index is relative to the size of another container than the one fetched from' % q)
        if rest != want:
            r.violate(key, REL, f['lineno'],
                      '%s fetches index SIZE%s for the target at position %r of N targets (loop counters j*, star position symbolic): the item that belongs '
                      'there is SIZE%s (the (N-p)-th from the end) — e.g. `a, *b, c, d = seq` assigns the trailing targets in the wrong order / off by one'
                      % (q, _signed(rest), el.idx, _signed(want)))
        if f['loops']:
            from_end.setdefault(S, f['loops'][-1][1])
    for kind, lineno, a, b in em.aligns:
        key = uniq('%s:align:%s:%s~%s' % (q, kind, a.base, b.base))
        r.inst(key, sample='%s: %r with %r' % (key, a, b))
        if a.idx != b.idx:
            r.violate(key, REL, lineno, '%s pairs %r with %r (%s): the parallel lists args / unpacked_items / coerced_unpacked_items are walked out of step, '
                      'a target is assigned the value of another target' % (q, a, b, kind))
    for S, n in from_end.items():
        if n is None:
            continue
        gs = [g for g in res['guards'] if g['size'] == S]
        for g in gs:
            key = uniq('%s:count:guard' % q)
            r.inst(key, sample='%s: if (SIZE %s %r) before %r fetches from the end' % (key, g['op'], g['bound'], n))
            if g['op'] in ('<', '<='):
                minimum = g['bound'] if g['op'] == '<' else g['bound'] + Lin.const(1)
                if minimum != n:
                    r.violate(key, REL, g['lineno'], '%s: the size guard rejects sizes below %r but %r items are fetched from the end of the list: %s'
                              % (q, minimum, n, 'too short an input reads before the start of the list instead of raising ValueError'
                                 if (minimum - n).sign() < 0 else 'valid inputs are rejected / the guard does not match the number of trailing targets'))
            else:
                r.info('%s: size guard with operator %s is not modelled' % (key, g['op']))
        for t in res['trims']:
            if S not in t['form'].c:
                continue
            key = uniq('%s:count:trim:%s' % (q, t['callee']))
            drop = Lin.sym(S) - t['form']
            r.inst(key, sample='%s: %s(.., SIZE-%r) after %r fetches from the end' % (key, t['callee'], drop, n))
            if drop != n:
                r.violate(key, REL, t['lineno'], '%s: %s keeps SIZE-(%r) items of the starred list but %r trailing targets were taken from its end: the starred '
                          'target keeps/loses items' % (q, t['callee'], drop, n))
    return em, res


def _signed(l):
    s = repr(l)
    return '' if s == '0' else (s if s[0] == '-' else '+' + s)


_PC = '''
def gen(self, rhs, code):
    for i, arg in enumerate(self.args):
        if arg.is_starred:
            right = self.unpacked_items[i+1:]
            break
    length_temp = code.funcstate.allocate_temp(t)
    target_list = starred.result()
    code.putln('%s = __Pyx_PyList_GET_SIZE(%s);' % (length_temp, target_list))
    for i, (item, coerced) in enumerate(zip(right, self.coerced_unpacked_items[-len(right):])):
        code.putln("%s = PyList_GET_ITEM(%s, %s-%d); " % (item.py_result(), target_list, length_temp, i+1))
'''


def rule_unpack(ctx, floor=12):
    r = Rule('C01-UNPACK', 'sequence unpacking emitters (symbolic run over affine list views): target p fetches item p / SIZE-(N-p); parallel lists stay aligned; '
                           'the size guard and the trimming slice match the number of trailing targets', floor)
    ix = ctx.index
    cls = ix.cls('ExprNodes', 'SequenceNode')
    parallel, builder = parallel_lists(cls)
    if not parallel:
        raise AnalysisError('SequenceNode: the method that builds the parallel lists unpacked_items / coerced_unpacked_items was not found')
    analysed = 0
    for mname, fn in sorted(cls.methods.items()):
        if mname == builder or not any(a.arg == 'code' for a in fn.args.args):
            continue
        uses = any(isinstance(x, ast.Attribute) and x.attr in parallel and x.attr != 'args' and isinstance(x.value, ast.Name) and x.value.id == 'self'
                   for x in walk_no_nested(fn))
        params = [a.arg for a in fn.args.args]
        pv = {}
        for p in params:
            if p in parallel and p != 'args':
                # a parameter named like a parallel list receives a front part of it (checked at the call sites below)
                pv[p] = View(parallel[p], Lin(), 1, Lin.sym('M'))
        if not uses and not pv:
            continue
        analysed += 1
        check_function(r, cls, mname, fn, parallel, pv)
        if pv:
            for cname, cfn in cls.methods.items():
                for c in walk_no_nested(cfn):
                    if isinstance(c, ast.Call) and isinstance(c.func, ast.Attribute) and c.func.attr == mname:
                        em = Emitter(cfn, parallel)
                        # evaluate the argument in the caller's symbolic environment at the end of the caller (views are immutable values)
                        em.run(cfn.body)
                        for p in pv:
                            idx = params.index(p) - 1
                            a = c.args[idx] if idx < len(c.args) else next((k.value for k in c.keywords if k.arg == p), None)
                            if a is None:
                                continue
                            v = em.ev(a)
                            key = '%s.%s->%s:%s' % (cls.name, cname, mname, p)
                            r.inst(key, sample='%s = %r' % (key, v))
                            if not (isinstance(v, View) and v.base == parallel[p] and v.off == Lin() and v.step == 1):
                                r.violate(key, REL, c.lineno, '%s passes %s as %s of %s, which indexes it from 0 upwards as a front part of self.%s'
                                          % (cname, ast.unparse(a), p, mname, p))
    if analysed < 3:
        raise AnalysisError('only %d unpacking emitters of SequenceNode analysed' % analysed)
    # positive control: forward iteration with an index counted from the end
    pc = Rule('x', 'x')
    pcf = ast.parse(_PC).body[0]
    check_function(pc, cls, 'gen', pcf, parallel)
    r.positive_control(any(':fetch:' in f.construct for f in pc.findings) and not any(':align:' in f.construct for f in pc.findings),
                       'trailing targets walked forwards with the index SIZE-(i+1): mirrored assignment detected, zip alignment accepted')
    return r
