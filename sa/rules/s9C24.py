"""Round 9 rule for C24 (seed C24n): the VALUE RANGE of the counts the wrapper generator passes to __Pyx_ParseKeywords.

C24-POSRANGE.  `num_pos_args` of __Pyx_ParseKeywords is an index into the keyword-name table (`first_kw_arg = argnames + num_pos_args`), and the table
holds only the names that can be passed by keyword: the M - P keyword-capable positional parameters (M = positional parameters, P = positional-only
ones) followed by the keyword-only names and the 0 terminator.  For a call with `nargs` positional arguments the number of table names already bound
positionally is therefore exactly
        clamp(nargs - P, 0, M - P)
(nargs <= M is enforced by the positional switch when there is no `*args`; with `*args` nargs is unbounded and the clamp is what keeps the index
inside the table).  C24-KWCOUNT only demands that the operand is *derived from* nargs, C24-POSONLY that the counter P counts the right thing; neither
looks at the arithmetic in between.  This rule does: it executes the generator method that emits the call with a small interpreter over its AST
(never the repository code) in which
    * every local / parameter that counts positional-only parameters (sC24.counter_class, the same provenance C24-POSONLY verifies) is P,
    * every local / parameter that is `len()` of the list the filing loop appends the non-keyword-only arguments to (followed through aliases and
      self.method() call sites) is M,  len() of the list the P counter runs over is M + NKW,
    * self.star_arg is the `*args` state, anything else is unknown (conditions on unknowns fork the path),
collects the C text the path emits, reads the C definitions `Py_ssize_t X = ...;` and the operands of the `__Pyx_ParseKeywords(` call (positions from
the C prototype), and evaluates the C expressions (engine/cexpr) for every nargs.  Domain: P, M - P in 0..3, NKW in 0..2, `*args` in {no, yes},
nargs in 0..M (no `*args`) / 0..M+3 (`*args`): the expressions are min/max/ternary forms over nargs, P, M with unit coefficients and constants 0/1
(anything else is an AnalysisError), whose breakpoints all lie inside this box — each cell {P = 0, P > 0} x {M = P, M > P} x {nargs < P, P <= nargs
<= M, nargs > M} x {*args} of the piecewise-linear partition is covered with at least two points per free dimension.
The same evaluation gives the base of the values[] window (`values + K`): K = P whenever the table is non-empty.
"""
import ast, re

from ..core import Rule, AnalysisError
from ..engine import cexpr
from ..engine.pyindex import walk_no_nested
from ..engine.cutil import split_args, match_paren
from . import sC24
from .sC24 import counter_class, _counters, _gen_counter, _pname_c


class _U:
    def __repr__(self):
        return '<unknown>'


UNK = _U()
HOLE = '§'          # an unknown value inside emitted text


def _truth(v):
    return None if v is UNK else bool(v)


class _Stop(Exception):
    def __init__(self, value=None):
        self.value = value


def _call_sites(cls, fn):
    for other in cls.methods.values():
        for n in walk_no_nested(other):
            if isinstance(n, ast.Call) and isinstance(n.func, ast.Attribute) and n.func.attr == fn.name and isinstance(n.func.value, ast.Name) and n.func.value.id == 'self':
                yield other, n


def _single_def(fn, name):
    al = [n.value for n in walk_no_nested(fn) if isinstance(n, ast.Assign) and any(isinstance(t, ast.Name) and t.id == name for t in n.targets)]
    others = [n for n in walk_no_nested(fn) if isinstance(n, (ast.AugAssign, ast.For)) and any(isinstance(x, ast.Name) and x.id == name for x in ast.walk(n.target))]
    return al[0] if len(al) == 1 and not others else None


def _positional_list(fn, lst):
    """is `lst` a list that the filing loop of fn appends exactly the non-keyword-only arguments to (no pos_only / default condition)?"""
    _, appends = _counters(fn)
    if lst not in appends:
        return False
    for conds in appends[lst]:
        atoms = {(re.sub(r'^\w+\.', '', t), v) for t, v in conds}
        if ('kw_only', False) not in atoms or any(t in ('pos_only', 'default') for t, v in atoms):
            return False
    return True


def is_maxpos(cls, fn, name, depth=0):
    """does `name` hold M, the number of parameters that can be passed positionally?"""
    if depth > 4:
        return False
    params = [a.arg for a in fn.args.args]
    d = _single_def(fn, name)
    if d is not None:
        if isinstance(d, ast.Name):
            return is_maxpos(cls, fn, d.id, depth + 1)
        if isinstance(d, ast.Call) and isinstance(d.func, ast.Name) and d.func.id == 'len' and len(d.args) == 1 and isinstance(d.args[0], ast.Name):
            return _positional_list(fn, d.args[0].id)
        return False
    if name in params:
        i = params.index(name) - 1
        verdicts = []
        for other, call in _call_sites(cls, fn):
            arg = call.args[i] if 0 <= i < len(call.args) else None
            for k in call.keywords:
                if k.arg == name:
                    arg = k.value
            verdicts.append(isinstance(arg, ast.Name) and is_maxpos(cls, other, arg.id, depth + 1))
        return bool(verdicts) and all(verdicts)
    return False


# what a counter over the full argument list (positional + keyword-only, the list values[] is laid out by) counts, by its filter
ATOM_ROLE = {frozenset({('pos_only', True)}): 'P', frozenset({('pos_only', False), ('kw_only', False)}): 'K', frozenset({('kw_only', False)}): 'M',
             frozenset({('kw_only', True)}): 'NKW', frozenset({('pos_only', False)}): 'T', frozenset(): 'ALL'}


class GenEval:
    """One run of a generator method for concrete (P, M, NKW, star); `forks` is the list of decisions taken at unknown conditions."""

    def __init__(self, cls, fn, ix, point, roles):
        self.cls, self.fn, self.ix, self.point, self.roles = cls, fn, ix, point, roles
        self.P, self.M, self.NKW, self.star = point
        self.depth = 0

    def role_value(self, role):
        return {'P': self.P, 'M': self.M, 'ALL': self.M + self.NKW, 'K': self.M - self.P, 'NKW': self.NKW, 'T': self.M - self.P + self.NKW}[role]

    # ---- expressions
    def fmt(self, v, spec=''):
        if v is UNK:
            return HOLE
        if isinstance(v, bool) and spec == '':
            return str(v)
        try:
            return format(int(v) if isinstance(v, bool) else v, spec)
        except (ValueError, TypeError):
            return HOLE

    def ev(self, e, env):
        if isinstance(e, ast.Constant):
            return e.value
        if isinstance(e, ast.Name):
            if e.id in self.roles:
                return self.role_value(self.roles[e.id])
            return env.get(e.id, UNK)
        if isinstance(e, ast.Attribute):
            if isinstance(e.value, ast.Name) and e.value.id == 'Naming':
                return e.attr
            if isinstance(e.value, ast.Name) and e.value.id == 'self' and e.attr == 'star_arg':
                return 'STAR' if self.star else None
            return UNK
        if isinstance(e, ast.JoinedStr):
            out = ''
            for p in e.values:
                if isinstance(p, ast.Constant):
                    out += str(p.value)
                else:
                    spec = ''
                    if p.format_spec is not None:
                        spec = self.ev(p.format_spec, env)
                        if not isinstance(spec, str) or HOLE in spec:
                            out += HOLE
                            continue
                    out += self.fmt(self.ev(p.value, env), spec.strip())
            return out
        if isinstance(e, ast.UnaryOp):
            v = self.ev(e.operand, env)
            if isinstance(e.op, ast.Not):
                t = _truth(v)
                return UNK if t is None else (not t)
            if isinstance(e.op, ast.USub) and isinstance(v, int):
                return -v
            return UNK
        if isinstance(e, ast.BoolOp):
            is_and = isinstance(e.op, ast.And)
            unknown, last = False, None
            for x in e.values:
                last = self.ev(x, env)
                t = _truth(last)
                if t is None:
                    unknown = True
                elif t != is_and:
                    return last if not unknown else (not is_and)
            return UNK if unknown else last
        if isinstance(e, ast.IfExp):
            t = _truth(self.ev(e.test, env))
            if t is None:
                a, b = self.ev(e.body, env), self.ev(e.orelse, env)
                return a if (a is not UNK and b is not UNK and type(a) is type(b) and a == b) else UNK
            return self.ev(e.body if t else e.orelse, env)
        if isinstance(e, ast.Compare):
            vals = [self.ev(e.left, env)] + [self.ev(x, env) for x in e.comparators]
            res = True
            for op, a, b in zip(e.ops, vals, vals[1:]):
                if isinstance(op, (ast.Is, ast.IsNot)) and (a is None or b is None) and a is not UNK and b is not UNK:
                    r = (a is b) if isinstance(op, ast.Is) else (a is not b)
                elif a is UNK or b is UNK or not (isinstance(a, int) and isinstance(b, int)):
                    if isinstance(op, (ast.Eq, ast.NotEq)) and isinstance(a, str) and isinstance(b, str) and HOLE not in a + b:
                        r = (a == b) if isinstance(op, ast.Eq) else (a != b)
                    else:
                        return UNK
                else:
                    f = {ast.Lt: a < b, ast.LtE: a <= b, ast.Gt: a > b, ast.GtE: a >= b, ast.Eq: a == b, ast.NotEq: a != b}.get(type(op))
                    if f is None:
                        return UNK
                    r = f
                if not r:
                    res = False
            return res
        if isinstance(e, ast.BinOp):
            a = self.ev(e.left, env)
            if isinstance(e.op, ast.Mod) and isinstance(a, str):
                items = e.right.elts if isinstance(e.right, ast.Tuple) else [e.right]
                vals = [self.ev(x, env) for x in items]
                it = iter(vals)

                def sub(m):
                    if m.group(0) == '%%':
                        return '%'
                    try:
                        return self.fmt(next(it))
                    except StopIteration:
                        return HOLE
                return re.sub(r'%%|%[-0 ]*\d*[sdir]', sub, a)
            b = self.ev(e.right, env)
            if isinstance(a, str) and isinstance(b, str) and isinstance(e.op, ast.Add):
                return a + b
            if isinstance(a, bool) or isinstance(b, bool) or not (isinstance(a, int) and isinstance(b, int)):
                return UNK
            if isinstance(e.op, ast.Add):
                return a + b
            if isinstance(e.op, ast.Sub):
                return a - b
            if isinstance(e.op, ast.Mult):
                return a * b
            return UNK
        if isinstance(e, ast.Call):
            f = e.func
            if isinstance(f, ast.Name) and f.id in ('len', 'sum') and len(e.args) == 1:
                a0 = e.args[0]
                if f.id == 'len' and isinstance(a0, ast.Name) and self.roles.get('len:' + a0.id):
                    return self.role_value(self.roles['len:' + a0.id])
                g = _gen_counter(self.cls, self.fn, e)
                if g is not None:
                    atoms = next(iter(g[0]))
                    itn = g[2][0]['iter']
                    if self.roles.get('len:' + itn) == 'ALL' and atoms in ATOM_ROLE:
                        return self.role_value(ATOM_ROLE[atoms])
                return UNK
            if isinstance(f, ast.Name) and f.id in ('min', 'max') and e.args and not e.keywords:
                vals = [self.ev(x, env) for x in e.args]
                if all(isinstance(v, int) and not isinstance(v, bool) for v in vals) and len(vals) > 1:
                    return (min if f.id == 'min' else max)(vals)
                return UNK
            if isinstance(f, ast.Name) and f.id in ('int', 'bool', 'str') and len(e.args) == 1:
                v = self.ev(e.args[0], env)
                if v is UNK:
                    return UNK
                try:
                    return {'int': int, 'bool': bool, 'str': str}[f.id](v)
                except (TypeError, ValueError):
                    return UNK
            if isinstance(f, ast.Attribute) and isinstance(f.value, ast.Name) and f.value.id == 'self' and f.attr in getattr(self.cls, 'methods', {}) and self.depth < 3 \
                    and not any(isinstance(x, ast.Starred) for x in e.args) and all(k.arg for k in e.keywords):
                # a helper method of the same class: executed inline (its emissions belong to this path), its return value is the call's value
                callee = self.cls.methods[f.attr]
                sub = GenEval(self.cls, callee, self.ix, self.point, roles_of(self.cls, callee, self.ix))
                sub.out, sub.script, sub.taken, sub.todo, sub.depth = self.out, self.script, self.taken, self.todo, self.depth + 1
                params = [a.arg for a in callee.args.args][1:]
                env2 = {}
                for pname, d in zip(reversed(params), reversed(callee.args.defaults)):
                    env2[pname] = sub.ev(d, {})
                for pname, x in zip(params, e.args):
                    env2[pname] = self.ev(x, env)
                for k in e.keywords:
                    env2[k.arg] = self.ev(k.value, env)
                try:
                    sub.block(callee.body, env2)
                except _Stop as st:
                    return st.value
                return None
            # any other call: strings handed to it are emitted C text (code.putln / put / put_error_if_neg / error_goto_if_neg ...)
            for x in list(e.args) + [k.value for k in e.keywords]:
                v = self.ev(x, env)
                if isinstance(v, str):
                    self.out.append(v)
            if isinstance(f, ast.Attribute):
                self.ev(f.value, env)
            return UNK
        return UNK

    # ---- statements
    def run(self):
        """-> list of emitted texts, one per path"""
        results = []
        self.todo = [()]
        while self.todo:
            script = self.todo.pop()
            self.script, self.taken, self.out = list(script), [], []
            try:
                self.block(self.fn.body, {})
            except _Stop:
                pass
            results.append('\n'.join(self.out))
            if len(results) > 256:
                raise AnalysisError('C24-POSRANGE: %s has too many paths over unknown conditions' % self.fn.name)
        return results

    def decide(self, test, env):
        t = _truth(self.ev(test, env))
        if t is not None:
            return t
        k = len(self.taken)
        if k < len(self.script):
            t = self.script[k]
        else:
            t = True
            self.todo.append(tuple(self.taken) + (False,))        # the other arm of every new fork is scheduled (depth first)
        self.taken.append(t)
        return t

    def kill(self, node, env):
        for x in ast.walk(node):
            if isinstance(x, ast.Name) and isinstance(x.ctx, ast.Store):
                env[x.id] = UNK

    def block(self, stmts, env):
        for st in stmts:
            if isinstance(st, ast.Assign):
                v = self.ev(st.value, env)
                for t in st.targets:
                    if isinstance(t, ast.Name):
                        env[t.id] = v
                    else:
                        self.kill(t, env)
            elif isinstance(st, ast.AnnAssign) and isinstance(st.target, ast.Name) and st.value is not None:
                env[st.target.id] = self.ev(st.value, env)
            elif isinstance(st, ast.AugAssign):
                if isinstance(st.target, ast.Name):
                    env[st.target.id] = self.ev(ast.BinOp(left=ast.Name(id=st.target.id, ctx=ast.Load()), op=st.op, right=st.value), env)
            elif isinstance(st, ast.Expr):
                self.ev(st.value, env)
            elif isinstance(st, ast.If):
                self.block(st.body if self.decide(st.test, env) else st.orelse, env)
            elif isinstance(st, (ast.For, ast.While)):
                # loops: their emissions are not modelled; what they assign is unknown afterwards (role names keep their meaning)
                for x in ast.walk(st):
                    if isinstance(x, ast.Constant) and isinstance(x.value, str) and ('__Pyx_ParseKeywords(' in x.value or re.search(r'Py_ssize_t\s+\w+\s*=', x.value) and 'for (' not in x.value):
                        raise AnalysisError('C24-POSRANGE: %s emits the keyword parser call / a count definition inside a loop (line %d)' % (self.fn.name, st.lineno))
                self.kill(st, env)
            elif isinstance(st, ast.Return):
                raise _Stop(self.ev(st.value, env) if st.value is not None else None)
            elif isinstance(st, ast.Raise):
                raise _Stop(UNK)
            elif isinstance(st, ast.With):
                self.block(st.body, env)
            elif isinstance(st, ast.Try):
                self.block(st.body, env)
                self.block(st.orelse, env)
                self.block(st.finalbody, env)
            elif isinstance(st, (ast.Pass, ast.Assert, ast.Import, ast.ImportFrom, ast.Global, ast.Nonlocal, ast.FunctionDef, ast.Delete)):
                pass
            else:
                self.kill(st, env)


_ROLES = {}


def roles_of(cls, fn, ix):
    """{name: 'P' | 'M', 'len:<list>': 'ALL'} for the locals / parameters of fn"""
    if id(fn) in _ROLES and _ROLES[id(fn)][0] is fn:
        return _ROLES[id(fn)][1]
    roles = {}
    _ROLES[id(fn)] = (fn, roles)
    names = {a.arg for a in fn.args.args} | {x.id for x in walk_no_nested(fn) if isinstance(x, ast.Name)}
    for nm in sorted(names):
        if nm in ('self', 'code'):
            continue
        cc = counter_class(cls, fn, nm, ix)
        if cc is not None and cc[0] and all(('pos_only', True) in k for k in cc[0]):
            roles[nm] = 'P'
            for dom in cc[2]:
                if dom['fn'] is fn and re.fullmatch(r'\w+', dom['iter']):
                    roles['len:' + dom['iter']] = 'ALL'
        elif is_maxpos(cls, fn, nm):
            roles[nm] = 'M'
    # a local / parameter that is the list the keyword-name table is filtered from (the list values[] is laid out by)
    ts = table_source(cls) if hasattr(cls, 'methods') else None
    if ts is not None:
        for x in walk_no_nested(fn):
            if isinstance(x, ast.Call) and isinstance(x.func, ast.Name) and x.func.id == 'len' and len(x.args) == 1 and isinstance(x.args[0], ast.Name) and 'len:' + x.args[0].id not in roles:
                if sC24._bound_to(cls, fn, x.args[0].id, ts[0], ts[1]) is True:
                    roles['len:' + x.args[0].id] = 'ALL'
    # other counters of this function over the same list (table length, keyword-capable positional count, ...)
    for nm in sorted(names):
        if nm in roles or nm in ('self', 'code'):
            continue
        cc = counter_class(cls, fn, nm, ix)
        if cc is not None and len(cc[0]) == 1 and cc[2] and all(dom['fn'] is fn and roles.get('len:' + dom['iter']) == 'ALL' for dom in cc[2]):
            atoms = next(iter(cc[0]))
            if atoms in ATOM_ROLE and len({dom['conds'] for dom in cc[2]}) == 1:
                roles[nm] = ATOM_ROLE[atoms]
    return roles


def _c_value(text, decls, base):
    if HOLE in text:
        raise AnalysisError('C24-POSRANGE: the C expression `%s` contains a value the generator model does not know' % text.strip())
    busy = set()

    class Env(dict):
        def __contains__(self, k):
            return k in base or k in decls

        def __getitem__(self, k):
            if k in base:
                return base[k]
            if k in busy:
                raise AnalysisError('C24-POSRANGE: cyclic C definition of %s' % k)
            busy.add(k)
            try:
                return _c_value(decls[k], decls, base)
            finally:
                busy.discard(k)
    try:
        return cexpr.evaluate(cexpr.parse(text), Env())
    except (cexpr.ParseError, cexpr.EvalError) as ex:
        raise AnalysisError('C24-POSRANGE: cannot evaluate the emitted C expression `%s`: %s' % (text.strip(), ex))


def operands(text, npar):
    """[(operand list, {C variable: initialiser})] of the __Pyx_ParseKeywords( calls in the text one path emits"""
    decls = {}
    for m in re.finditer(r'\bPy_ssize_t\s+(\w+)\s*=([^;]*);', text):
        if m.group(1) in decls and decls[m.group(1)].strip() != m.group(2).strip():
            raise AnalysisError('C24-POSRANGE: two definitions of the C variable %s on one path' % m.group(1))
        decls[m.group(1)] = m.group(2)
    out = []
    for m in re.finditer(r'__Pyx_ParseKeywords\(', text):
        j = match_paren(text, m.end() - 1)
        if j < 0:
            raise AnalysisError('C24-POSRANGE: unbalanced __Pyx_ParseKeywords( emission')
        args = split_args(text[m.end():j])
        if len(args) != npar:
            raise AnalysisError('C24-POSRANGE: emitted __Pyx_ParseKeywords( has %d operands, the C function %d parameters' % (len(args), npar))
        out.append((args, decls))
    return out


DOMAIN = [(P, P + K, NKW, star) for P in range(4) for K in range(4) for NKW in range(3) for star in (False, True)]


def cell(P, M, star):
    return '%s,%s,%s' % ('P=0' if P == 0 else 'P>0', 'M=P' if M == P else 'M>P', '*args' if star else 'no *args')


def table_source(cls):
    """(method, name of the local list) the keyword-name table is filtered from (`[arg for arg in L if not arg.pos_only]`), or None"""
    for fn in cls.methods.values():
        counted = {id(x.args[0]) for x in walk_no_nested(fn) if isinstance(x, ast.Call) and isinstance(x.func, ast.Name) and x.func.id in ('len', 'sum') and len(x.args) == 1}
        for n in walk_no_nested(fn):
            if isinstance(n, ast.ListComp) and id(n) not in counted and len(n.generators) == 1 and n.generators[0].ifs and isinstance(n.elt, ast.Name) \
                    and isinstance(n.generators[0].iter, ast.Name) and any(isinstance(x, ast.Attribute) and x.attr == 'pos_only' for t in n.generators[0].ifs for x in ast.walk(t)):
                return fn, n.generators[0].iter.id
    return None


def check_method(cls, fn, ix, ipos, ival, npar):
    """-> (cells evaluated, {what: (cell, counterexample text)}, roles, notes)"""
    roles = roles_of(cls, fn, ix)
    if 'P' not in roles.values() or 'M' not in roles.values():
        raise AnalysisError('C24-POSRANGE: %s emits __Pyx_ParseKeywords( but no local/parameter could be identified as the positional-only count and the '
                            'positional-parameter count (found: %s)' % (fn.name, sorted(roles.items())))
    cells, bad, notes = set(), {}, []

    def note(msg):
        if msg not in notes:
            notes.append(msg)
    for P, M, NKW, star in DOMAIN:
        texts = GenEval(cls, fn, ix, (P, M, NKW, star), roles).run()
        found = {'range': [], 'base': []}        # per emitting path: a counterexample or None
        for text in texts:
            for args, decls in operands(text, npar):
                cells.add(cell(P, M, star))
                cex = None
                try:
                    for nargs in range(0, M + (4 if star else 1)):
                        got = _c_value(args[ipos], decls, {'nargs_cname': nargs})
                        want = min(max(nargs - P, 0), M - P)
                        if got != want:
                            cex = ('for a signature with %d positional-only + %d keyword-capable positional parameters%s%s and a call with %d positional argument(s) '
                                   'the emitted num_pos_args `%s`%s is %d, but %d of the table\'s names are bound positionally (the table holds %d positional names)'
                                   % (P, M - P, ', *args' if star else '', ' and %d keyword-only' % NKW if NKW else '', nargs, args[ipos].strip(),
                                      ''.join(' [%s =%s]' % kv for kv in sorted(decls.items()) if re.search(r'\b%s\b' % kv[0], args[ipos] + ' '.join(decls.values()))), got, want, M - P))
                            break
                except AnalysisError as ex:
                    note('num_pos_args not evaluated (its derivation from nargs is decided by C24-KWCOUNT): %s' % ex)
                    cex = False
                found['range'].append(cex)
                if ival is not None and (M - P + NKW) > 0:
                    cex = None
                    try:
                        off = _c_value(args[ival], decls, {'values': 0})
                        if off != P:
                            cex = ('for a signature with %d positional-only, %d keyword-capable positional and %d keyword-only parameters the values window passed to the parser is '
                                   '`%s` (offset %d); table entry j belongs to values[%d + j]' % (P, M - P, NKW, args[ival].strip(), off, P))
                    except AnalysisError as ex:
                        note('values window not evaluated (the provenance of its offset is decided by C24-POSONLY): %s' % ex)
                        cex = False
                    found['base'].append(cex)
        if not found['range'] and (M - P + NKW) > 0:
            raise AnalysisError('C24-POSRANGE: no path of %s emits __Pyx_ParseKeywords( for P=%d M=%d' % (fn.name, P, M))
        for what, res in found.items():
            hits = [c for c in res if c]
            if not hits or what in bad:
                continue
            if len(hits) < len(res):
                # only some arms of a condition the model cannot decide give a wrong value: not a definite finding
                note('%s [%s]: %s — only on some paths through conditions that are not modelled; not reported' % (what, cell(P, M, star), hits[0]))
                continue
            bad[what] = (cell(P, M, star), hits[0])
    return cells, bad, roles, notes


_PC_GOOD = '''
class W:
    def top(self, args, code):
        pos = []
        kwo = []
        for arg in args:
            if arg.kw_only:
                kwo.append(arg)
            else:
                pos.append(arg)
        top_m = len(pos)
        everything = tuple(pos) + tuple(kwo)
        self.unpack(top_m, everything, code)

    def unpack(self, mx, everything, code):
        npo = 0
        for arg in everything:
            if arg.pos_only:
                npo += 1
        if npo > 0:
            code.putln('const Py_ssize_t kp = (unlikely(%s < %d)) ? 0 : %s - %d;' % (Naming.nargs_cname, npo, Naming.nargs_cname, npo))
        elif mx > 0:
            code.putln('const Py_ssize_t kp = %s;' % Naming.nargs_cname)
        if mx == 0:
            cnt = "0"
        elif self.star_arg:
            lim = LIMIT
            code.putln(f"const Py_ssize_t up = (kp < {lim}) ? kp : {lim};")
            cnt = "up"
        else:
            cnt = "kp"
        code.put_error_if_neg(self.pos, f"__Pyx_ParseKeywords(k, v, names, 0, values + {npo}, {cnt}, n, name, 0)")
'''


def _control(limit):
    tree = ast.parse(_PC_GOOD.replace('LIMIT', limit)).body[0]

    class FC:
        name = 'W'
        methods = {f.name: f for f in tree.body}
    return check_method(FC, FC.methods['unpack'], None, 5, 4, 9)[1]


def rule_posrange(ctx, floor=7):
    ix = ctx.index
    r = Rule('C24-POSRANGE', 'DefNodeWrapper: for every signature shape (positional-only count P, positional count M, keyword-only count, *args) and every positional argument count, the '
             'num_pos_args operand emitted for __Pyx_ParseKeywords evaluates to clamp(nargs - P, 0, M - P), the number of keyword-table names bound positionally, and the values window starts at P', floor)
    decl = [d for d in ctx.cat.decls.get('__Pyx_ParseKeywords', []) if d.kind == 'func']
    if not decl:
        raise AnalysisError('__Pyx_ParseKeywords is not defined')
    pn = [_pname_c(p) for p in decl[0].params]
    if 'num_pos_args' not in pn:
        raise AnalysisError('__Pyx_ParseKeywords no longer has the parameter num_pos_args')
    ipos = pn.index('num_pos_args')
    ival = pn.index('values') if 'values' in pn else None
    c = ix.cls('Nodes', 'DefNodeWrapper')
    if c is None:
        raise AnalysisError('Nodes.DefNodeWrapper vanished')
    n = 0
    for fname, fn in c.methods.items():
        if not any(isinstance(x, ast.Constant) and isinstance(x.value, str) and '__Pyx_ParseKeywords(' in x.value for x in walk_no_nested(fn)):
            continue
        n += 1
        cells, bad, roles, notes = check_method(c, fn, ix, ipos, ival, len(pn))
        for msg in notes[:6]:
            r.info('%s: %s' % (fname, msg))
        key = 'Nodes.DefNodeWrapper.%s:__Pyx_ParseKeywords' % fname
        for cl in sorted(cells):
            r.inst('%s:%s' % (key, cl), sample='%s [%s] with %s' % (key, cl, ', '.join('%s=%s' % kv for kv in sorted(roles.items()))))
        line = next((x.lineno for x in walk_no_nested(fn) if isinstance(x, ast.Constant) and isinstance(x.value, str) and '__Pyx_ParseKeywords(' in x.value), fn.lineno)
        if 'range' in bad:
            r.violate(key + ':num_pos_args-range', c.module.rel, line, '%s [%s]: %s: the keyword search starts at the wrong table entry — names before it are treated as already passed positionally '
                      '("multiple values" for a legal keyword), names after a too-small index are not checked for duplicates, an index past the table reads beyond its 0 terminator'
                      % (fname, bad['range'][0], bad['range'][1]))
        if 'base' in bad:
            r.violate(key + ':values-base', c.module.rel, line, '%s [%s]: %s: keyword values are stored into the slots of other parameters' % (fname, bad['base'][0], bad['base'][1]))
    if not n:
        raise AnalysisError('DefNodeWrapper no longer emits __Pyx_ParseKeywords(')
    good, badc = _control('mx - npo'), _control('mx')
    r.positive_control(not good and 'range' in badc, 'clamp relative to the positional count instead of the table (fires); clamp M - P (passes)')
    return r


# ======================================================================================= C24-STARSLICE: what `*args` receives
def slice_problems(cls, fn, ix, istart, istop, npar):
    """-> (cells, counterexample or None, notes)"""
    roles = roles_of(cls, fn, ix)
    if 'M' not in roles.values():
        raise AnalysisError('C24-STARSLICE: %s emits __Pyx_ArgsSlice_<variant>( but no local/parameter could be identified as the positional-parameter count' % fn.name)
    cells, bad, notes = set(), None, []
    for M in range(4):
        texts = GenEval(cls, fn, ix, (0, M, 0, True), roles).run()
        res = []
        for text in texts:
            calls = list(re.finditer(r'__Pyx_ArgsSlice_[\w%s]*\(' % HOLE, text))
            direct = re.search(r'=\s*args_cname\s*;', text)       # `*args` is the argument tuple itself: a slice from 0
            for m in calls:
                j = match_paren(text, m.end() - 1)
                args = split_args(text[m.end():j]) if j > 0 else []
                if len(args) != npar:
                    raise AnalysisError('C24-STARSLICE: emitted __Pyx_ArgsSlice_<variant>( has %d operands, the C macro %d parameters' % (len(args), npar))
                cells.add('M=0' if M == 0 else 'M>0')
                cex = None
                try:
                    for nargs in range(0, M + 4):
                        a, b = _c_value(args[istart], {}, {'nargs_cname': nargs}), _c_value(args[istop], {}, {'nargs_cname': nargs})
                        if nargs > M and (a, b) != (M, nargs):
                            cex = ('for a signature with %d positional parameter(s) and a call with %d positional arguments `*args` is the slice [%s:%s] = [%d:%d] of the '
                                   'argument vector, CPython binds the surplus arguments [%d:%d]' % (M, nargs, args[istart].strip(), args[istop].strip(), a, b, M, nargs))
                            break
                except AnalysisError as ex:
                    if str(ex) not in notes:
                        notes.append(str(ex))
                    cex = False
                res.append(cex)
            if not calls and direct:
                cells.add('M=0' if M == 0 else 'M>0')
                res.append('for a signature with %d positional parameter(s) `*args` is the whole argument tuple, CPython binds only the surplus arguments [%d:]' % (M, M) if M > 0 else None)
        if not res:
            raise AnalysisError('C24-STARSLICE: no path of %s gives `*args` a value for M=%d' % (fn.name, M))
        hits = [c for c in res if c]
        if hits and len(hits) == len(res) and bad is None:
            bad = hits[0]
        elif hits and len(hits) < len(res):
            notes.append('%s — only on some paths through conditions that are not modelled; not reported' % hits[0])
    return cells, bad, notes


_PC_SLICE = '''
class W:
    def top(self, args, code):
        pos = []
        for arg in args:
            if not arg.kw_only:
                pos.append(arg)
        n = len(pos)
        self.init(n, code)

    def init(self, mx, code):
        if self.star_arg:
            if mx == 0:
                code.putln("%s = %s;" % (self.star_arg.entry.cname, Naming.args_cname))
            else:
                code.putln(f'{self.star_arg.entry.cname} = __Pyx_ArgsSlice_{self.signature.fastvar}({Naming.args_cname}, START, {Naming.nargs_cname});')
'''


def _slice_control(start):
    tree = ast.parse(_PC_SLICE.replace('START', start)).body[0]

    class FC:
        name = 'W'
        methods = {f.name: f for f in tree.body}
    return slice_problems(FC, FC.methods['init'], None, 1, 2, 3)[1]


def rule_starslice(ctx, floor=1):
    ix = ctx.index
    r = Rule('C24-STARSLICE', 'DefNodeWrapper: for every positional-parameter count M and every call with more than M positional arguments, the operands emitted for '
             '__Pyx_ArgsSlice_<variant>(args, start, stop) evaluate to (M, nargs): `*args` receives exactly the surplus positional arguments', floor)
    pars = None
    for nm, ds in ctx.cat.decls.items():
        if nm.startswith('__Pyx_ArgsSlice_'):
            for d in ds:
                if getattr(d, 'params', None):
                    pn = [_pname_c(p) for p in d.params]
                    if pars is not None and pn != pars:
                        raise AnalysisError('the __Pyx_ArgsSlice_<variant> macros disagree on their parameter lists')
                    pars = pn
    if not pars or 'start' not in pars or 'stop' not in pars:
        raise AnalysisError('__Pyx_ArgsSlice_<variant>(args, start, stop) is not defined with these parameters')
    c = ix.cls('Nodes', 'DefNodeWrapper')
    if c is None:
        raise AnalysisError('Nodes.DefNodeWrapper vanished')
    n = 0
    for fname, fn in c.methods.items():
        if not any(isinstance(x, ast.Constant) and isinstance(x.value, str) and '__Pyx_ArgsSlice_' in x.value for x in walk_no_nested(fn)):
            continue
        n += 1
        cells, bad, notes = slice_problems(c, fn, ix, pars.index('start'), pars.index('stop'), len(pars))
        key = 'Nodes.DefNodeWrapper.%s:__Pyx_ArgsSlice' % fname
        for cl in sorted(cells):
            r.inst('%s:%s' % (key, cl), sample='%s [%s]' % (key, cl))
        for msg in notes[:4]:
            r.info('%s: %s' % (fname, msg))
        if bad:
            line = next((x.lineno for x in walk_no_nested(fn) if isinstance(x, ast.Constant) and isinstance(x.value, str) and '__Pyx_ArgsSlice_' in x.value), fn.lineno)
            r.violate(key + ':bounds', c.module.rel, line, '%s: %s' % (fname, bad))
    if not n:
        raise AnalysisError('DefNodeWrapper no longer emits __Pyx_ArgsSlice_<variant>(')
    r.positive_control(_slice_control('mx') is None and bool(_slice_control('0')), '*args sliced from 0 (fires); from the positional-parameter count (passes)')
    return r
