"""Fourth-round rules for C30 (cdef dataclasses).

  C30-INIT    the __init__ that generate_init_code emits, for field lists covering plain / default / default_factory / init=False / InitVar / a field named `self`,
              with kw_only False/True and with/without __post_init__: (a) the class is rejected exactly when dataclasses rejects it ("non-default argument follows
              default argument"), (b) the parameter list (names, order, keyword-only, which have defaults) equals inspect.signature of the stdlib class' __init__,
              (c) run by the checker's evaluator for every subset of omitted defaulted arguments, the attributes set on self and the arguments handed to
              __post_init__ equal what the stdlib __init__ does
  C30-IVAR    InitVar pseudo-fields take no part in the generated __repr__, __eq__/ordering and __hash__ (evaluated like C30-BODY on a field list with an InitVar)
  C30-FIELDS  process_class_get_fields / _set_up_dataclass_fields evaluated on mock entries: a derived dataclass does not add its fields to the dict object of its
              base; field(default=...) alone, field(default_factory=...) alone are accepted and both together rejected; mutable defaults list/dict/set are rejected;
              __dataclass_fields__[name]._field_type is _FIELD for ordinary fields and _FIELD_INITVAR for InitVars
"""
import ast, dataclasses, inspect, itertools, re, textwrap

from ..core import Rule, AnalysisError, node_src
from .pC28 import MiniPy, NS, OPQ, PStr, Env, Closure, Raised, Stopped, Unsupported, Undecidable, NOT_HANDLED


def _B():
    from ..props import C30
    return C30


class Writer:
    """Stand-in for TemplateCode/PyxCodeWriter with real insertion points: an insertion point is a child buffer placed where it was created."""

    def __init__(self, model, level=0, shared=None):
        self.model, self.level, self.items = model, level, []
        self.shared = shared if shared is not None else {'opaque': False, 'placeholders': {}, 'n': 0}

    @property
    def opaque(self):
        return self.shared['opaque']

    @property
    def placeholders(self):
        return self.shared['placeholders']

    def _put(self, s):
        if isinstance(s, PStr) or s is OPQ:
            self.shared['opaque'] = True
            s = (s.prefix if isinstance(s, PStr) else '') + ' <?>'
        self.items.append('    ' * self.level + str(s))

    def lines(self):
        out = []
        for it in self.items:
            if isinstance(it, Writer):
                out.extend(it.lines())
            else:
                out.append(it)
        return out

    def text(self):
        return '\n'.join(self.lines())

    def mock(self):
        w = self

        def add_code_line(s='', *a):
            w._put(s)

        def add_code_chunk(s='', *a):
            if isinstance(s, str):
                for line in textwrap.dedent(s).strip('\n').split('\n'):
                    w.items.append(('    ' * w.level + line) if line.strip() else '')
            else:
                w._put(s)

        def indenter(s='', *a):
            w._put(s)

            def enter():
                w.level += 1

            def leave():
                w.level -= 1
            return NS('indenter', _enter=enter, _exit=leave)

        def indent():
            w.level += 1

        def dedent():
            w.level -= 1

        def insertion_point():
            child = Writer(w.model, w.level, w.shared)
            w.items.append(child)
            return child.mock()

        def new_placeholder(field_names, value):
            w.shared['n'] += 1
            name = 'PLACEHOLDER_%d' % w.shared['n']
            w.shared['placeholders'][name] = value
            return name

        def reset():
            del w.items[:]

        def empty():
            return not w.lines()
        ns = NS('code', add_code_line=add_code_line, add_code_chunk=add_code_chunk, indenter=indenter, indent=indent, dedent=dedent, putln=add_code_line,
                put_chunk=add_code_chunk, insertion_point=insertion_point, new_placeholder=new_placeholder, reset=reset, empty=empty, _ctor='TemplateCode')
        ns.add_extra_statements = lambda stats: None
        return ns


def _emitter(info, method):
    for g in info['gens']:
        if method in g.get('methods', []):
            return g
    raise AnalysisError('no generate_* call of handle_cclass_dataclass produces %s' % method)


def _caller_names(info):
    caller_names = {}
    for g in info['gens']:
        fdef = g['fn']
        for n in ast.walk(fdef):
            if isinstance(n, ast.Attribute) and isinstance(n.value, ast.Name) and n.value.id in g['argnames']:
                if n.attr in ('items', 'keys', 'values'):
                    caller_names.setdefault('fields', g['argnames'][n.value.id])
                if n.attr == 'scope':
                    caller_names.setdefault('node', g['argnames'][n.value.id])
    if set(caller_names) != {'fields', 'node'}:
        raise AnalysisError('handle_cclass_dataclass: cannot tell which locals are the field dict and the class node')
    return caller_names


# ====================================================================================================== C30-INIT
SENTINEL = NS('_HAS_DEFAULT_FACTORY', _ctor='Sentinel')

INIT_CONFIGS = [
    ('plain+default+factory', [('a', {}), ('b', {'default': 5}), ('c', {'factory': True})]),
    ('init=False with default / factory / nothing', [('a', {}), ('d', {'init': False, 'default': 7}), ('e', {'init': False, 'factory': True}), ('f', {'init': False})]),
    ('InitVar', [('a', {}), ('iv', {'initvar': True}), ('b', {'default': 1}), ('iw', {'initvar': True, 'default': 2})]),
    ('field named self', [('self', {}), ('a', {'default': 3})]),
    ('no fields', []),
    ('default before non-default', [('a', {'default': 1}), ('b', {})]),
    ('init=False default before non-default', [('a', {'init': False, 'default': 1}), ('b', {})]),
    ('default before init=False non-default', [('a', {'default': 1}), ('b', {'init': False})]),
    ('factory before non-default', [('a', {'factory': True}), ('b', {})]),
]


def _std(B, cfg, kw_only, post_init):
    """-> ('error', text) | ('class', K); post_init: False | True (defined by the class) | 'inherited' (defined by a base class)"""
    ns = {}
    bases = ()

    def __post_init__(self, *args):
        object.__setattr__(self, '_post_init_args', args)
    if post_init == 'inherited':
        bases = (type('Base', (), {'__post_init__': __post_init__}),)
    elif post_init:
        ns['__post_init__'] = __post_init__
    try:
        specs = []
        for name, fl in cfg:
            kw = {k: fl[k] for k in ('init', 'repr', 'compare', 'hash') if fl.get(k) is not None}
            if fl.get('default') is not None:
                kw['default'] = fl['default']
            if fl.get('factory'):
                kw['default_factory'] = B.FACTORY
            specs.append((name, dataclasses.InitVar[int] if fl.get('initvar') else int, dataclasses.field(**kw)))
        return 'class', dataclasses.make_dataclass('K', specs, kw_only=kw_only, namespace=ns, bases=bases)
    except (TypeError, ValueError) as e:
        return 'error', str(e)


def _placeholder_value(B, v):
    if isinstance(v, NS):
        ctor = v.__dict__.get('_ctor')
        if ctor == 'IntNode':
            return int(v.__dict__.get('value'))
        if ctor == 'NameNode' and v.__dict__.get('_factory'):
            return lambda: B.FACTORY()
        if ctor == 'AttributeNode' and v.__dict__.get('attribute') == '_HAS_DEFAULT_FACTORY':
            return SENTINEL
        if ctor == 'NameNode' and v.__dict__.get('name') == 'critical_section':
            return lambda *a: NS('cs')
    return None


def rule_init(model, info, floor=30):
    B = _B()
    r = Rule('C30-INIT', 'the __init__ emitted by generate_init_code for 9 field lists x kw_only x __post_init__: rejected exactly when dataclasses rejects the class; parameter '
             'list equals inspect.signature of the stdlib __init__; evaluated for every subset of omitted defaulted arguments it sets the attributes (and calls '
             '__post_init__ with the arguments) the stdlib __init__ does', floor)
    g = _emitter(info, '__init__')
    caller = _caller_names(info)
    fdef = g['fn']
    seen = {}

    def bad(key, msg):
        seen.setdefault(key, msg)
    for label, cfg in INIT_CONFIGS:
        for kw_only in (False, True):
            for post_init in (False, True):
                what = '@dataclass(%s) with fields [%s]%s' % ('kw_only=True' if kw_only else '', ', '.join(
                    '%s%s' % (n, ('=field(%s)' % ', '.join('%s=%s' % (k, 'list' if k == 'factory' else v) for k, v in sorted(fl.items()))) if fl else '') for n, fl in cfg),
                    ' and a __post_init__ inherited from a base class' if post_init == 'inherited' else ' and a __post_init__' if post_init else '')
                key = 'Dataclass.%s:%s' % (fdef.name, label.replace(' ', '_'))
                r.inst('%s/%s/%s' % (key, kw_only, post_init), sample=what)
                w = Writer(model)
                rec = w.mock()
                wrapper = NS('rec', opaque=False)
                # emit_body wants an object with .mock(), .text(), .opaque
                holder = type('Holder', (), {'mock': lambda self: rec, 'text': lambda self: w.text(), 'opaque': property(lambda self: w.opaque)})()
                try:
                    text, events, _ = B.emit_body(model, g, '__init__', cfg, caller, recorder=holder, explicit={'__post_init__': post_init},
                                                  rv_override={'kw_only': kw_only}, want_events=True)
                except Raised as e:
                    bad(key + ':crash', '%s: generate_init_code raises %s' % (what, e.what))
                    continue
                kind, K = _std(B, cfg, kw_only, post_init)
                cy_error = ('error',) in events
                if (kind == 'error') != cy_error:
                    bad(key + ':rejected', '%s: %s' % (what, ('Cython rejects the class ("non-default argument follows default argument") but dataclasses accepts it' if cy_error else
                                                                'dataclasses rejects the class (%s) but Cython generates an __init__' % K)))
                    continue
                if kind == 'error':
                    if w.text().strip():
                        bad(key + ':rejected', '%s: the class is rejected but __init__ text is still emitted' % what)
                    continue
                try:
                    # Cython's grammar accepts a bare `*` that no parameter follows (kw_only=True without __init__ parameters); Python's does not
                    tree = B.python_of(re.sub(r',\s*\*\s*\)\s*:', '):', text), fdef.name)
                except AnalysisError as e:
                    bad(key + ':text', '%s: the generated __init__ is not valid source: %s' % (what, str(e)[:200]))
                    continue
                fns = [n for n in tree.body if isinstance(n, ast.FunctionDef) and n.name == '__init__']
                if len(fns) != 1:
                    bad(key + ':text', '%s: %d `def __init__` generated' % (what, len(fns)))
                    continue
                f = fns[0]
                sig = inspect.signature(K.__init__)
                want = [(p.name, 'kw' if p.kind is p.KEYWORD_ONLY else 'pos', p.default is not p.empty) for p in list(sig.parameters.values())[1:]]
                a = f.args
                npos = len(a.posonlyargs + a.args)
                pos_defaults = [False] * (npos - len(a.defaults)) + [True] * len(a.defaults)
                got = [(x.arg, 'pos', d) for x, d in zip(a.posonlyargs + a.args, pos_defaults)][1:] + [(x.arg, 'kw', d is not None) for x, d in zip(a.kwonlyargs, a.kw_defaults)]
                if a.vararg or a.kwarg:
                    bad(key + ':signature', '%s: the generated __init__ takes *args/**kwargs' % what)
                    continue
                if got != want:
                    bad(key + ':signature', '%s: generated `def __init__(%s)` has parameters %s, the stdlib dataclass has %s (name, positional/keyword-only, has default)' % (
                        what, ast.unparse(a), got, want))
                    continue
                selfname = (a.posonlyargs + a.args)[0].arg
                std_self = list(sig.parameters)[0]
                if (selfname == 'self') != (std_self == 'self'):
                    bad(key + ':selfname', '%s: the instance parameter is called %r, the stdlib calls it %r (a field named `self` must not clash with it)' % (what, selfname, std_self))
                    continue
                # ---- behaviour: every subset of defaulted parameters omitted
                glob = {}
                unknown = [n for n, v in w.placeholders.items() if _placeholder_value(B, v) is None]
                if unknown:
                    raise AnalysisError('generate_init_code: placeholder value not modelled: %r' % w.placeholders[unknown[0]])
                for n, v in w.placeholders.items():
                    glob[n] = _placeholder_value(B, v)
                params = want
                optional = [p[0] for p in params if p[2]]
                for omit in itertools.chain.from_iterable(itertools.combinations(optional, k) for k in range(len(optional) + 1)):
                    given = {p[0]: 1000 + i for i, p in enumerate(params) if p[0] not in omit}
                    std_obj = K(**given)
                    # attribute-level view: a stdlib field(init=False, default=v) is served by the class attribute, Cython assigns it in __init__ — same observable value
                    stored = [n for n, fl in cfg if not fl.get('initvar')]
                    std_attrs = {n: getattr(std_obj, n) for n in stored if hasattr(std_obj, n)}
                    if post_init:
                        std_attrs['_post_init_args'] = getattr(std_obj, '_post_init_args', '<not called>')
                    post = []
                    me = NS('self', _ctor='Instance')
                    me.__dict__['__post_init__'] = lambda *args: post.append(args)
                    pos_args = [me]
                    call_kw = dict(given)
                    try:
                        res = _call_init(B, tree, '__init__', pos_args, call_kw, glob)
                    except AnalysisError as e:
                        bad(key + ':run', '%s: the generated __init__ cannot be evaluated for arguments %s: %s' % (what, given, str(e)[:160]))
                        break
                    cy_attrs = {k: v for k, v in me.__dict__.items() if not k.startswith('_')}
                    if post_init:
                        cy_attrs['_post_init_args'] = post[0] if len(post) == 1 else ('<not called>' if not post else 'called %d times' % len(post))
                    elif post:
                        cy_attrs['_post_init_args'] = 'called although the class has no __post_init__'
                    if _norm(cy_attrs) != _norm(std_attrs):
                        bad(key + ':behaviour', '%s, called with %s: the generated __init__ leaves the instance with %s, the stdlib dataclass with %s' % (
                            what, given or 'no arguments', _show(cy_attrs), _show(std_attrs)))
                        break
    for key, msg in sorted(seen.items()):
        r.violate(key, model.rel, fdef.lineno, msg)
    r.positive_control(_std(B, [('a', {'default': 1}), ('b', {})], False, False)[0] == 'error' and _std(B, [('a', {'init': False, 'default': 1}), ('b', {})], False, False)[0] == 'class',
                       'the reference rejects a non-default after a default but not after an init=False default')
    return r


def _norm(d):
    return {k: (tuple(v) if isinstance(v, list) else v) for k, v in d.items()}


def _show(d):
    return '{%s}' % ', '.join('%s=%r' % kv for kv in sorted(d.items()))


def _call_init(B, tree, name, args, kwargs, extra_globals):
    g = {'getattr': B._safe_getattr, 'hash': lambda t: ('HASH', t), 'id': lambda o: id(o)}
    g.update(extra_globals)
    try:
        it = MiniPy(g, max_steps=10 ** 6)
        env = Env(None, it.globals)
        it.exec_block(tree.body, env)
        f = env.get(name)
        if not isinstance(f, Closure):
            raise AnalysisError('no function %s' % name)
        return it.call_closure(f, args, kwargs)
    except Stopped as s:
        raise AnalysisError(s.why)
    except Unsupported as e:
        raise AnalysisError(str(e))
    except Raised as e:
        raise AnalysisError('raises %s' % e.what)


# ====================================================================================================== C30-IVAR
def rule_initvar(model, info, floor=14):
    B = _B()
    r = Rule('C30-IVAR', 'InitVar pseudo-fields (declared `x: InitVar[int]`, never stored on the instance) are left out of the generated __repr__, __eq__, the ordering '
             'methods and __hash__, as in the stdlib: the generated methods evaluated on an instance that has no such attribute give the stdlib results', floor)
    caller = _caller_names(info)
    cfg = [('a', {}), ('b', {}), ('iv', {'initvar': True, 'default': 9})]
    K = B.std_class(cfg, order=True, unsafe_hash=True)
    K.__qualname__ = 'Outer.K'      # the mock instance's type is a nested class as well
    seen = {}

    class Missing(Exception):
        pass

    def instance(label, a, b, cls_token):
        o = NS(label, a=a, b=b, **{'__class__': cls_token})

        def ga(name):
            raise Raised("AttributeError: instance has no attribute %r" % name)
        o.__dict__['_getattr'] = ga
        return o
    ops = {'__eq__': lambda x, y: x == y, '__lt__': lambda x, y: x < y, '__le__': lambda x, y: x <= y, '__gt__': lambda x, y: x > y, '__ge__': lambda x, y: x >= y}
    trees = {}
    for method in ['__repr__', '__hash__'] + list(ops):
        g = _emitter(info, method)
        if id(g) not in trees or method not in trees[id(g)][1]:
            text = B.emit_body(model, g, method, cfg, caller)
            trees.setdefault(id(g), (B.python_of(text, g['fn'].name), set()))[1].add(method)
            trees[id(g)] = (B.python_of(text, g['fn'].name), trees[id(g)][1])
        tree = trees[id(g)][0]
        key = 'Dataclass.%s:InitVar:%s' % (g['fn'].name, method)
        tok = NS('class K')
        cases = [((1, 2), (1, 2)), ((1, 2), (1, 3)), ((2, 0), (1, 5))] if method in ops else [((1, 2), None)]
        for v1, v2 in cases:
            r.inst('%s:%s%s' % (key, v1, v2), sample='%s on K%s' % (method, v1))
            a = instance('self', v1[0], v1[1], tok)
            args = [a] + ([instance('other', v2[0], v2[1], tok)] if v2 else [])
            try:
                res = B.run_generated(tree, method, args)
            except Raised as e:
                seen.setdefault(key, (g['fn'].lineno, 'the generated %s of a dataclass with an InitVar field raises %s: InitVar pseudo-fields are not stored on the instance and must not be used' % (method, e.what)))
                continue
            except AnalysisError as e:
                if 'AttributeError' in str(e) or 'does not model' in str(e):
                    seen.setdefault(key, (g['fn'].lineno, 'the generated %s of a dataclass with fields a, b, iv: InitVar reads the InitVar pseudo-field from the instance (%s)' % (method, str(e)[:120])))
                    continue
                raise
            if method in ops:
                want = ops[method](K(v1[0], v1[1], 9), K(v2[0], v2[1], 9))
                ok = res is want
            elif method == '__repr__':
                want = repr(K(v1[0], v1[1], 9))
                ok = res == want
            else:
                want = ('HASH', (v1[0], v1[1]))
                ok = res == want
            if not ok:
                seen.setdefault(key, (g['fn'].lineno, 'the generated %s of a dataclass with fields a, b, iv: InitVar gives %r for K%s%s, the stdlib dataclass gives %r' % (
                    method, res, v1, (' vs K%s' % (v2,)) if v2 else '', want)))
    for key, (line, msg) in sorted(seen.items()):
        r.violate(key, model.rel, line, msg)
    r.positive_control('iv' not in repr(K(1, 2, 9)) and hash(K(1, 2, 9)) == hash(K(1, 2, 8)), 'the reference ignores InitVar pseudo-fields in repr and hash')
    return r


# ====================================================================================================== C30-FIELDS
def _unhashable(t):
    return getattr(t, '__hash__', None) is None


def mutable_default_table(sym, run_fields, entry):
    """[(builtin type name, errors Cython reports for a default of that type, dataclasses rejects it)]"""
    import builtins
    names = {v: k for k, v in sym.builtin_type_names.items()}
    out = []
    for pyname in ('list', 'dict', 'set', 'bytearray', 'frozenset', 'tuple', 'int', 'float', 'str', 'bytes', 'complex'):
        t = getattr(builtins, pyname, None)
        if not isinstance(t, type) or pyname not in names:
            continue
        assignment = NS('default_' + pyname, _ctor='MockExpr', type=sym.builtin_token(pyname), pos='POSD')
        res, errs, node = run_fields([entry('a', 1)], {'a': assignment})
        out.append((pyname, errs, _unhashable(t)))
    if len(out) < 6:
        raise AnalysisError('only %d builtin types could be tried as default values' % len(out))
    return out


def rule_mutable_complete(ctx, floor=3):
    """pending finding (FINDING_2): `a: bytearray = bytearray(...)` is accepted by the unmodified tree, dataclasses rejects it"""
    r = Rule('C30-MUTDEF', 'every builtin type whose instances are unhashable is rejected as a dataclass field default, as dataclasses does (mutable default)', floor)
    env = {}
    rule_fields(ctx, _export=env)
    sym, run_fields, entry, pf = env['sym'], env['run_fields'], env['entry'], env['pf']
    for pyname, errs, want in mutable_default_table(sym, run_fields, entry):
        if not want:
            continue
        key = 'Dataclass.process_class_get_fields:mutable-default:%s' % pyname
        r.inst(key, sample='a: %s = %s() -> %d error(s)' % (pyname, pyname, len(errs)))
        if not errs:
            r.violate(key, sym.m.rel, pf.lineno, 'a default value of builtin type %s is accepted by Cython; dataclasses raises "mutable default <class %r> for field a is not allowed: use '
                      'default_factory" because the class is unhashable: every instance shares one mutable object' % (pyname, pyname))
    r.positive_control(_unhashable(bytearray) and not _unhashable(bytes), 'bytearray is unhashable, bytes is not')
    return r


def rule_fields(ctx, floor=26, _export=None):
    import builtins
    from . import sC31 as S
    r = Rule('C30-FIELDS', 'process_class_get_fields / _set_up_dataclass_fields evaluated on mock entries: fields inherited from a base dataclass are copied, never shared with the '
             'base; field(default=) or field(default_factory=) alone are accepted, both together rejected; a default whose builtin class is unhashable is rejected like '
             'dataclasses does ("mutable default"); __dataclass_fields__[name]._field_type is _FIELD_INITVAR exactly for InitVar fields', floor)
    sym = S.Sym(ctx, 'Dataclass')
    sym.glob['OrderedDict'] = dict
    sym.glob['dedent'] = textwrap.dedent
    pf = sym.m.functions.get('process_class_get_fields')
    sf = sym.m.functions.get('_set_up_dataclass_fields')
    if pf is None or sf is None:
        raise AnalysisError('Dataclass.process_class_get_fields / _set_up_dataclass_fields vanished')
    call_cls = sym.ix.cls('ExprNodes', 'GeneralCallNode')
    if call_cls is None:
        raise AnalysisError('ExprNodes.GeneralCallNode vanished')

    def entry(name, i, initvar=False):
        return NS('entry_' + name, _ctor='MockEntry', name=name, pos=i, visibility='public', annotation=NS('ann', string=NS('annstr_' + name, _ctor='MockString')),
                  declared_with_pytyping_modifier=lambda m, initvar=initvar: initvar and m == 'dataclasses.InitVar')

    def field_call(**kw):
        kwargs = NS('kwargs', _ctor='DictNode', _cls=sym.ix.cls('ExprNodes', 'DictNode'), as_python_dict=lambda: dict(kw))
        kwargs.__dict__['_getattr'] = lambda n: OPQ
        o = NS('field_call', _ctor='GeneralCallNode', _cls=call_cls, pos='POSF', keyword_args=kwargs,
               positional_args=NS('targs', _ctor='TupleNode', _cls=sym.ix.cls('ExprNodes', 'TupleNode'), args=[]),
               function=NS('fn', as_cython_attribute=lambda: 'dataclasses.field'))
        return o

    def run_fields(entries, removed, base_fields=None):
        transform = S.CNS('transform', _ctor='RemoveAssignmentsToNames', removed_assignments=dict(removed))
        sym.intercept = {'RemoveAssignmentsToNames': lambda a, k: transform}
        base = None
        if base_fields is not None:
            base = NS('base', _ctor='MockBaseType', is_external=False, scope=NS('bscope', implemented=True), dataclass_fields=base_fields, base_type=None)
        node = NS('node', _ctor='MockClassDef', pos='POS', scope=NS('scope', _ctor='MockScope', var_entries=list(entries)), base_type=base,
                  entry=NS('centry', type=NS('ctype', _ctor='MockClassType')))
        sym.errors = []
        try:
            res = sym.run('Dataclass.process_class_get_fields', pf, [node])
        finally:
            sym.intercept = {}
        return res, list(sym.errors), node
    if _export is not None:
        _export.update(sym=sym, run_fields=run_fields, entry=entry, pf=pf)
        return None
    # ---- inherited fields are copied
    base_field = NS('base_field_x', _ctor='Field')
    base_fields = {'x': base_field}
    res, errs, node = run_fields([entry('y', 1)], {}, base_fields)
    key = 'Dataclass.process_class_get_fields:inherited-fields'
    r.inst(key, sample='derived class with field y, base fields {x}: result %s, base afterwards %s' % (sorted(res) if isinstance(res, dict) else res, sorted(base_fields)))
    if not isinstance(res, dict) or sorted(res) != ['x', 'y']:
        r.violate(key, sym.m.rel, pf.lineno, 'a dataclass deriving from a dataclass with field x and declaring y gets the fields %r, expected x and y' % (sorted(res) if isinstance(res, dict) else res,))
    elif sorted(base_fields) != ['x'] or res is base_fields:
        r.violate(key, sym.m.rel, pf.lineno, 'process_class_get_fields adds the fields of a derived dataclass to the field dict OBJECT of its base class (afterwards the base has %s): '
                  'the base class and every sibling subclass processed later see fields they do not have (__init__ signature, __eq__, __dataclass_fields__)' % sorted(base_fields))
    # ---- flags recorded on the Field objects
    priv = entry('p', 3)
    priv.__dict__['visibility'] = 'private'
    res, errs, node = run_fields([entry('a', 1), entry('iv', 2, initvar=True), priv], {})
    for name, want_iv, want_priv in (('a', False, False), ('iv', True, False), ('p', False, True)):
        key = 'Dataclass.process_class_get_fields:flags:%s' % {'a': 'plain', 'iv': 'InitVar', 'p': 'private'}[name]
        fobj = res.get(name) if isinstance(res, dict) else None
        got_iv = fobj.__dict__.get('is_initvar') if isinstance(fobj, NS) else None
        got_priv = (fobj.__dict__['private'] if 'private' in fobj.__dict__ else S.Sym._getattr(sym, fobj, 'private')) if isinstance(fobj, NS) else None
        r.inst(key, sample='%s: is_initvar=%r private=%r' % (name, got_iv, got_priv))
        if fobj is None:
            r.violate(key, sym.m.rel, pf.lineno, 'the %s field %r is missing from the collected fields' % (key.rsplit(':', 1)[1], name))
        elif bool(got_iv) != want_iv or got_iv is OPQ:
            r.violate(key, sym.m.rel, pf.lineno, 'field %r declared %s is recorded with is_initvar=%r: %s' % (
                name, 'as `InitVar[int]`' if want_iv else 'as an ordinary attribute', got_iv,
                'the pseudo-field is stored, compared and printed like a real field' if want_iv else 'the field is dropped from the instance state'))
        elif got_priv is OPQ or bool(got_priv) != want_priv:
            r.violate(key, sym.m.rel, pf.lineno, 'field %r with visibility %r is recorded with private=%r: %s' % (
                name, 'private' if want_priv else 'public', got_priv, 'public fields vanish from __dataclass_fields__' if not want_priv else 'private C attributes are published'))
    # ---- field(...) keywords: unknown ones are rejected like dataclasses.field does (TypeError there, compile error here)
    fc = sym.cls('Field')
    f_init = sym.method(fc, '__init__')[1]
    for label, kw in (('known keywords', {'repr': NS('BoolNode', _ctor='BoolNode', is_literal=True, value=False, pos='P')}),
                      ('unknown keyword', {'bogus': NS('BoolNode', _ctor='BoolNode', is_literal=True, value=False, pos='P')})):
        sym.errors = []
        sym.run('Dataclass.Field.__init__', f_init, [sym.obj(fc), 'POS'], kw)
        try:
            dataclasses.field(**{k: False for k in kw})
            std_err = False
        except TypeError:
            std_err = True
        key = 'Dataclass.Field.__init__:%s' % label.replace(' ', '_')
        r.inst(key, sample='field(%s=...) -> %d error(s); dataclasses.field raises: %s' % (', '.join(kw), len(sym.errors), std_err))
        if bool(sym.errors) != std_err:
            r.violate(key, sym.m.rel, f_init.lineno, 'cython.dataclasses.field(%s=...) %s, dataclasses.field %s' % (
                ', '.join(kw), 'is rejected' if sym.errors else 'is accepted silently', 'raises TypeError' if std_err else 'accepts it'))
    # ---- the `name: T = default` statement is taken out of the class body (it would otherwise assign a class attribute)
    rc = sym.cls('RemoveAssignmentsToNames')
    f_vis = sym.method(rc, 'visit_SingleAssignmentNode')[1]
    for fname, is_field in (('a', True), ('other', False)):
        tr = sym.obj(rc, names=['a', 'b'], removed_assignments={})
        rhs = NS('rhs', _ctor='MockExpr')
        stmt = NS('assign', _ctor='SingleAssignmentNode', pos='P', lhs=NS('lhs', is_name=True, name=fname), rhs=rhs)
        res = sym.run('RemoveAssignmentsToNames.visit_SingleAssignmentNode', f_vis, [tr, stmt])
        key = 'Dataclass.RemoveAssignmentsToNames.visit_SingleAssignmentNode:%s' % ('field' if is_field else 'other-name')
        recorded = tr.__dict__.get('removed_assignments', {}).get(fname) is rhs
        r.inst(key, sample='assignment to %s -> %s, recorded as default: %s' % (fname, 'removed' if res == [] else 'kept', recorded))
        if is_field and (res != [] or not recorded):
            r.violate(key, sym.m.rel, f_vis.lineno, 'the class-body statement `a: T = <default>` of a dataclass field is %s and %s as the field default: the default must be recorded and the '
                      'statement removed (a cdef class cannot assign a class attribute named like its C attribute)' % ('kept' if res != [] else 'removed', 'recorded' if recorded else 'not recorded'))
        if not is_field and (res is not stmt or recorded):
            r.violate(key, sym.m.rel, f_vis.lineno, 'an assignment to a name that is no dataclass field is %s' % ('removed from the class body' if res is not stmt else 'recorded as a default'))
    # ---- default / default_factory
    dnode = NS('default_node', _ctor='IntNode', type=NS('t_int'))
    fnode = NS('factory_node', _ctor='NameNode')
    for label, kw, want_error in (('default only', {'default': dnode}, False), ('default_factory only', {'default_factory': fnode}, False),
                                  ('default and default_factory', {'default': dnode, 'default_factory': fnode}, True), ('neither', {}, False)):
        res, errs, node = run_fields([entry('a', 1)], {'a': field_call(**kw)})
        key = 'Dataclass.process_class_get_fields:field(%s)' % label.replace(' ', '_')
        r.inst(key, sample='a = field(%s) -> %d error(s)' % (label, len(errs)))
        try:
            dataclasses.field(**{k: (0 if k == 'default' else list) for k in kw})
            std_error = False
        except ValueError:
            std_error = True
        if std_error != want_error:
            raise AnalysisError('reference dataclasses.field disagrees with the expected table for %s' % label)
        if bool(errs) != want_error:
            r.violate(key, sym.m.rel, pf.lineno, '`a: int = field(%s)`: Cython %s, dataclasses.field %s' % (
                ', '.join('%s=...' % k for k in kw), 'reports an error (%s)' % errs[0][:80] if errs else 'accepts it', 'raises ValueError' if want_error else 'accepts it'))
        elif not want_error and isinstance(res, dict) and 'a' in res:
            fobj = res['a']
            got = {k for k in ('default', 'default_factory') if isinstance(fobj, NS) and k in fobj.__dict__ and fobj.__dict__[k] is kw.get(k)}
            if got != set(kw):
                r.violate(key + ':stored', sym.m.rel, pf.lineno, '`a: int = field(%s)`: the Field object records %s' % (', '.join(kw), sorted(got)))
    # ---- mutable defaults.  Registered part: whatever Cython rejects is unhashable (no valid class is refused) and the three types the dataclasses documentation
    # names (list, dict, set) are rejected.  The converse for EVERY unhashable builtin type is rule_mutable_complete (pending finding: bytearray).
    for pyname, errs, want in mutable_default_table(sym, run_fields, entry):
        key = 'Dataclass.process_class_get_fields:mutable-default:%s' % pyname
        r.inst(key, sample='a: %s = %s() -> %d error(s); dataclasses rejects: %s' % (pyname, pyname, len(errs), want))
        if errs and not want:
            r.violate(key, sym.m.rel, pf.lineno, 'a default value of builtin type %s is rejected by Cython ("mutable default"), dataclasses accepts it (its class is hashable): a valid '
                      'class does not compile' % pyname)
        elif want and not errs and pyname in ('list', 'dict', 'set'):
            r.violate(key, sym.m.rel, pf.lineno, 'a default value of builtin type %s is accepted by Cython; dataclasses raises "mutable default <class %r> ... is not allowed: use '
                      'default_factory": every instance shares one mutable object' % (pyname, pyname))
    # ---- _field_type
    recorded = {}

    def tree_fragment(args, kw):
        frag = S.CNS('TreeFragment', _ctor='TreeFragment', text=args[0] if args else None)

        def substitute(ph=None, *a, **k):
            recorded['text'], recorded['placeholders'] = frag.__dict__.get('text'), ph
            return S.CNS('tree', _ctor='MockTree', stats=[])
        frag.__dict__['substitute'] = substitute
        return frag
    MISSING = sym.glob.get('MISSING')
    fields = {}
    for name, iv in (('a', False), ('iv', True), ('b', False), ('hidden', False)):
        fields[name] = NS('field_' + name, _ctor='Field', private=(name == 'hidden'), default=MISSING, default_factory=MISSING, is_initvar=iv, is_classvar=False,
                          iterate_record_node_arguments=lambda: [])
    node = NS('node', _ctor='MockClassDef', pos='POS', class_name='K', scope=NS('scope', _ctor='MockScope', entries={n: entry(n, i) for i, n in enumerate(fields)}))
    sym.intercept = {'TreeFragment': tree_fragment}
    try:
        sym.run('Dataclass._set_up_dataclass_fields', sf, [node, fields, NS('dcmodule', _ctor='MockModule')])
    finally:
        sym.intercept = {}
    text, ph = recorded.get('text'), recorded.get('placeholders')
    if not isinstance(text, str) or not isinstance(ph, dict):
        raise AnalysisError('_set_up_dataclass_fields: the TreeFragment text / placeholders of the __dataclass_fields__ assignments could not be determined')
    r.inst('Dataclass._set_up_dataclass_fields:private-field', sample='private C attribute published: %s' % ("'hidden'" in text or '"hidden"' in text))
    if "'hidden'" in text or '"hidden"' in text:
        r.violate('Dataclass._set_up_dataclass_fields:private-field', sym.m.rel, sf.lineno, 'a private C attribute (cdef, not public) of a dataclass is published in __dataclass_fields__: '
                  'dataclasses.fields()/asdict() list an attribute Python code cannot read')
    for name in [n for n in fields if n != 'hidden']:
        key = 'Dataclass._set_up_dataclass_fields:name-and-type'
        mn = re.search(r'__dataclass_fields__\[\s*[\'"]%s[\'"]\s*\]\.name\s*=\s*(.+)' % name, text)
        mt = re.search(r'__dataclass_fields__\[\s*[\'"]%s[\'"]\s*\]\.type\s*=\s*(\w+)' % name, text)
        tval = ph.get(mt.group(1)) if mt else None
        r.inst('%s:%s' % (key, name), sample='%s: .name = %s, .type = %r' % (name, mn.group(1).strip() if mn else None, tval))
        if not mn or mn.group(1).strip().strip('\'"') != name:
            r.violate(key + ':name', sym.m.rel, sf.lineno, '__dataclass_fields__[%r].name is set to %s' % (name, mn.group(1).strip() if mn else 'nothing'))
        elif not (isinstance(tval, NS) and tval.__dict__.get('_name') == 'annstr_' + name):
            r.violate(key + ':type', sym.m.rel, sf.lineno, '__dataclass_fields__[%r].type is set to %r instead of the annotation of field %s: dataclasses.fields(K)[i].type is wrong' % (name, tval, name))
    ref = dataclasses.make_dataclass('K', [('a', int), ('iv', dataclasses.InitVar[int]), ('b', int)])
    for name, iv in (('a', False), ('iv', True), ('b', False)):
        m = re.search(r'__dataclass_fields__\[\s*[\'"]%s[\'"]\s*\]\._field_type\s*=\s*(\w+)' % name, text)
        key = 'Dataclass._set_up_dataclass_fields:_field_type:%s' % ('InitVar' if iv else 'field')
        got = ph.get(m.group(1)) if m else None
        attr = got.__dict__.get('attribute') if isinstance(got, NS) else None
        want = ref.__dataclass_fields__[name]._field_type.name
        r.inst(key + ':' + name, sample='%s: _field_type = dataclasses.%s (stdlib: %s)' % (name, attr, want))
        if attr != want:
            r.violate(key, sym.m.rel, sf.lineno, '__dataclass_fields__[%r]._field_type of a cdef dataclass is set to dataclasses.%s, the stdlib marks %s as %s: dataclasses.fields(), asdict() '
                      'and replace() %s' % (name, attr, 'an InitVar pseudo-field' if iv else 'an ordinary field', want, 'list the InitVar / skip the real fields'))
    r.positive_control(_unhashable(list) and _unhashable(set) and not _unhashable(tuple) and ref.__dataclass_fields__['iv']._field_type.name == '_FIELD_INITVAR',
                       'reference: list/set unhashable, tuple hashable; InitVar fields are _FIELD_INITVAR')
    return r


# ====================================================================================================== C30-HASH1 (tuple form of the hashed value)
def rule_hash_shape(model, info, floor=7):
    B = _B()
    r = Rule('C30-HASH1', 'the generated __hash__ hashes a TUPLE of the field values for 0, 1 and 2 hashed fields (hash((a,)) differs from hash(a)), as the stdlib does', floor)
    caller = _caller_names(info)
    g = _emitter(info, '__hash__')
    for names in ([], ['a'], ['a', 'b']):
        cfg = [(n, {}) for n in names]
        text = B.emit_body(model, g, '__hash__', cfg, caller)
        tree = B.python_of(text, g['fn'].name)
        vals = {n: 10 + i for i, n in enumerate(names)}
        res = B.run_generated(tree, '__hash__', [NS('self', **vals)])
        key = 'Dataclass.%s:tuple-form:%d' % (g['fn'].name, len(names))
        want = ('HASH', tuple(vals[n] for n in names))
        r.inst(key, sample='%d field(s): hashes %r' % (len(names), res[1] if isinstance(res, tuple) and len(res) == 2 else res))
        if res != want:
            K = B.std_class(cfg, unsafe_hash=True)
            r.violate(key, model.rel, g['fn'].lineno, 'the generated __hash__ of a dataclass with %d field(s) computes hash(%r), the stdlib computes hash(%r) = %d: equal instances of the '
                      'compiled and the stdlib class hash differently' % (len(names), res[1] if isinstance(res, tuple) and len(res) == 2 else res, want[1], hash(K(*want[1]))))
    gm = _emitter(info, '__match_args__')
    for names in (['a'], ['a', 'b']):
        text = B.emit_body(model, gm, '__match_args__', [(n, {}) for n in names], caller)
        tree = B.python_of(text, gm['fn'].name)
        val = None
        for st in tree.body:
            if isinstance(st, ast.Assign) and isinstance(st.targets[0], ast.Name) and st.targets[0].id == '__match_args__':
                val = st.value
        key = 'Dataclass.%s:tuple-form:%d' % (gm['fn'].name, len(names))
        r.inst(key, sample='__match_args__ for %d field(s): %s' % (len(names), ast.unparse(val) if val is not None else None))
        if not isinstance(val, ast.Tuple):
            r.violate(key, model.rel, gm['fn'].lineno, '__match_args__ of a dataclass with fields %s is generated as `%s`, not as a tuple: class patterns with positional sub-patterns '
                      'raise TypeError ("__match_args__ must be a tuple")' % (names, ast.unparse(val) if val is not None else None))
    # ---- definition order (not name order) for fields whose names are not alphabetical
    cfg = [('z', {}), ('a', {})]
    K = B.std_class(cfg, order=True, unsafe_hash=True)
    K.__qualname__ = 'Outer.K'
    tok = NS('class K')
    for method in ('__repr__', '__hash__', '__lt__'):
        gg = _emitter(info, method)
        tree = B.python_of(B.emit_body(model, gg, method, cfg, caller), gg['fn'].name)
        key = 'Dataclass.%s:definition-order:%s' % (gg['fn'].name, method)
        if method == '__lt__':
            a = NS('self', z=1, a=2, **{'__class__': tok})
            b = NS('other', z=2, a=1, **{'__class__': tok})
            got, want = B.run_generated(tree, method, [a, b]), K(1, 2) < K(2, 1)
            ok = got is want
        elif method == '__hash__':
            got, want = B.run_generated(tree, method, [NS('self', z=1, a=2)]), ('HASH', (1, 2))
            ok = got == want
        else:
            got, want = B.run_generated(tree, method, [NS('self', z=1, a=2)]), repr(K(1, 2))
            ok = got == want
        r.inst(key, sample='fields z, a: %s -> %r' % (method, got))
        if not ok:
            r.violate(key, model.rel, gg['fn'].lineno, 'dataclass with the fields z, a (in this order): the generated %s gives %r, the stdlib gives %r — fields must be used in definition '
                      'order, not sorted by name' % (method, got, want))
    r.positive_control(hash((5,)) != hash(5), 'hash of a 1-tuple differs from the hash of its element')
    return r


# ====================================================================================================== C30-FROZEN
def _find_if(fn, needle):
    """the innermost `if` of fn whose test mentions needle (constant or attribute name)"""
    best = None
    for n in ast.walk(fn):
        if isinstance(n, ast.If):
            hit = any((isinstance(x, ast.Constant) and x.value == needle) or (isinstance(x, ast.Attribute) and x.attr == needle) for x in ast.walk(n.test))
            if hit:
                best = n
    return best


def rule_frozen(ctx, floor=7):
    from . import sC31 as S
    r = Rule('C30-FROZEN', '@dataclass(frozen=True) reaches the attribute declarations: the class scope is marked "frozen" exactly for a literal frozen=True, and annotated '
             'attributes of a dataclass scope are declared readonly exactly when the scope is marked "frozen", public otherwise (the two statement blocks are '
             'evaluated by the checker)', floor)
    ix = ctx.index
    # ---- writer: CClassDefNode marks the scope
    sn = S.Sym(ctx, 'Nodes')
    cc = sn.cls('CClassDefNode')
    writer = None
    for name, fn in cc.methods.items():
        blk = _find_if(fn, 'dataclasses.dataclass')
        if blk is not None and any(isinstance(x, ast.Attribute) and x.attr == 'is_c_dataclass_scope' and isinstance(x.ctx, ast.Store) for x in ast.walk(blk)):
            writer = (name, fn, blk)
    if writer is None:
        raise AnalysisError('Nodes.CClassDefNode: the block that sets scope.is_c_dataclass_scope from the dataclass decorator arguments was not found')
    name, fn, blk = writer
    store = next(x for x in ast.walk(blk) if isinstance(x, ast.Attribute) and x.attr == 'is_c_dataclass_scope' and isinstance(x.ctx, ast.Store))
    scope_var = store.value.id if isinstance(store.value, ast.Name) else None
    if scope_var is None:
        raise AnalysisError('Nodes.CClassDefNode.%s: is_c_dataclass_scope is not stored on a local scope variable' % name)
    for label, config, want in (('frozen=True', ([], {'frozen': NS('BoolNode', _ctor='BoolNode', is_literal=True, value=True)}), 'frozen'),
                                ('frozen=False', ([], {'frozen': NS('BoolNode', _ctor='BoolNode', is_literal=True, value=False)}), True),
                                ('no arguments', None, True), ('other arguments only', ([], {'order': NS('BoolNode', _ctor='BoolNode', is_literal=True, value=True)}), True)):
        scope = NS('scope', _ctor='MockScope', directives={'dataclasses.dataclass': config})
        it = S.Interp(sn.glob, hook=sn.hook)
        it.sym = sn
        env = S.Env(None, it.globals)
        env.set(scope_var, scope)
        env.set('self', sn.obj(cc))
        try:
            it.exec_block([blk], env)
        except (S.Stopped, S.Unsupported, S.Raised) as e:
            raise AnalysisError('Nodes.CClassDefNode.%s: the dataclass block cannot be evaluated for %s (%s)' % (name, label, getattr(e, 'why', getattr(e, 'what', e))))
        got = scope.__dict__.get('is_c_dataclass_scope')
        key = 'Nodes.CClassDefNode.%s:scope-mark:%s' % (name, label.replace(' ', '_'))
        r.inst(key, sample='@dataclass(%s) -> scope.is_c_dataclass_scope = %r' % (label, got))
        if got != want or (want is True and got is not True):
            r.violate(key, sn.m.rel, blk.lineno, '@cython.dataclasses.dataclass(%s): the class scope is marked %r, expected %r — %s' % (
                label, got, want, 'a frozen dataclass stays writable' if want == 'frozen' else 'a normal dataclass becomes read-only'))
    # ---- reader: the declaration of an annotated attribute picks the visibility
    se = S.Sym(ctx, 'ExprNodes')
    reader = None
    for c in se.m.classes.values():
        for mname, fn in c.methods.items():
            blk = _find_if(fn, 'is_c_dataclass_scope')
            if blk is not None and any(isinstance(x, ast.Name) and x.id == 'visibility' and isinstance(x.ctx, ast.Store) for x in ast.walk(blk)):
                reader = (c, mname, fn, blk)
    if reader is None:
        raise AnalysisError('ExprNodes: the block that chooses the visibility of an annotated attribute from env.is_c_dataclass_scope was not found')
    c, mname, fn, blk = reader
    env_var = next((x.value.id for x in ast.walk(blk.test) if isinstance(x, ast.Attribute) and x.attr == 'is_c_dataclass_scope' and isinstance(x.value, ast.Name)), None)
    type_vars = sorted({x.value.id for x in ast.walk(blk) if isinstance(x, ast.Attribute) and x.attr in ('is_pyobject', 'can_coerce_to_pyobject') and isinstance(x.value, ast.Name)})
    if env_var is None or len(type_vars) != 1:
        raise AnalysisError('ExprNodes.%s.%s: cannot tell the scope / type variables of the visibility block' % (c.name, mname))
    for mark, want in (('frozen', 'readonly'), (True, 'public'), (False, 'private'), (None, 'private')):
        it = S.Interp(se.glob, hook=se.hook)
        it.sym = se
        env = S.Env(None, it.globals)
        env.set(env_var, NS('env', _ctor='MockScope', is_c_dataclass_scope=mark))
        env.set(type_vars[0], NS('atype', _ctor='MockType', is_pyobject=True, can_coerce_to_pyobject=lambda e: True))
        env.set('visibility', 'private')
        try:
            it.exec_block([blk], env)
        except (S.Stopped, S.Unsupported, S.Raised) as e:
            raise AnalysisError('ExprNodes.%s.%s: the visibility block cannot be evaluated (%s)' % (c.name, mname, getattr(e, 'why', getattr(e, 'what', e))))
        got = env.get('visibility')
        key = 'ExprNodes.%s.%s:visibility:%s' % (c.name, mname, mark)
        r.inst(key, sample='scope mark %r -> attribute visibility %r' % (mark, got))
        if got != want:
            r.violate(key, se.m.rel, blk.lineno, 'an annotated attribute declared in a class scope marked is_c_dataclass_scope=%r gets visibility %r, expected %r — %s' % (
                mark, got, want, 'assignment to a field of a frozen dataclass succeeds (dataclasses raises FrozenInstanceError)' if mark == 'frozen' else
                'fields of a normal dataclass cannot be assigned' if mark is True else 'attributes of ordinary cdef classes change visibility'))
    r.positive_control(True, 'both blocks evaluated for every mark')
    return r


# ====================================================================================================== C30-REPRGUARD
def rule_repr_guard(model, info, floor=1):
    from . import sC31 as S
    B = _B()
    r = Rule('C30-REPRGUARD', 'the generated __repr__ of a dataclass with an object field that can be part of a reference cycle: while the fields are formatted the object is '
             'recorded in the per-thread guard set, a re-entrant call returns "..." (as dataclasses\' _recursive_repr does), and the set is left as it was', floor)
    caller = _caller_names(info)
    g = _emitter(info, '__repr__')
    cyc = NS('type', is_memoryviewslice=False, is_pyobject=True, is_gc_simple=False)
    text = B.emit_body(model, g, '__repr__', [('a', {})], caller, entry_type=cyc)
    tree = B.python_of(text, g['fn'].name)
    key = 'Dataclass.%s:recursion-guard' % g['fn'].name
    if not any(isinstance(n, ast.Try) for n in ast.walk(tree)):
        r.inst(key + ':present')
        r.violate(key + ':present', model.rel, g['fn'].lineno, 'no try/finally recursion guard is generated for a field whose type can take part in a reference cycle: repr() of a '
                  'self-referential instance recurses until RecursionError (the stdlib prints "...")')
        r.positive_control(True, 'guard presence tested')
        return r
    glob = {'__import__': lambda name: NS('module ' + name, local=lambda: NS('thread-local')), 'id': lambda o: 'id(%s)' % getattr(o, '_name', '?'), 'getattr': B._safe_getattr,
            'CS_PLACEHOLDER': lambda *a: NS('cs'),
            'type': lambda o: NS('type', __qualname__='Outer.K', __name__='K')}

    def run(pre_populated):
        it = S.Interp(glob, max_steps=100000)
        env = S.Env(None, it.globals)
        it.exec_block(tree.body, env)
        guard = next((v for v in env.vars.values() if isinstance(v, NS) and isinstance(v.__dict__.get('running'), set)), None)
        if guard is None:
            raise AnalysisError('generated __repr__: the class-level guard object with a `running` set was not found')
        gname = next(k for k, v in env.vars.items() if v is guard)
        snap = []
        me = NS('self')
        me.__dict__[gname] = guard

        def ga(name):
            if name == 'a':
                snap.append('id(self)' in guard.running)
                return 5
            raise Raised('AttributeError: %s' % name)
        me.__dict__['_getattr'] = ga
        if pre_populated:
            guard.running.add('id(self)')
        f = env.get('__repr__')
        if not isinstance(f, Closure):
            raise AnalysisError('generated __repr__ not found')
        before = set(guard.running)
        try:
            res = it.call_closure(f, [me], {})
        except Raised as e:
            return ('raised', e.what), snap, before, set(guard.running)
        except (Stopped, Unsupported) as e:
            raise AnalysisError('generated __repr__ with recursion guard cannot be evaluated: %s' % getattr(e, 'why', e))
        return res, snap, before, set(guard.running)
    res, snap, before, after = run(False)
    r.inst(key + ':recorded', sample='normal call -> %r; object in the guard set while formatting: %s; set afterwards %s' % (res, snap, 'empty' if not after else 'NOT empty'))
    if isinstance(res, tuple) and res and res[0] == 'raised':
        r.violate(key + ':recorded', model.rel, g['fn'].lineno, 'the generated __repr__ raises %s (guard set handling)' % res[1])
    elif snap != [True]:
        r.violate(key + ':recorded', model.rel, g['fn'].lineno, 'while the fields are formatted the object is not in the guard set (%s): a self-referential instance recurses without end' % snap)
    elif after:
        r.violate(key + ':released', model.rel, g['fn'].lineno, 'after __repr__ returned the object is still in the guard set: every later repr() of it prints "..."')
    elif res != 'Outer.K(a=5)':
        r.violate(key + ':text', model.rel, g['fn'].lineno, 'the guarded __repr__ returns %r instead of %r' % (res, 'Outer.K(a=5)'))
    res2, snap2, before2, after2 = run(True)
    r.inst(key + ':re-entry', sample='re-entrant call -> %r' % (res2,))
    if res2 != '...' or snap2:
        r.violate(key + ':re-entry', model.rel, g['fn'].lineno, 'a re-entrant __repr__ call (object already in the guard set) returns %r%s instead of "..."' % (res2, ' after formatting the fields again' if snap2 else ''))
    r.inst(key + ':re-entry-state')
    if res2 == '...' and after2 != before2:
        r.violate(key + ':re-entry-state', model.rel, g['fn'].lineno, 'the re-entrant call removes the object from the guard set of the outer call')
    r.positive_control(True, 'guard evaluated for a normal and a re-entrant call')
    return r


# ====================================================================================================== C30-METHODS
def rule_methods(model, info, floor=8):
    """needs info['gens'][*]['methods'] (filled by rules_GEN)"""
    r = Rule('C30-METHODS', 'every special method / class attribute that dataclasses.dataclass adds when an option is switched on (probed on the running interpreter) can be '
             'emitted by one of the generate_* functions handle_cclass_dataclass calls', floor)
    can = set()
    for g in info['gens']:
        can |= set(g.get('methods', []))
    if not can:
        raise AnalysisError('no generated methods recorded (rules_GEN must run first)')

    def added(**opts):
        base = dict(init=False, repr=False, eq=False, order=False, unsafe_hash=False, frozen=False, match_args=False)
        base.update(opts)
        before = dict(base, **{k: False for k in opts})
        if 'order' in opts:
            base['eq'] = before['eq'] = True

        def members(o):
            K = dataclasses.make_dataclass('K', [('a', int)], **o)
            return {k for k in vars(K) if re.fullmatch(r'__\w+__', k)}
        return members(base) - members(before)
    fn = info['fn']
    for opt in ('init', 'repr', 'eq', 'order', 'unsafe_hash', 'match_args'):
        want = added(**{opt: True}) - {'__dataclass_fields__', '__dataclass_params__', '__doc__', '__annotations__', '__module__', '__dict__', '__weakref__', '__replace__'}
        for mname in sorted(want):
            key = 'Dataclass:method:%s' % mname
            r.inst(key, sample='@dataclass(%s=True) adds %s; generators can emit it: %s' % (opt, mname, mname in can))
            if mname not in can:
                r.violate(key, model.rel, fn.lineno, 'dataclasses.dataclass(%s=True) defines %s, but none of the generate_* functions called by handle_cclass_dataclass can emit it (they '
                          'emit %s): the compiled class lacks the method (e.g. `a >= b` falls back to the reflected operation)' % (opt, mname, sorted(can)))
    r.positive_control('__ge__' in added(order=True) and '__init__' in added(init=True), 'the probe sees __ge__ for order=True and __init__ for init=True')
    return r


# ====================================================================================================== C30-POSTINIT (pending finding)
def rule_postinit_inherited(model, info, floor=2):
    """pending finding (FINDING_4): a __post_init__ defined by a cdef base class is not called by the generated __init__ of the unmodified tree"""
    B = _B()
    r = Rule('C30-POSTINIT', 'the generated __init__ calls __post_init__ also when the method is inherited from a (non-dataclass) base class, as the stdlib does '
             '(hasattr(cls, "__post_init__")): generate_init_code evaluated on a class node whose own scope lacks the method while the scope of its base type has it', floor)
    g = _emitter(info, '__init__')
    caller = _caller_names(info)
    fdef = g['fn']
    cfg = [('a', {'default': 1})]
    for where in ('own class', 'base class', 'nowhere'):
        w = Writer(model)
        rec = w.mock()
        holder = type('Holder', (), {'mock': lambda self: rec, 'text': lambda self: w.text(), 'opaque': property(lambda self: w.opaque)})()
        base_scope = NS('base scope', lookup_here=lambda name: NS('entry') if (where == 'base class' and name == '__post_init__') else None,
                        lookup=lambda name: NS('entry') if (where == 'base class' and name == '__post_init__') else None)
        model.node_extras = {'base_type': NS('base type', scope=base_scope, base_type=None, is_external=False)}
        try:
            text, events, _ = B.emit_body(model, g, '__init__', cfg, caller, recorder=holder, explicit={'__post_init__': True if where == 'own class' else 'base-class' if where == 'base class' else False},
                                          want_events=True)
        finally:
            model.node_extras = {}
        called = '__post_init__(' in text
        if where == 'base class':
            ref_base = type('Base', (), {'__post_init__': lambda self: object.__setattr__(self, '_ran', True)})
            K = dataclasses.make_dataclass('K', [('a', int, dataclasses.field(default=1))], bases=(ref_base,))
            want = getattr(K(), '_ran', False)
        else:
            want = where == 'own class'
        key = 'Dataclass.%s:__post_init__:%s' % (fdef.name, where.replace(' ', '_'))
        r.inst(key, sample='__post_init__ defined by %s -> call %s' % (where, 'emitted' if called else 'not emitted'))
        if called != want:
            r.violate(key, model.rel, fdef.lineno, '__post_init__ defined by %s: the generated __init__ %s it, the stdlib dataclass %s' % (
                where, 'calls' if called else 'does not call', 'calls it' if want else 'does not'))
    r.positive_control(True, 'three placements of __post_init__ evaluated')
    return r
