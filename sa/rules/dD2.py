"""Three C31 rules written after three deviations of the unmodified compiler (match statements).

All three evaluate the node-building methods of Cython/Compiler/MatchCaseNodes.py on mock nodes with the checker's own evaluator
(rules/sC31.Sym on top of rules/pC28.MiniPy: node constructors build inspectable mock objects, methods of the classes under test are
resolved through the class graph of the index; nothing of the repository is imported or executed) and read the utility C of
Cython/Utility/MatchCase.c as text (statement parser of rules/pC17, engine/cguard).  The sub-patterns handed to the methods are objects
of the REAL pattern classes (value / capture / wildcard / OR patterns), never hand-written stand-ins, so that a protocol method a parent
starts to call on its sub-patterns is resolved like every other method.

  C31-TEMPDEF    def-use across the two phases of a case: every temp node (subclass of ExprNodes.TempNode) that the target assignments of a
                 pattern READ is WRITTEN by the comparison node of the same pattern (assignment / assignment expression / an entry of the
                 sub-subject array a run-time helper fills).  Evaluated for every way a pattern can be nested (alone, in a sequence pattern
                 at three positions, as mapping value, as positional / keyword class sub-pattern, as last OR alternative) x every kind of
                 sub-pattern that keeps state between the phases (OR patterns: refutable / irrefutable x binding / not binding / `as` only) plus
                 plain captures.  (deviation: `case [(1 as x) | x]` - the sequence / mapping pattern skipped the comparison node of an
                 irrefutable sub-pattern, the which-alternative temp of the OR pattern was read uninitialised.)
  C31-SELFKW     the positional part of a class pattern does not look at the keyword sub-patterns: (a) the tri-state match_self argument the
                 node hands to the positional helper is -1 or the _Py_TPFLAGS_MATCH_SELF flag of the class, for every builtin type of the flag
                 table / an unknown class x every number of keyword sub-patterns the code can distinguish; (b) in the C helper the parameters
                 whose actual arguments depend on the keyword sub-patterns influence neither the match-self decision, nor a variable derived
                 from it, nor a store through the sub-subject array (they may be handed on to the duplicate-attribute check).
                 (deviation: `case int(x, real=r)` - match_self became 0 whenever keyword patterns were present.)
  C31-DUPGUARD   in the comparison tree of a mapping pattern, a helper that can raise ValueError (the run-time duplicate-key check) is evaluated
                 only after the is-mapping test (a helper testing Py_TPFLAGS_MAPPING) and a length-tested extraction helper (its C body leaves
                 with "no match" for size < nKeys before it looks at a key) evaluated true - in the expression tree (short-circuit `and`,
                 statement order, result refs, if-clauses) or, when the check is called from inside a C helper, behind the size guard of that
                 helper; and it is not made to wait for the comparison of a value sub-pattern (CPython checks the keys before it looks at a
                 value).  (deviation: the check ran first; non-mappings and too-short dicts raised ValueError.)

NOT decided by these rules: whether MatchCaseNode itself evaluates the comparison node (only the pattern classes are evaluated); the order of
the duplicate check relative to the *presence* test of each key (CPython interleaves them); the wording of the TypeError for more than one
positional sub-pattern.
"""
import ast, builtins, itertools, re

from ..core import Rule, AnalysisError
from ..engine import cguard
from . import pC17 as P
from . import sC31 as S
from .pC28 import NS, OPQ

MOD = S.MOD
REL_C = 'Cython/Utility/' + S.CFILE


# ====================================================================================================== mock building (real pattern classes)
class Lab:
    """builds objects of the real pattern classes on which the methods of MatchCaseNodes.py are evaluated"""

    def __init__(self, ctx, sym=None):
        self.ctx = ctx
        self.sym = sym or S.Sym(ctx)
        self.ix = self.sym.ix
        self.n = 0
        temp = self.ix.cls('ExprNodes', 'TempNode')
        if temp is None:
            raise AnalysisError('ExprNodes.TempNode vanished')
        self.temp_base = temp
        for name in ('MatchValuePatternNode', 'MatchAndAssignPatternNode', 'OrPatternNode', 'MatchSequencePatternNode', 'MatchMappingPatternNode', 'ClassPatternNode'):
            self.sym.cls(name)

    def fresh(self, stem):
        self.n += 1
        return '%s%d' % (stem, self.n)

    def name(self, n):
        return NS('name_' + n, _ctor='NameNode', _cls=self.ix.cls('ExprNodes', 'NameNode'), name=n, pos='POS_' + n, is_literal=False)

    def value(self, as_=()):
        lab = self.fresh('lit')
        lit = NS(lab, _ctor='IntNode', _cls=self.ix.cls('ExprNodes', 'IntNode'), is_literal=True, value=lab, constant_result=lab, pos='POS_' + lab)
        lit.__dict__['is_simple'] = lambda: True
        return self.sym.obj('MatchValuePatternNode', pos='POS_' + lab, value=lit, as_targets=[self.name(x) for x in as_])

    def capture(self, n=None, as_=(), star=False):
        return self.sym.obj('MatchAndAssignPatternNode', pos='POS_' + self.fresh('cap'), target=self.name(n) if n else None, as_targets=[self.name(x) for x in as_], is_star=star)

    def or_(self, alts, as_=()):
        return self.sym.obj('OrPatternNode', pos='POS_' + self.fresh('or'), alternatives=list(alts), as_targets=[self.name(x) for x in as_])

    def temp(self, label):
        c = self.sym.cls('AssignableTempNode')
        return NS(label, _ctor=c.name, _cls=c, pos='POS_' + label, is_literal=False)

    def sequence(self, patterns):
        return self.sym.obj('MatchSequencePatternNode', pos='POS_' + self.fresh('seq'), patterns=list(patterns), as_targets=[], length_temp=self.temp(self.fresh('length_temp')))

    def key(self, literal):
        lab = self.fresh('key')
        return NS(lab, _ctor='MockKey', label=lab, is_literal=literal, has_constant_result=lambda: literal, constant_result='const_' + lab, pos='POS_' + lab,
                  analyse_declarations=lambda env: None)

    def mapping(self, keys, values, rest=None):
        return self.sym.obj('MatchMappingPatternNode', pos='POS_' + self.fresh('map'), keys=list(keys), value_patterns=list(values),
                            double_star_capture_target=self.name(rest) if rest else None, as_targets=[])

    def class_(self, positional, keywords, known_type=None):
        cref = NS('class_', _ctor='MockClassRef', type=NS('t'), pos='POSC', clone_node=None)
        return self.sym.obj('ClassPatternNode', pos='POS_' + self.fresh('cls'), class_=cref, positional_patterns=list(positional),
                            keyword_pattern_names=[self.name(k) for k, _ in keywords], keyword_pattern_patterns=[p for _, p in keywords],
                            class_known_type=known_type, as_targets=[])

    def subject(self, **typeflags):
        return S.subject_mock(self.sym, **typeflags)

    def env(self):
        return NS('env', directives={})

    def run(self, obj, meth, args):
        fn = self.sym.method(obj._cls, meth)[1]
        return self.sym.run('%s.%s' % (obj._cls.name, meth), fn, [obj] + list(args)), fn

    def is_temp(self, o):
        c = o.__dict__.get('_cls') if isinstance(o, NS) else None
        return c is not None and self.temp_base in self.ix.mro(c)

    def ctor(self, o):
        return o.__dict__.get('_ctor') if isinstance(o, NS) else None

    def is_a(self, o, module, name):
        """mock object built by the constructor of class `name` (or of a subclass of it)"""
        if not isinstance(o, NS):
            return False
        c = o.__dict__.get('_cls')
        base = self.ix.cls(module, name)
        if c is not None and base is not None:
            return base in self.ix.mro(c)
        return o.__dict__.get('_ctor') == name


def children(o):
    """(attribute name, child) pairs of a mock node, lists flattened; positional constructor arguments are reported as attribute '_pos'"""
    if isinstance(o, NS):
        for k, v in list(o.__dict__.items()):
            if k in ('_cls', '_getattr', '_classinfo', '_mod', '_name', '_ctor', 'pos'):
                continue
            if isinstance(v, (list, tuple)):
                for x in v:
                    if isinstance(x, (NS, list, tuple)):
                        yield k, x
            elif isinstance(v, NS):
                yield k, v
    elif isinstance(o, (list, tuple)):
        for x in o:
            if isinstance(x, (NS, list, tuple)):
                yield '', x


# ====================================================================================================== C31-TEMPDEF
def temp_reads(lab, tree):
    """temp nodes the tree reads: reachable without passing through another temp, in a position other than the target of an assignment"""
    out, seen = {}, set()

    def go(o, attr, parent):
        if isinstance(o, NS):
            if lab.is_temp(o):
                if not (attr == 'lhs' and lab.ctor(parent) in ('SingleAssignmentNode', 'AssignmentExpressionNode')):
                    out[id(o)] = o
                return
            if id(o) in seen:
                return
            seen.add(id(o))
        for k, v in children(o):
            go(v, k if k else attr, o if isinstance(o, NS) else parent)
    go(tree, None, None)
    return out


def temp_writes(lab, tree):
    """temp nodes the tree writes: assignment targets and the entries of a sub-subject array that a run-time helper fills through pointers"""
    out, seen = {}, set()

    def go(o):
        if isinstance(o, NS):
            if id(o) in seen:
                return
            seen.add(id(o))
            if lab.ctor(o) in ('SingleAssignmentNode', 'AssignmentExpressionNode') and lab.is_temp(o.__dict__.get('lhs')):
                out[id(o.lhs)] = o.lhs
            sa = o.__dict__.get('subjects_array')
            if isinstance(sa, list):
                for t in sa:
                    if lab.is_temp(t):
                        out[id(t)] = t
            if lab.is_temp(o):
                return
        for _, v in children(o):
            go(v)
    go(tree)
    return out


def _child_shapes(lab):
    """sub-patterns that keep (or might keep) state between the comparison and the binding phase; each binds exactly the name x (or nothing)"""
    return [
        ('or-irrefutable-binding', '(1 as x) | x', lambda: lab.or_([lab.value(as_='x'), lab.capture('x')]), True),
        ('or-irrefutable-binding3', '(1 as x) | (2 as x) | x', lambda: lab.or_([lab.value(as_='x'), lab.value(as_='x'), lab.capture('x')]), True),
        ('or-refutable-binding', '(1 as x) | (2 as x)', lambda: lab.or_([lab.value(as_='x'), lab.value(as_='x')]), True),
        ('or-irrefutable-plain', '1 | _', lambda: lab.or_([lab.value(), lab.capture(None)]), False),
        ('or-irrefutable-as', '(1 | _) as x', lambda: lab.or_([lab.value(), lab.capture(None)], as_='x'), True),
        ('capture', 'x', lambda: lab.capture('x'), True),
        ('value-as', '1 as x', lambda: lab.value(as_='x'), True),
    ]


def _parents(lab):
    """ways of nesting a sub-pattern: label, source sketch, builder(child) -> (parent object, class the finding is keyed by)"""
    return [
        ('alone', '%s', lambda ch: ch),
        ('sequence-only', '[%s]', lambda ch: lab.sequence([ch])),
        ('sequence-first', '[%s, 2]', lambda ch: lab.sequence([ch, lab.value()])),
        ('sequence-after-star', '[*_, %s]', lambda ch: lab.sequence([lab.capture(None, star=True), ch])),
        ('mapping-value', '{"k": %s}', lambda ch: lab.mapping([lab.key(True)], [ch])),
        ('mapping-value-rest', '{"k": %s, **rest}', lambda ch: lab.mapping([lab.key(True)], [ch], rest='rest')),
        ('class-positional', 'C(%s)', lambda ch: lab.class_([ch], [])),
        ('class-keyword', 'C(a=%s)', lambda ch: lab.class_([], [('a', ch)])),
        ('class-positional-with-keyword', 'C(%s, a=y)', lambda ch: lab.class_([ch], [('a', lab.capture('y'))])),
        ('class-keyword-with-positional', 'C(y, a=%s)', lambda ch: lab.class_([lab.capture('y')], [('a', ch)])),
        ('or-last', '(0 as x) | %s', lambda ch: lab.or_([lab.value(as_='x'), ch])),
    ]


def rule_tempdef(ctx, sym=None, floor=62):
    r = Rule('C31-TEMPDEF', 'every temp node that the target assignments of a pattern read (which alternative of an OR pattern matched, sub-subjects, the length of a '
             'sequence, the **rest dict) is written by the comparison node of the same pattern - for every way of nesting a sub-pattern that keeps state between '
             'the two phases', floor)
    lab = Lab(ctx, sym)
    seen = {}
    for plabel, psketch, pbuild in _parents(lab):
        for clabel, csketch, cbuild, binds in _child_shapes(lab):
            if plabel == 'or-last' and not binds:
                continue        # alternatives must bind the same names
            if plabel == 'or-last' and clabel.startswith('or-irrefutable-as'):
                continue
            child = cbuild()
            top = pbuild(child)
            what = 'case ' + psketch % csketch
            subj = lab.subject()
            if plabel == 'alone':
                assign, f_a = lab.run(top, 'create_target_assignments', [subj, lab.env()])
            else:
                assign, f_a = lab.run(top, 'create_main_pattern_assignment_list', [subj, lab.env()])
            cmp_, f_c = lab.run(top, 'get_comparison_node', [subj, None])
            reads, writes = temp_reads(lab, assign), temp_writes(lab, cmp_)
            if not (isinstance(cmp_, NS)):
                raise AnalysisError('%s.get_comparison_node does not return a node for `%s`' % (top._cls.name, what))
            key = '%s.%s:%s:%s' % (MOD, top._cls.name, plabel, clabel)
            r.inst(key, sample='`%s`: assignments read %d temp(s), the comparison node writes %d' % (what, len(reads), len(writes)), nontrivial=bool(reads))
            missing = [t for i, t in reads.items() if i not in writes]
            if missing:
                # which pattern object owns the temp (for the message)
                owner = None
                for o in S.walk_ns(top):
                    for k, v in o.__dict__.items():
                        if any(v is t for t in missing) and not k.startswith('_'):
                            owner = '%s.%s' % (o.__dict__.get('_ctor'), k)
                ckey = '%s.%s:%s' % (MOD, top._cls.name if plabel != 'alone' else child._cls.name, plabel)
                seen.setdefault(ckey, (f_c.lineno, '`%s`: the target assignments read the temp %s, but the comparison node built by %s.get_comparison_node never assigns it '
                                       '(the sub-pattern\'s own comparison node, which stores it, is left out): the temp is read uninitialised, the captures of the '
                                       'sub-pattern are not bound (UnboundLocalError) or those of the wrong alternative are' % (what, owner or 'of a sub-pattern', top._cls.name)))
    for ckey, (line, msg) in sorted(seen.items()):
        r.violate(ckey, lab.sym.m.rel, line, msg)
    # embedded positive example: a read without a write is seen
    t = lab.temp('demo_temp')
    a = NS('if', _ctor='IfClauseNode', condition=NS('cmp', _ctor='PrimaryCmpNode', operand1=t, operand2=NS('one', _ctor='IntNode', value=1)))
    c = NS('bool', _ctor='BoolNode', value=True)
    c2 = NS('ae', _ctor='AssignmentExpressionNode', lhs=t, rhs=NS('one', _ctor='IntNode', value=1))
    r.positive_control(list(temp_reads(lab, a)) == [id(t)] and not temp_writes(lab, c) and list(temp_writes(lab, c2)) == [id(t)], 'a temp read in an if-clause and never assigned is seen')
    return r


# ====================================================================================================== C helper facts (text level)
SIZE_CALLS = r'(?:PyDict_Size|PyDict_GET_SIZE|PyObject_Length|PyObject_Size|PyMapping_Size|PyMapping_Length|PySequence_Size|PySequence_Length)'
WORD = r'[A-Za-z_]\w*'


def param_name(p):
    m = re.search(r'(%s)\s*(?:\[\s*\])*\s*$' % WORD, p.strip())
    return m.group(1) if m else None


class CFacts:
    """what the functions of MatchCase.c do, as far as the three rules need it; everything is derived from the text of the function bodies"""

    def __init__(self, ctx):
        self.ctx, self.cat = ctx, ctx.cat
        self.funcs = {d.name: d for d in S.c_funcs(ctx)}
        self._raises, self._len = {}, {}

    def resolve(self, name):
        """helper name used in a PythonCapiCallNode -> (definition, number of arguments the forwarding macro injects in front)"""
        if name in self.funcs:
            return self.funcs[name], 0
        macros = [d for d in self.cat.decls.get(name, []) if d.kind == 'macro']
        targets = set()
        for d in macros:
            fw = self.cat.forwarding(d)
            if not fw:
                return None, 0
            args = fw[1]
            if not args or args[-1] != '__VA_ARGS__':
                return None, 0
            targets.add((fw[0], len(args) - 1))
        if len(targets) != 1:
            return None, 0
        callee, injected = targets.pop()
        if callee not in self.funcs:
            return None, 0
        return self.funcs[callee], injected

    def callees(self, d):
        return [n for n in set(re.findall(r'\b(__Pyx_%s)\s*\(' % r'\w+', d.body)) if n != d.name and self.resolve(n)[0] is not None]

    def raises_value_error(self, d, stack=()):
        if d.name not in self._raises:
            if d.name in stack:
                return False
            v = 'PyExc_ValueError' in d.body or any(self.raises_value_error(self.resolve(n)[0], stack + (d.name,)) for n in self.callees(d))
            self._raises[d.name] = v
        return self._raises[d.name]

    def value_error_calls(self, d):
        """[(callee name, offset)] of the calls inside d to functions that can raise ValueError"""
        out = []
        for m in re.finditer(r'\b(__Pyx_\w+)\s*\(', d.body):
            t = self.resolve(m.group(1))[0]
            if t is not None and t.name != d.name and self.raises_value_error(t):
                out.append((m.group(1), m.start()))
        return out

    def tests_mapping_flag(self, d):
        return bool(re.search(r'\bPy_TPFLAGS_MAPPING\b', d.body)) and not re.search(r'\bPy_TPFLAGS_SEQUENCE\b', d.body)

    # ---- "leaves with no-match for size < nKeys before it looks at a key"
    def _size_guard(self, st, int_params, size_vars):
        if st.kind != 'if':
            return False
        cond = re.sub(r'\b(?:unlikely|likely)\b', '', st.text)
        cond = cond.replace('(', ' ').replace(')', ' ').strip()
        m = re.match(r'^(%s)\s*<\s*(%s)$' % (WORD, WORD), cond)
        if not m or m.group(1) not in size_vars or m.group(2) not in int_params:
            return False
        body = P.as_list(st.body)
        return P.terminates(body) and any(s.kind == 'simple' and s.text.startswith('return') for s in P.walk(body))

    def length_tested(self, d, stack=()):
        """None (holds) or the reason why the function may look at keys of a subject that is shorter than the key array"""
        if d.name in self._len:
            return self._len[d.name]
        if d.name in stack:
            return 'recursive'
        int_params = {param_name(p) for p in d.params if re.search(r'\b(Py_ssize_t|int|long|size_t)\b', p) and '*' not in p and '[' not in p}
        reason = None
        for ch, text in S.variants(d.body):
            text = S.strip_casts(text)
            try:
                top = P.parse_body(text)
            except AnalysisError as e:
                reason = 'variant %s cannot be parsed (%s)' % (ch, e)
                break
            size_vars = set(re.findall(r'\b(%s)\s*=\s*%s\s*\(' % (WORD, SIZE_CALLS), text))
            guard_at = next((i for i, st in enumerate(top) if self._size_guard(st, int_params, size_vars)), None)
            if guard_at is not None:
                early = [st for st in top[:guard_at] if st.kind in ('for', 'while', 'do') or (st.kind != 'pp' and any(n for n, _ in self.value_error_calls_text(st)))]
                if early:
                    reason = 'a loop / the duplicate check runs before the size test'
                    break
                continue
            # no guard of its own: a pure dispatcher whose every exit forwards to a length-tested function
            rets = [s for s in P.walk(top) if s.kind == 'simple' and s.text.startswith('return')]
            loops = [s for s in P.walk(top) if s.kind in ('for', 'while', 'do')]
            fwd = []
            for s in rets:
                m = re.match(r'^return\s+(%s)\s*\(' % WORD, s.text)
                t = self.resolve(m.group(1))[0] if m else None
                fwd.append(t)
            if loops or not rets or any(t is None for t in fwd):
                reason = 'no `if (size < nKeys) return` ahead of the key loop%s' % ('' if len(ch) == 0 else ' in variant %s' % (ch,))
                break
            bad = [(t.name, self.length_tested(t, stack + (d.name,))) for t in fwd]
            bad = [(n, why) for n, why in bad if why]
            if bad:
                reason = '%s: %s' % bad[0]
                break
        self._len[d.name] = reason
        return reason

    def value_error_calls_text(self, st):
        text = st.text if st.kind in ('simple', 'if', 'while', 'for', 'do', 'switch') else ''
        out = []
        for m in re.finditer(r'\b(__Pyx_\w+)\s*\(', text or ''):
            t = self.resolve(m.group(1))[0]
            if t is not None and self.raises_value_error(t):
                out.append((m.group(1), m.start()))
        return out

    def internally_guarded(self, d, stack=()):
        """None when every way in which d can raise ValueError lies behind a size test inside d (or inside the callee that raises); else the
        reason.  A function that raises ValueError itself needs the guard of its caller."""
        if 'PyExc_ValueError' in d.body:
            return '%s raises ValueError itself' % d.name
        if d.name in stack:
            return 'recursive'
        for callee, off in self.value_error_calls(d):
            if self.guarded_by_size_test(d, off):
                continue
            why = self.internally_guarded(self.resolve(callee)[0], stack + (d.name,))
            if why:
                return '%s calls %s without a preceding `if (size < nKeys) return`; %s' % (d.name, callee, why)
        return None

    def guarded_by_size_test(self, d, offset):
        """is the call at `offset` of d.body dominated by a terminating `if (size < n)`?"""
        int_params = {param_name(p) for p in d.params if re.search(r'\b(Py_ssize_t|int|long|size_t)\b', p) and '*' not in p and '[' not in p}
        size_vars = set(re.findall(r'\b(%s)\s*=\s*%s\s*\(' % (WORD, SIZE_CALLS), d.body))
        for text in cguard.dominators(d.body, offset):
            try:
                sts = P.parse_body(S.strip_casts(text))
            except AnalysisError:
                continue
            if len(sts) == 1 and self._size_guard(sts[0], int_params, size_vars):
                return True
        return False


# ====================================================================================================== evaluation order of a built expression tree
class Order:
    """Walks the expression / statement tree a get_comparison_node method built (mock nodes) in evaluation order and records, for every C helper
    call, the nodes that are known to have evaluated TRUE when the call is reached (left operands of `and`, conditions of enclosing if-clauses, with
    result refs resolved to the expression they were assigned).  Unknown node kinds raise AnalysisError."""

    LEAVES = {'IntNode', 'NullNode', 'RawCNameExprNode', 'BoolNode', 'MockSubject', 'NameNode', 'ResultRefNode', 'MockKey', 'NoneNode', 'UnicodeNode', 'MockClassRef'}

    def __init__(self, lab):
        self.lab = lab
        self.calls = []          # (call node, helper name, tuple of guard nodes)
        self.refs = {}

    def helper_name(self, call):
        pos = call.__dict__.get('_pos') or []
        name = pos[1] if len(pos) > 1 else call.__dict__.get('function_name')
        if not isinstance(name, str):
            raise AnalysisError('a PythonCapiCallNode of the comparison tree has no constant helper name')
        return name

    def go(self, o, guards):
        lab = self.lab
        if o is None:
            return
        if isinstance(o, (list, tuple)):
            for x in o:
                self.go(x, guards)
            return
        if not isinstance(o, NS):
            raise AnalysisError('comparison tree holds a non-node value %r' % (o,))
        d, kind = o.__dict__, lab.ctor(o)
        if kind in self.LEAVES or lab.is_temp(o):
            return
        if kind == 'BinopNode':
            op = d.get('operator')
            self.go(d.get('operand1'), guards)
            self.go(d.get('operand2'), guards + (d.get('operand1'),) if op == 'and' else guards)
            if op not in ('and', 'or', '+', '-'):
                raise AnalysisError('comparison tree: binary operator %r is not modelled' % (op,))
        elif kind in ('LazyCoerceToBool', 'LazyCoerceToPyObject', 'AmpersandNode', 'ExprStatNode', 'TypecastNode', 'ProxyNode', 'CloneNode'):
            self.go(d.get('arg', d.get('operand', d.get('expr'))), guards)
        elif kind == 'EvaluateWithKeysAndSubjectsArrays':
            self.go(d.get('keys_array'), guards)
            self.go(d.get('arg'), guards)
        elif kind == 'TempResultFromStatNode':
            pos = d.get('_pos') or []
            if len(pos) != 2:
                raise AnalysisError('TempResultFromStatNode is not built from (result ref, statements)')
            self.go(pos[1], guards)
        elif kind == 'EvalWithTempExprNode':
            pos = d.get('_pos') or []
            for x in pos:
                self.go(x, guards)
        elif kind == 'StatListNode':
            for st in d.get('stats') or []:
                self.go(st, guards)
        elif kind in ('SingleAssignmentNode', 'AssignmentExpressionNode'):
            self.go(d.get('rhs'), guards)
            if lab.ctor(d.get('lhs')) == 'ResultRefNode':
                self.refs[id(d['lhs'])] = d.get('rhs')
        elif kind == 'IfStatNode':
            for cl in d.get('if_clauses') or []:
                self.go(cl, guards)
            self.go(d.get('else_clause'), guards)
        elif kind == 'IfClauseNode':
            cond = d.get('condition')
            self.go(cond, guards)
            known = self.refs.get(id(cond), cond) if lab.ctor(cond) == 'ResultRefNode' else cond
            self.go(d.get('body'), guards + (known,))
        elif kind == 'TryExceptStatNode':
            self.go(d.get('body'), guards)
            self.go(d.get('else_clause'), guards)
        elif kind == 'CondExprNode':
            self.go(d.get('condition'), guards)
            self.go(d.get('true_val'), guards + (d.get('condition'),))
            self.go(d.get('false_val'), guards)
        elif kind == 'StaticTypeCheckNode':
            self.go(d.get('fallback'), guards)
        elif lab.is_a(o, 'ExprNodes', 'PrimaryCmpNode'):
            self.go(d.get('operand1'), guards)
            self.go(d.get('operand2'), guards)
        elif kind == 'SimpleCallNode':
            self.go(d.get('args'), guards)
        elif kind in ('IndexNode', 'AttributeNode'):
            self.go(d.get('base', d.get('obj')), guards)
        elif kind == 'PythonCapiCallNode':
            self.go(d.get('args'), guards)
            self.calls.append((o, self.helper_name(o), guards))
        else:
            raise AnalysisError('comparison tree: node kind %s is not modelled' % kind)

    def established(self, guard):
        """helper calls whose TRUE result is implied by `guard` having evaluated true"""
        out, lab = [], self.lab

        def go(o):
            if not isinstance(o, NS):
                return
            kind, d = lab.ctor(o), o.__dict__
            if kind == 'PythonCapiCallNode':
                out.append(self.helper_name(o))
            elif kind == 'BinopNode' and d.get('operator') == 'and':
                go(d.get('operand1'))
                go(d.get('operand2'))
            elif kind in ('LazyCoerceToBool', 'EvaluateWithKeysAndSubjectsArrays'):
                go(d.get('arg'))
            elif kind == 'AssignmentExpressionNode':
                go(d.get('rhs'))
            elif kind == 'StaticTypeCheckNode':
                go(d.get('fallback'))
            elif kind == 'ResultRefNode' and id(o) in self.refs:
                go(self.refs[id(o)])
        go(guard)
        return out


# ====================================================================================================== C31-DUPGUARD
# declared types of the subject that MatchMappingPatternNode.is_dict_type_check tells apart and that can hold a mapping
SUBJECT_TYPES = [('object', {}), ('dict', {'is_pydict_type': True, 'is_builtin_type': True}), ('frozendict', {'is_pyfrozendict_type': True, 'is_builtin_type': True}),
                 ('extension type', {'is_extension_type': True})]

def rule_dupguard(ctx, sym=None, floor=68):
    r = Rule('C31-DUPGUARD', 'mapping patterns: a helper that can raise ValueError (run-time duplicate-key check) is reached only after the is-mapping test and a '
             'length-tested extraction helper evaluated true (CPython looks for duplicate keys while it takes the values out of a mapping that has at least as many '
             'items as the pattern has keys; any other subject just fails the case)', floor)
    lab = Lab(ctx, sym)
    facts = CFacts(ctx)
    seen = {}
    found_check = False
    for nk in (2, 3):
        for lits in itertools.product((True, False), repeat=nk):
            if all(lits):
                continue            # only literal keys: duplicates are a compile-time error
            for rest, (tlabel, tflags) in itertools.product((False, True), SUBJECT_TYPES):
                keys = [lab.key(l) for l in lits]
                values = [lab.capture('v0')] + [lab.value() for _ in range(nk - 1)]
                m = lab.mapping(keys, values, rest='rest' if rest else None)
                what = 'case {%s%s}%s' % (', '.join('%s: %s' % ('"lit"' if l else 'K.name', 'v0' if i == 0 else str(i)) for i, l in enumerate(lits)), ', **rest' if rest else '',
                                          '' if tlabel == 'object' else ' on a subject declared as %s' % tlabel)
                lab.run(m, 'validate_keys', [])
                subj = lab.subject(**tflags)
                lab.run(m, 'create_main_pattern_assignment_list', [subj, lab.env()])
                tree, f_c = lab.run(m, 'get_comparison_node', [subj, None])
                order = Order(lab)
                order.go(tree, ())
                inst = '%s.MatchMappingPatternNode.get_comparison_node:%s%s:%s' % (MOD, ''.join('L' if l else 'N' for l in lits), '+rest' if rest else '', tlabel)
                kinds = {}
                for call, name, guards in order.calls:
                    d, _ = facts.resolve(name)
                    if d is None:
                        continue        # CPython API / helper of another file: cannot raise the duplicate-key ValueError
                    kinds[name] = d
                raising = [(call, name, guards) for call, name, guards in order.calls if name in kinds and facts.raises_value_error(kinds[name])]
                r.inst(inst, sample='`%s`: helpers in evaluation order %s; can raise ValueError: %s' % (what, [n for _, n, _ in order.calls], sorted({n for _, n, _ in raising})),
                       nontrivial=bool(raising))
                for call, name, guards in raising:
                    found_check = True
                    d = kinds[name]
                    est = [h for g in guards for h in order.established(g)]
                    est_d = [kinds[h] for h in est if h in kinds]
                    has_map = any(facts.tests_mapping_flag(x) for x in est_d)
                    why_len = [facts.length_tested(x) for x in est_d if not facts.tests_mapping_flag(x) and x.name != d.name]
                    has_len = any(w is None for w in why_len)
                    internal = facts.internally_guarded(d)
                    if internal is None:
                        # the check is called from inside this helper, behind the helper's own size test
                        has_len = True
                    ckey = '%s.MatchMappingPatternNode.get_comparison_node:%s' % (MOD, name)
                    # ... and not later than CPython: before any value taken out of the mapping is compared with its sub-pattern
                    sub_subjects = {id(t) for t in (m.__dict__.get('subject_temps') or []) if lab.is_temp(t)}
                    if any(i in sub_subjects for g in guards for i in temp_reads(lab, g)):
                        seen.setdefault(ckey + ':after-values', (f_c.lineno, '`%s`: %s, which can raise ValueError("mapping pattern checks duplicate key"), is only evaluated after a value '
                                        'sub-pattern matched (one of the tests known to have succeeded before it reads a sub-subject temp): `{K.a: 5, K.a: y}` with K.a present and '
                                        'subject[K.a] != 5 fails the case silently where CPython raises ValueError (it checks the keys before it looks at any value)' % (what, name)))
                    if not has_map:
                        seen.setdefault(ckey + ':is-mapping', (f_c.lineno, '`%s`: %s, which can raise ValueError("mapping pattern checks duplicate key"), is evaluated before / independently '
                                        'of the is-mapping test (helpers known to have succeeded when it runs: %s): a subject that is no mapping at all (5, [1, 2], None) raises '
                                        'ValueError where CPython tries the next case' % (what, name, est or 'none')))
                    if not has_len:
                        reasons = [w for w in why_len if w] or ([internal] if 'PyExc_ValueError' not in d.body else [])
                        seen.setdefault(ckey + ':length', (f_c.lineno, '`%s`: %s, which can raise ValueError("mapping pattern checks duplicate key"), is evaluated although no helper that '
                                        'fails the case for len(subject) < number of keys has succeeded before it (helpers known to have succeeded: %s%s): a mapping with fewer items than the '
                                        'pattern has keys raises ValueError where CPython tries the next case' % (what, name, est or 'none', '; ' + reasons[0] if reasons else '')))
    if not found_check:
        r.info('no helper that can raise ValueError is reachable from the comparison node of a mapping pattern: nothing to order (presence of the check is decided by C31-PAIR)')
    for ckey, (line, msg) in sorted(seen.items()):
        r.violate(ckey, REL_C if ckey.startswith(S.CFILE) else lab.sym.m.rel, line, msg)
    # embedded positive example: `dup() and ismapping()` - the left operand is not guarded by the right one
    a = NS('a', _ctor='PythonCapiCallNode', _pos=['P', 'first', None], args=[])
    b = NS('b', _ctor='PythonCapiCallNode', _pos=['P', 'second', None], args=[])
    o = Order(lab)
    o.go(NS('and', _ctor='BinopNode', operator='and', operand1=a, operand2=b), ())
    r.positive_control([(n, [o.established(g) for g in gs]) for _, n, gs in o.calls] == [('first', []), ('second', [['first']])], 'in `first() and second()` only second() is guarded')
    return r


# ====================================================================================================== C31-SELFKW
ASSIGN = re.compile(r'^(?:(?:const\s+|struct\s+|unsigned\s+)*%s[\s\*]+)?(\*?\s*%s)\s*(?:\[[^\]]*\]\s*)?(?:[-+*/|&^]|<<|>>)?=(?!=)\s*(.*)$' % (WORD, WORD), re.S)


def _reads(text, names):
    return {n for n in names if re.search(r'(?<![\w>.])%s\b' % re.escape(n), text or '')}


def _positional_call(lab, known_type, npos, nkw):
    cp = lab.class_([lab.capture('p%d' % i) for i in range(npos)], [('attr%d' % i, lab.capture('k%d' % i)) for i in range(nkw)], known_type=known_type)
    subj = lab.subject()
    lab.run(cp, 'create_main_pattern_assignment_list', [subj, lab.env()])
    node, fn = lab.run(cp, 'make_positional_args_call', [subj, NS('class_node', _ctor='MockClassRef')])
    calls = [x for x in S.walk_ns(node) if lab.ctor(x) == 'PythonCapiCallNode']
    if len(calls) != 1:
        raise AnalysisError('ClassPatternNode.make_positional_args_call: expected one helper call, found %d' % len(calls))
    args = calls[0].__dict__.get('args')
    if not isinstance(args, list):
        raise AnalysisError('ClassPatternNode.make_positional_args_call: the helper call has no argument list')
    return calls[0], args, fn


def _arg_sig(lab, a):
    if lab.ctor(a) == 'IntNode':
        return ('int', a.__dict__.get('value'))
    if lab.ctor(a) == 'RawCNameExprNode':
        return ('raw', a.__dict__.get('cname'))
    return ('node', lab.ctor(a))


def keyword_taint(d, sources, ms, npos_param, subj_param):
    """violations of "the keyword-dependent parameters do not influence the positional decision" in one C function: [(kind, text)]"""
    out = []
    for ch, text in S.variants(d.body):
        text = S.strip_casts(text)
        try:
            top = P.parse_body(text)
        except AnalysisError as e:
            raise AnalysisError('%s: variant %s cannot be parsed: %s' % (d.name, ch, e))
        # variables compared with the number of positional sub-patterns ("allowed")
        sens = {ms}
        for st in P.walk(top):
            if st.kind in ('if', 'while') and npos_param and re.search(r'\b%s\b' % npos_param, st.text):
                for m in re.finditer(r'(%s)\s*(?:<=|>=|<|>)\s*(%s)' % (WORD, WORD), st.text):
                    a, b = m.group(1), m.group(2)
                    if a == npos_param and b != npos_param:
                        sens.add(b)
                    elif b == npos_param and a != npos_param:
                        sens.add(a)
        ptrs = set()
        for st in P.walk(top):
            if st.kind == 'simple':
                m = ASSIGN.match(st.text)
                if m and subj_param and re.search(r'\b%s\s*\[' % subj_param, m.group(2)):
                    ptrs.add(m.group(1).lstrip('* '))
        tainted = set(sources)

        def visit(stmts, ctl, report):
            for st in stmts:
                if st.kind == 'simple':
                    m = ASSIGN.match(st.text)
                    lhs = m.group(1).replace(' ', '') if m else None
                    rhs = m.group(2) if m else ''
                    rd = _reads(rhs, tainted)
                    if lhs and (rd or ctl) and not lhs.startswith('*'):
                        if lhs not in tainted and lhs not in sources:
                            tainted.add(lhs)
                    if report:
                        if lhs and lhs.lstrip('*') in sens and (rd or ctl):
                            out.append(('assign', '`%s` %s' % (st.text.strip(), 'reads %s' % sorted(rd) if rd else 'is executed under the condition `%s`' % ctl[-1])))
                        stores = [p for p in ptrs if re.search(r'\*\s*%s\b' % p, st.text)]
                        if stores and ctl:
                            out.append(('store', 'the store `%s` through the sub-subject array is executed under the condition `%s`' % (st.text.strip(), ctl[-1])))
                elif st.kind in ('if', 'while', 'for', 'do', 'switch'):
                    rd = _reads(st.text, tainted)
                    # a call that merely receives the parameters (the duplicate check) is not a decision about them
                    if report and rd and _reads(st.text, sens):
                        out.append(('cond', 'the condition `%s` combines %s with %s' % (st.text.strip(), sorted(_reads(st.text, sens)), sorted(rd))))
                    inner = ctl + ((st.text.strip(),) if rd else ())
                    visit(P.as_list(st.body), inner, report)
                    if st.orelse is not None:
                        visit(P.as_list(st.orelse), inner, report)
                elif st.kind == 'block':
                    visit(st.body, ctl, report)
        for _ in range(4):
            n = len(tainted)
            visit(top, (), False)
            if len(tainted) == n:
                break
        # an error exit under a keyword-dependent condition (the duplicate check reporting) taints nothing that matters: results are not in `sens`
        visit(top, (), True)
    seen, uniq = set(), []
    for k, t in out:
        if (k, t) not in seen:
            seen.add((k, t))
            uniq.append((k, t))
    return uniq


def rule_selfkw(ctx, sym=None, floor=36):
    r = Rule('C31-SELFKW', 'class patterns: the positional part (match-self decision, number of positional sub-patterns accepted, binding of the positional sub-subjects) does '
             'not depend on the keyword sub-patterns: the match_self argument of the positional helper is -1 or the _Py_TPFLAGS_MATCH_SELF flag of the class for every '
             'number of keyword sub-patterns, and inside the helper the keyword-dependent parameters only reach the duplicate-attribute check', floor)
    lab = Lab(ctx, sym)
    facts = CFacts(ctx)
    sym = lab.sym
    flag = S.TPFLAGS['MATCH_SELF']
    if not (int.__flags__ & flag) or (object.__flags__ & flag) or (complex.__flags__ & flag):
        raise AnalysisError('the running interpreter does not expose _Py_TPFLAGS_MATCH_SELF as expected')
    c, table = S.builtin_flag_table(sym)
    types = [(n, getattr(builtins, n)) for n in sorted(table) if isinstance(getattr(builtins, n, None), type) and not issubclass(getattr(builtins, n), BaseException)]
    if len(types) < 10:
        raise AnalysisError('only %d builtin types of the flag table exist in the running interpreter' % len(types))
    cp = sym.cls('ClassPatternNode')
    # how many keyword sub-patterns can the code tell apart? (integer constants it compares with)
    consts = [0, 1]
    for meth in ('_calculate_match_self', 'make_positional_args_call'):
        fn = sym.method(cp, meth)[1]
        consts += [n.value for n in ast.walk(fn) if isinstance(n, ast.Constant) and isinstance(n.value, int) and not isinstance(n.value, bool) and 0 <= n.value <= 6]
    nkws = list(range(0, max(consts) + 2))
    # ---- which argument of the helper is the match-self tri-state / keyword dependent / the number of positional sub-patterns
    call0, args0, f_call = _positional_call(lab, None, 1, 0)
    hname = Order(lab).helper_name(call0)
    d, injected = facts.resolve(hname)
    if d is None:
        raise AnalysisError('the positional helper %s has no single definition in %s' % (hname, S.CFILE))
    pnames = [param_name(p) for p in d.params]
    m = re.search(r'\b(%s)\s*=\s*[^;=]*\b_Py_TPFLAGS_MATCH_SELF\b' % WORD, d.body)
    if not m or m.group(1) not in pnames:
        raise AnalysisError('%s: no parameter is assigned from the _Py_TPFLAGS_MATCH_SELF test' % d.name)
    ms = m.group(1)
    ms_arg = pnames.index(ms) - injected
    if len(args0) + injected != len(pnames) or not (0 <= ms_arg < len(args0)):
        raise AnalysisError('%s: %d arguments are passed for %d parameters' % (hname, len(args0) + injected, len(pnames)))
    _, args_kw, _ = _positional_call(lab, None, 1, 3)
    _, args_pos, _ = _positional_call(lab, None, 2, 0)
    sig0 = [_arg_sig(lab, a) for a in args0]
    kw_args = [i for i, a in enumerate(args_kw) if i != ms_arg and _arg_sig(lab, a) != sig0[i]]
    a_cn = sym.ix.find_class_attr(sym.cls('EvaluateWithKeysAndSubjectsArrays'), 'keys_array_cname')
    keys_cname = a_cn[1].value if a_cn is not None and isinstance(a_cn[1], ast.Constant) else None
    a_sn = sym.ix.find_class_attr(sym.cls('EvaluateWithKeysAndSubjectsArrays'), 'subjects_array_cname')
    subj_cname = a_sn[1].value if a_sn is not None and isinstance(a_sn[1], ast.Constant) else None
    kw_args += [i for i, a in enumerate(args0) if _arg_sig(lab, a) == ('raw', keys_cname) and i not in kw_args]
    pos_args = [i for i, a in enumerate(args_pos) if i != ms_arg and _arg_sig(lab, a) != sig0[i] and i not in kw_args]
    subj_args = [i for i, a in enumerate(args0) if _arg_sig(lab, a) == ('raw', subj_cname)]
    if not kw_args or len(pos_args) != 1 or len(subj_args) != 1:
        raise AnalysisError('%s: cannot tell the keyword-dependent arguments (%s), the positional count (%s) and the sub-subject array (%s) apart' % (hname, kw_args, pos_args, subj_args))
    sources = {pnames[i + injected] for i in kw_args}
    npos_param, subj_param = pnames[pos_args[0] + injected], pnames[subj_args[0] + injected]
    # ---- (a) the tri-state handed over, for every class kind x number of keyword sub-patterns
    seen = {}
    for tname, pytype in types + [(None, None)]:
        for nkw in nkws:
            tm = S.builtin_type_mock(sym, c, table, tname, pytype) if tname else None
            _, args, _ = _positional_call(lab, tm, 1, nkw)
            v = args[ms_arg].__dict__.get('value') if lab.ctor(args[ms_arg]) == 'IntNode' else OPQ
            if v not in (0, 1, -1):
                raise AnalysisError('ClassPatternNode.make_positional_args_call: the match_self argument is not a constant tri-state for %s with %d keyword sub-pattern(s)' % (tname, nkw))
            has = bool(pytype.__flags__ & flag) if tname else None
            allowed = (-1,) if tname is None else (-1, int(has))
            what = '%s(x%s)' % (tname or 'cls', ''.join(', attr%d=k%d' % (i, i) for i in range(nkw)))
            key = '%s.ClassPatternNode.make_positional_args_call:match_self:%s:%dkw' % (MOD, tname or 'unknown-class', nkw)
            r.inst(key, sample='`case %s` -> match_self %r (allowed %s)' % (what, v, allowed), nontrivial=v != -1)
            if v not in allowed:
                ckey = '%s.ClassPatternNode:match_self:%s' % (MOD, 'keywords' if nkw else 'plain')
                if tname is None:
                    msg = ('`case %s` with a class that is only known at run time: match_self is decided at compile time as %d; for a class with _Py_TPFLAGS_MATCH_SELF (int, str, ...) '
                           '%s' % (what, v, 'the helper looks for __match_args__ and raises TypeError "accepts 0 positional sub-patterns" where CPython binds x to the subject' if v == 0
                                   else 'x is bound to the subject where CPython uses __match_args__'))
                else:
                    msg = ('`case %s`: match_self is decided at compile time as %d, but type %s %s _Py_TPFLAGS_MATCH_SELF%s: %s' % (
                        what, v, tname, 'has' if has else 'does not have', ' (keyword sub-patterns do not change that)' if nkw else '',
                        'TypeError "%s() accepts 0 positional sub-patterns" where CPython binds x to the subject and goes on with the keyword attributes' % tname if has
                        else 'x is bound to the subject where CPython raises TypeError'))
                seen.setdefault(ckey, (f_call.lineno, lab.sym.m.rel, msg))
    # ---- (b) inside the helper
    key = '%s:%s:keyword-parameters' % (S.CFILE, d.name)
    probs = keyword_taint(d, sources, ms, npos_param, subj_param)
    r.inst(key, sample='%s: keyword-dependent parameters %s, match-self parameter %s, positional count %s, sub-subject array %s' % (d.name, sorted(sources), ms, npos_param, subj_param))
    for kind, text in probs:
        seen.setdefault('%s:%s' % (key, kind), (d.line, REL_C, '%s: %s - the keyword-dependent parameter(s) %s influence the positional part of the class pattern (CPython decides '
                                                 'match-self, the number of positional sub-patterns accepted and their binding from the class alone): `case int(x, real=r)` behaves '
                                                 'differently from `case int(x)`' % (d.name, text, sorted(sources))))
    for ckey, (line, rel, msg) in sorted(seen.items()):
        r.violate(ckey, rel, line, msg)
    # embedded positive example for the C part
    demo = NS('d', name='demo', params=['PyObject *names[]', 'Py_ssize_t n_names', 'int self_flag', 'PyObject **out[]', 'Py_ssize_t n_out'], line=0,
              body='{ Py_ssize_t allowed; if (n_names) self_flag = 0; allowed = self_flag ? 1 : 0; if (allowed < n_out) return -1; return 1; }')
    r.positive_control(any(k == 'assign' for k, _ in keyword_taint(demo, {'names', 'n_names'}, 'self_flag', 'n_out', 'out')), '`if (n_names) self_flag = 0;` is seen')
    return r
