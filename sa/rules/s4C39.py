"""C39 round 6: the fast paths selected by a feature switch hand back an object of the type the generic path produces.

PyLongBinop / PyFloatBinop / PyLongCompare (Cython/Utility/Optimize.c) answer `obj <op> constant` from the internals of the int / float object
when CYTHON_USE_PYLONG_INTERNALS (and friends) are on, and through PyNumber_<Op> / PyObject_RichCompare otherwise (switch off, Limited API, PyPy).
The two builds agree only if every `return` of the fast path yields an object of the Python *type* that the generic operator yields for the
operand types the return is guarded by - `0 / 8` is the float 0.0, never the int operand itself.

C39-KIND  for every instantiation (section, operator, operand order) that Optimize.optimise_numeric_binop can request (its paths are enumerated by
          the checker-owned path-forking interpreter of s4C37, the `context=dict(...)` of the load call is read off each path) the template is expanded
          for an object result and every `return` of every C function of the expansion is classified:
            - the type kind of the returned object (PyLong_From* -> int, PyFloat_From* -> float, Py_RETURN_TRUE/FALSE / PyBool_From* -> bool, a returned
              operand -> the kind its Py{Long,Float}_CheckExact guard (in this function or at the call site) establishes, the constant operand -> the kind
              of the C value parameter `long intval` / `double floatval`, a direct `Py<T>_Type...->nb_<slot>` call -> what that slot of <T> returns);
            - the reference: type of `left <op> right` in Python for operands of those kinds (computed with the running interpreter's own operators over a
              sign partition of the operands; operators whose result type depends on the values are not constrained);
          a return that is not dominated by a type test of the object operand must be right for an int AND a float operand.
          A direct slot call must use the slot that PyNumber_<Op> of the generic path dispatches to.
Generic calls (PyNumber_*, PyObject_RichCompare, the __Pyx_Fallback_ helper) agree by definition; returns whose kind cannot be established are counted (info),
never guessed.
"""
import ast, operator as _op, re

from ..core import Rule, AnalysisError
from ..engine import cguard
from ..engine.cutil import strip_c_comments, match_paren, split_args
from . import pC02 as P
from . import sC02
from . import s4C37 as I

UFILE = 'Optimize.c'
REL_C = 'Cython/Utility/Optimize.c'
REL_OPT = 'Cython/Compiler/Optimize.py'
SECTIONS = ('PyLongBinop', 'PyFloatBinop', 'PyLongCompare')
DECIDER = 'optimise_numeric_binop'

PYOPS = {'Add': _op.add, 'Subtract': _op.sub, 'Multiply': _op.mul, 'Remainder': _op.mod, 'TrueDivide': _op.truediv, 'FloorDivide': _op.floordiv,
         'Divide': _op.truediv, 'Or': _op.or_, 'Xor': _op.xor, 'And': _op.and_, 'Rshift': _op.rshift, 'Lshift': _op.lshift, 'Eq': _op.eq, 'Ne': _op.ne}
SAMPLES = {'int': (-3, 0, 5), 'float': (-2.5, 0.0, 3.5), 'bool': (False, True)}
# CPython Objects/typeobject.c slotdefs (C-API reference, "Number Object Structures"): number slot -> special method
SLOT_DUNDER = {'add': '__add__', 'subtract': '__sub__', 'multiply': '__mul__', 'remainder': '__mod__', 'power': '__pow__', 'lshift': '__lshift__', 'rshift': '__rshift__',
               'and': '__and__', 'xor': '__xor__', 'or': '__or__', 'floor_divide': '__floordiv__', 'true_divide': '__truediv__', 'matrix_multiply': '__matmul__'}
FAMILY_KIND = {'Long': 'int', 'Float': 'float', 'Bool': 'bool', 'Unicode': 'str', 'Bytes': 'bytes', 'Tuple': 'tuple', 'List': 'list', 'Dict': 'dict', 'Complex': 'complex'}
PYTYPE = {'int': int, 'float': float, 'bool': bool}
GENERIC = 'generic'


def snake(op):
    return re.sub(r'(?<!^)(?=[A-Z])', '_', op).lower()


def reference_kinds(op, left, right):
    """set of result type names of `left <op> right` over the sign partition of the two operand kinds (exceptions skipped)"""
    f = PYOPS.get(op)
    if f is None or left not in SAMPLES or right not in SAMPLES:
        return None
    out = set()
    for a in SAMPLES[left]:
        for b in SAMPLES[right]:
            try:
                out.add(type(f(a, b)).__name__)
            except (ZeroDivisionError, ValueError, OverflowError, TypeError):
                pass
    return out or None


# ------------------------------------------------------------------------------------------------ reachable instantiations
def instantiations(ctx, ops):
    """(section, op, order) requested by optimise_numeric_binop for an object result: every path of the function is interpreted for every operator name"""
    ix = None           # no repository class is instantiated: the whole-program index is not needed
    fn = None
    for n in ctx.parse(REL_OPT).body:
        if isinstance(n, ast.FunctionDef) and n.name == DECIDER:
            fn = n
    if fn is None:
        raise AnalysisError('Optimize.%s vanished' % DECIDER)
    params = [a.arg for a in fn.args.args]
    if not params:
        raise AnalysisError('%s has no parameters' % DECIDER)
    out = set()
    npaths = 0
    for op in sorted(ops):
        def thunk(run, op=op):
            it = I.Interp(ix, DECIDER, inline=lambda *a: False)
            it.run = run
            kw = {p: I.Tok(p) for p in params}
            kw[params[0]] = op
            it.call_function(fn, [], kw)
            return [e for e in run.events if e[0] == 'call' and e[1].endswith('.load_cached')]
        for status, loads, run in I._guard(DECIDER, lambda: I.explore(thunk, DECIDER)):
            if status != 'ok':
                continue
            npaths += 1
            for e in loads:
                args, kwargs = e[2], e[3]
                if len(args) >= 2 and isinstance(args[0], str) and args[1] == UFILE and isinstance(kwargs.get('context'), dict):
                    c = kwargs['context']
                    if isinstance(c.get('op'), str) and isinstance(c.get('order'), str):
                        out.add((args[0], c['op'], c['order']))
                    else:
                        raise AnalysisError('%s: the template context is not decided by the operator on some path' % DECIDER)
    return out, npaths


# ------------------------------------------------------------------------------------------------ C expressions (text level)
def strip_outer(e):
    e = e.strip()
    while True:
        if e.startswith('(') and match_paren(e, 0) == len(e) - 1:
            e = e[1:-1].strip()
            continue
        m = re.match(r'\(\s*(?:const\s+)?(?:PyObject|PyLongObject|PyFloatObject)\s*\*\s*\)\s*', e)
        if m:
            e = e[m.end():].strip()
            continue
        m = re.match(r'(?:un)?likely\s*\(', e)
        if m and match_paren(e, m.end() - 1) == len(e) - 1:
            e = e[m.end():-1].strip()
            continue
        return e


def split_ternary(e):
    """`c ? a : b` at top level -> (a, b) or None"""
    depth, q = 0, None
    for i, ch in enumerate(e):
        if ch in '([':
            depth += 1
        elif ch in ')]':
            depth -= 1
        elif ch == '?' and depth == 0 and q is None:
            q = i
        elif ch == ':' and depth == 0 and q is not None:
            return e[q + 1:i], e[i + 1:]
    return None


def top_call(e):
    """`callee(args)` spanning the whole expression -> (callee text, [args]) or None"""
    e = e.strip()
    if not e.endswith(')'):
        return None
    depth = 0
    for i in range(len(e) - 1, -1, -1):
        if e[i] == ')':
            depth += 1
        elif e[i] == '(':
            depth -= 1
            if depth == 0:
                callee = e[:i].strip()
                if not callee:
                    return None
                return callee, [a.strip() for a in split_args(e[i + 1:-1])] if e[i + 1:-1].strip() else []
    return None


class FuncInfo:
    def __init__(self, name, params, body):
        self.name, self.params, self.body = name, params, body
        self.pnames = [sC02._pname(p) for p in params]
        self.objparams = [sC02._pname(p) for p in params if re.search(r'\bPyObject\s*\*\s*\w+\s*$', p.strip())]
        self.const_kind = None
        for p in params:
            p = ' '.join(p.split())
            if re.match(r'(?:const )?(?:long|PY_LONG_LONG|Py_ssize_t|int) \w*val$', p):
                self.const_kind = 'int'
            elif re.match(r'(?:const )?double \w*val$', p):
                self.const_kind = 'float'


RETURN = re.compile(r'\breturn\b\s*([^;]*);|\bPy_RETURN_(TRUE|FALSE|NONE|NOTIMPLEMENTED)\b')
CHECK = re.compile(r'\bPy(Long|Float|Bool|Unicode|Bytes)_CheckExact\s*\(\s*(\w+)\s*\)')
BOX = re.compile(r'^(?:__Pyx_)?Py(Long|Float|Bool|Unicode|Bytes|Tuple|List|Dict|Complex)_(?:From\w+|New)$')
NEWREF = {'__Pyx_NewRef', '__Pyx_XNewRef', 'Py_NewRef', 'Py_XNewRef'}


class Kinds:
    """classification of the returns of the C functions of one template expansion"""

    def __init__(self, text):
        t = strip_c_comments(text)
        self.funcs = {}
        for name, (params, b0, b1) in sC02.c_functions(t).items():
            self.funcs[name] = FuncInfo(name, params, t[b0:b1 + 1])
        self.unknown = 0
        self.slots = []

    def env_at(self, f, pos, base):
        env = dict(base)
        for cond, pol in cguard.guards(f.body, pos):
            if not pol:
                continue
            # a conjunction of positive tests: every CheckExact conjunct holds
            if '||' in cond:
                continue
            for m in CHECK.finditer(cond):
                pre = cond[:m.start()].rstrip()
                if pre.endswith('!'):
                    continue
                env[m.group(2)] = FAMILY_KIND[m.group(1)]
        return env

    def locals_of(self, f, name):
        return [m.group(1) for m in re.finditer(r'(?<![\w.>])%s\s*=(?!=)\s*([^;]+);' % re.escape(name), f.body)]

    def kind(self, e, f, env, depth=0):
        """-> set of kinds; members: type kinds, GENERIC, '?' (unknown), 'error', ('call', fname, env) for local calls"""
        e = strip_outer(e)
        if depth > 6:
            return {'?'}
        if e in ('NULL', '0', ''):
            return {'error'}
        tern = split_ternary(e)
        c = top_call(e)
        if tern is not None and c is None:
            return self.kind(tern[0], f, env, depth + 1) | self.kind(tern[1], f, env, depth + 1)
        if re.match(r'^[A-Za-z_]\w*$', e):
            if e in ('Py_True', 'Py_False'):
                return {'bool'}
            if e in env:
                return {env[e]}
            if e in f.pnames:
                if e in f.objparams:
                    return {'operand:' + e}
                return {'?'}
            vals = self.locals_of(f, e)
            if not vals:
                return {'?'}
            out = set()
            for v in vals:
                out |= self.kind(v, f, env, depth + 1)
            return out
        if c is None:
            return {'?'}
        callee, args = c
        callee_s = strip_outer(callee)
        m = re.search(r'\bPy(\w+?)_Type\b.*->\s*nb_(\w+)\s*$', callee_s) or re.search(r'\bPy(\w+?)_Type\b.*\bnb_(\w+)\b', callee_s)
        if m and not re.match(r'^[A-Za-z_]\w*$', callee_s):
            fam, slot = m.group(1), m.group(2)
            self.slots.append((f.name, fam, slot))
            base = slot[len('inplace_'):] if slot.startswith('inplace_') else slot
            t = PYTYPE.get(FAMILY_KIND.get(fam))
            d = SLOT_DUNDER.get(base)
            if t is None or d is None:
                return {'?'}
            kinds = set()
            akinds = [self.kind(a, f, env, depth + 1) for a in args[:2]]
            if len(akinds) != 2 or any(len(k) != 1 or next(iter(k)) not in SAMPLES for k in akinds):
                return {'?'}
            ka, kb = next(iter(akinds[0])), next(iter(akinds[1]))
            for a in SAMPLES[ka]:
                for b in SAMPLES[kb]:
                    try:
                        v = getattr(t, d)(a, b)
                    except (ZeroDivisionError, ValueError, OverflowError, TypeError):
                        continue
                    kinds.add('generic' if v is NotImplemented else type(v).__name__)
            return kinds or {'?'}
        if re.match(r'^[A-Za-z_]\w*$', callee_s):
            if callee_s in NEWREF and len(args) == 1:
                return self.kind(args[0], f, env, depth + 1)
            b = BOX.match(callee_s)
            if b:
                return {FAMILY_KIND[b.group(1)]}
            if callee_s in self.funcs:
                g = self.funcs[callee_s]
                sub = {}
                for pn, a in zip(g.pnames, args):
                    ks = self.kind(a, f, env, depth + 1)
                    if len(ks) == 1 and next(iter(ks)) in FAMILY_KIND.values():
                        sub[pn] = next(iter(ks))
                return {('call', callee_s, tuple(sorted(sub.items())))}
            if callee_s.startswith(('PyNumber_', '__Pyx_PyNumber_', 'PyObject_RichCompare', '__Pyx_Fallback_', '__Pyx_PyObject_RichCompare')):
                return {GENERIC}
            return {'?'}
        if re.search(r'\bPyNumber_\w+|\bPyObject_RichCompare\b', callee_s):
            return {GENERIC}
        return {'?'}

    def returns(self, f, base_env):
        """[(offset, text, set of kinds, env)]"""
        out = []
        for m in RETURN.finditer(f.body):
            env = self.env_at(f, m.start(), base_env)
            if m.group(2):
                ks = {'bool'} if m.group(2) in ('TRUE', 'FALSE') else {m.group(2).lower()}
                txt = 'Py_RETURN_' + m.group(2)
            else:
                ks = self.kind(m.group(1), f, env)
                txt = 'return %s' % ' '.join(m.group(1).split())
            out.append((m.start(), txt, ks, env))
        return out


def kind_problems(text, section, op, order, entry):
    """-> (instances [(key, sample)], problems {key: msg}, n unknown, slot instances/problems)"""
    K = Kinds(text)
    inst, probs = [], {}
    if entry not in K.funcs:
        return None
    ef = K.funcs[entry]
    const_kind = ef.const_kind
    pyval = None
    tested = {m.group(2) for m in CHECK.finditer(ef.body)}
    objs = [p for p in ef.objparams]
    cand = [p for p in objs if p in tested]
    if len(cand) == 1:
        pyval = cand[0]
    unknown = 0
    seen = set()
    todo = [(entry, ())]
    while todo:
        fname, envt = todo.pop()
        if (fname, envt) in seen:
            continue
        seen.add((fname, envt))
        f = K.funcs[fname]
        base = dict(envt)
        # the object parameter that is not the (type-tested) variable operand is the constant whose C value arrives as `long intval` / `double floatval`
        fvar = pyval if fname == entry else ([p for p in f.objparams if p in base] or [None])[0]
        fck = f.const_kind or const_kind
        if fvar is not None and fck is not None:
            for p in f.objparams:
                if p != fvar and p not in base:
                    base[p] = fck
        for pos, txt, ks, env in K.returns(f, base):
            for k in ks:
                if isinstance(k, tuple):
                    todo.append((k[1], k[2]))
            leaf = {k for k in ks if not isinstance(k, tuple)}
            if not leaf or leaf <= {'error', GENERIC}:
                continue
            short = fname.replace(entry, '$')
            key = '%s(%s,%s):%s:%s' % (section, op, order, short, re.sub(r'\s+', '', txt)[:60])
            if '?' in leaf:
                unknown += 1
                continue
            # operand kinds at this return
            fobj = f.objparams
            var = fvar
            if var is not None and var in env:
                vkinds = [env[var]]
            elif fname == entry or (var is None and len(fobj) >= 1):
                vkinds = ['int', 'float']       # not dominated by a type test: must be right for both kinds the fast paths accept
            else:
                vkinds = ['int', 'float']
            cvars = [p for p in fobj if p != var]
            if var is None and fname != entry:
                unknown += 1
                continue
            bad = []
            for vk in vkinds:
                got = set()
                for k in leaf - {'error', GENERIC}:
                    if k.startswith('operand:'):
                        nm = k.split(':', 1)[1]
                        got.add(vk if nm == var else (const_kind or '?') if nm in cvars else '?')
                    else:
                        got.add(k)
                if '?' in got:
                    continue
                if op in ('Eq', 'Ne'):
                    want = {'bool'}
                else:
                    ck = const_kind
                    if ck is None:
                        continue
                    left, right = (vk, ck) if order == 'ObjC' else (ck, vk)
                    want = reference_kinds(op, left, right)
                    if want is None or len(want) != 1:
                        continue
                for g in sorted(got):
                    if g not in want:
                        bad.append((vk, g, sorted(want)[0]))
            inst.append((key, '%s: `%s` -> %s' % (key, txt[:50], '/'.join(sorted(str(x) for x in leaf)))))
            if bad:
                vk, g, w = bad[0]
                probs.setdefault('kind:%s(%s,%s):%s:%s' % (section, op, order, short, g),
                                 '%s(op=%s, order=%s): `%s` in %s hands back %s object for %s object operand%s, but the generic path (PyNumber_%s / the build without the '
                                 'feature switch, Limited API) yields %s: the result type of `%s` depends on the build configuration'
                                 % (section, op, order, txt[:70], fname, 'an ' + g if g[0] in 'aeiou' else 'a ' + g, 'an ' + vk if vk[0] in 'aeiou' else 'a ' + vk,
                                    '' if (var in env if var else False) else ' (the return is not guarded by a type test)', op, 'an ' + w if w[0] in 'aeiou' else 'a ' + w,
                                    'obj %s const' % op if order == 'ObjC' else 'const %s obj' % op))
    # direct slot calls use the slot of the generic operator
    sl_inst, sl_probs = [], {}
    if op not in ('Eq', 'Ne'):
        for fname, fam, slot in sorted(set(K.slots)):
            key = 'slot:%s(%s,%s):%s' % (section, op, order, fname.replace(entry, '$'))
            sl_inst.append((key, '%s calls Py%s_Type nb_%s' % (key, fam, slot)))
            base = slot[len('inplace_'):] if slot.startswith('inplace_') else slot
            if base != snake(op if op != 'Divide' else 'TrueDivide'):
                sl_probs[key] = ('%s(op=%s, order=%s): %s calls the number slot nb_%s of Py%s_Type directly, but the generic path uses PyNumber_%s, which dispatches to nb_%s: '
                                 'builds with and without the fast path compute different operations' % (section, op, order, fname, slot, fam, op, snake(op)))
    return inst, probs, unknown, sl_inst, sl_probs


PC = '''
static PyObject* __Pyx_Fallback_F(PyObject *op1, PyObject *op2, int inplace) { return (inplace ? PyNumber_InPlaceTrueDivide : PyNumber_TrueDivide)(op1, op2); }
static PyObject* __Pyx_Unpacked_F(PyObject *op1, PyObject *op2, long intval, int inplace) {
    const long b = intval; long a;
    if (unlikely(__Pyx_PyLong_IsZero(op1))) { return __Pyx_NewRef(op1); }
    a = (long) __Pyx_PyLong_Digits(op1)[0];
    if (a < 100) return PyFloat_FromDouble((double)a / (double)b);
    return PyLong_Type.tp_as_number->nb_floor_divide(op1, op2);
}
static PyObject* F(PyObject *op1, PyObject *op2, long intval, int inplace) {
    if (likely(PyLong_CheckExact(op1))) { return __Pyx_Unpacked_F(op1, op2, intval, inplace); }
    return __Pyx_Fallback_F(op1, op2, inplace);
}
'''


def rule_kind(ctx):
    r = Rule('C39-KIND', 'PyLongBinop / PyFloatBinop / PyLongCompare: every return of a fast path (CYTHON_USE_PYLONG_INTERNALS etc.) hands back an object of the type the '
             'generic PyNumber_<Op> / RichCompare path yields for the guarded operand types; direct nb_<slot> calls use the slot of the generic operator', floor=145)
    cat = ctx.cat
    trees = {}
    ops = set()
    for s in SECTIONS:
        d = cat.files.get(UFILE, {}).get(s)
        if not d or 'impl' not in d:
            raise AnalysisError('section %s missing from Cython/Utility/%s' % (s, UFILE))
        trees[s] = P.tpl_tree(d['impl'].raw)
        dct, key = P.tpl_assigned_dict(trees[s], 'c_op')
        if not dct or key != 'op':
            raise AnalysisError('%s: the c_op dispatch table `c_op = {...}[op]` was not found' % s)
        ops |= set(dct)
    if len(ops) < 10:
        raise AnalysisError('only %d operators in the c_op tables' % len(ops))
    insts, npaths = instantiations(ctx, ops)
    if len(insts) < 30:
        raise AnalysisError('%s: only %d (section, operator, order) instantiations found on %d paths' % (DECIDER, len(insts), npaths))
    unknown = 0
    for section, op, order in sorted(insts):
        if section not in trees:
            raise AnalysisError('%s requests an unexpected section %s' % (DECIDER, section))
        try:
            text = P.tpl_expand(trees[section], dict(op=op, order=order, ret_type=P.Obj(is_pyobject=True)))
        except AnalysisError as e:
            r.info('%s(op=%s, order=%s): not expanded (%s)' % (section, op, order, e))
            continue
        fam = 'Float' if section == 'PyFloatBinop' else 'Long'
        entry = '__Pyx_Py%s_%s%s' % (fam, op, order)
        res = kind_problems(text, section, op, order, entry)
        if res is None:
            r.info('%s(op=%s, order=%s): entry function %s not found in the expansion' % (section, op, order, entry))
            continue
        inst, probs, unk, sl_inst, sl_probs = res
        unknown += unk
        for k, s in inst + sl_inst:
            r.inst(k, sample=s)
        for k, m in sorted(probs.items()) + sorted(sl_probs.items()):
            r.violate(k, REL_C, cat.files[UFILE][section]['impl'].line, m)
    if unknown:
        r.info('%d returns whose object kind could not be established (not decided)' % unknown)
    res = kind_problems(PC, 'pc', 'TrueDivide', 'ObjC', 'F')
    r.positive_control(res is not None and sorted(res[1]) == ['kind:pc(TrueDivide,ObjC):__Pyx_Unpacked_$:int'] and len(res[4]) == 1,
                       'a zero shortcut returning the int operand of a true division and a call of nb_floor_divide are reported')
    return r
