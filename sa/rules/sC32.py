"""C32-TYPED — writer/reader agreement of the exception sentinel in C's type system.

The callee of an `except <v>` / `except? <v>` function (and a from-Python conversion helper) stores the sentinel by
*assignment* into a variable of the return type T, i.e. the stored bit pattern is (T)v.  The caller's test is generated as
text by three small generators of PyrexTypes.py (CType.error_condition, CTypedefType.error_condition,
CFuncType.ExceptionValue.exception_test_code).  The rule extracts the emitted comparison for each numeric type class with
the path-enumerating evaluator of pC32 (resolving `cast_code` & co. through the MRO of the class and evaluating their
bodies the same way), renders it as a C expression over the result R, the sentinel S and the type T, and evaluates that
expression with C's integer promotions / usual arithmetic conversions (an evaluator that belongs to the checker) over a
complete finite domain of return types and sentinels:

    (detect)     R = (T)v          =>  the test is true        -- otherwise the exception is hidden from the caller
    (no forgery) R in T, R != (T)v =>  the test is false       -- otherwise a legitimate return fabricates an exception

T ranges over the integer types of every rank and signedness (LP64 and the two signednesses of plain char) and float /
double; v over sentinels that are / are not representable in T (-1, 0, 1, -2, 0.1, NaN for the NaN-aware form).
Unknown pieces of emitted text raise ANALYSIS-ERROR.  Nothing of the repository is imported or run.
"""
import ast, itertools, math, re, struct

from ..core import Rule, AnalysisError
from ..engine import cexpr
from .pC32 import Obj, Fresh, Call, Str, UNK, NOTFOUND, Evaluator

PYREX = 'Cython/Compiler/PyrexTypes.py'
TYPE_TEXT = {'empty_declaration_code', 'declaration_code', 'sign_and_name'}      # methods whose result is the C spelling of the type itself
TNAME = 'sa_ret_t'

INT_TYPES = [('unsigned char', 8, False), ('signed char', 8, True), ('unsigned short', 16, False), ('short', 16, True), ('int', 32, True),
             ('unsigned int', 32, False), ('long', 64, True), ('unsigned long', 64, False), ('PY_LONG_LONG', 64, True)]
FLOAT_TYPES = [('float', 32), ('double', 64)]
C_NAMED = {'char': ('i', 8, True), 'signed char': ('i', 8, True), 'unsigned char': ('i', 8, False), 'short': ('i', 16, True), 'unsigned short': ('i', 16, False),
           'int': ('i', 32, True), 'unsigned int': ('i', 32, False), 'unsigned': ('i', 32, False), 'long': ('i', 64, True), 'unsigned long': ('i', 64, False),
           'long long': ('i', 64, True), 'PY_LONG_LONG': ('i', 64, True), 'unsigned long long': ('i', 64, False), 'Py_ssize_t': ('i', 64, True), 'size_t': ('i', 64, False),
           'float': ('f', 32), 'double': ('f', 64)}


# ====================================================================================== typed C values
class UBError(Exception):
    pass


def conv(val, ty):
    """C conversion of a Python number to type ty (('i', bits, signed) | ('f', bits))."""
    if ty[0] == 'i':
        if isinstance(val, float):
            if val != val or val in (math.inf, -math.inf):
                raise UBError('it converts the non-finite value %r to an integer type, which C leaves undefined (C11 6.3.1.4)' % val)
            val = int(val)
        bits, signed = ty[1], ty[2]
        val &= (1 << bits) - 1
        if signed and val >= 1 << (bits - 1):
            val -= 1 << bits
        return val
    v = float(val)
    if ty[1] == 32 and v == v and v not in (math.inf, -math.inf):
        try:
            v = struct.unpack('f', struct.pack('f', v))[0]
        except OverflowError:
            v = math.copysign(math.inf, v)
    return v


def promote(ty):
    if ty[0] == 'i' and ty[1] < 32:
        return ('i', 32, True)
    return ty


def common(ta, tb):
    if ta[0] == 'f' or tb[0] == 'f':
        return ('f', max(ta[1] if ta[0] == 'f' else 0, tb[1] if tb[0] == 'f' else 0))
    ta, tb = promote(ta), promote(tb)
    if ta[2] == tb[2]:
        return ta if ta[1] >= tb[1] else tb
    u, s = (ta, tb) if not ta[2] else (tb, ta)
    if u[1] >= s[1]:
        return u
    return s


def literal_type(v):
    if isinstance(v, float):
        return ('f', 64)
    return ('i', 32, True) if -2 ** 31 <= v < 2 ** 31 else ('i', 64, True)


class TypedEval:
    """Evaluate a cexpr AST with C conversion semantics.  env: name -> (type, value); tname -> type of the cast spelled TNAME;
    macros: name -> (params, body ast)."""

    def __init__(self, env, ttype, macros=None):
        self.env, self.ttype, self.macros = env, ttype, macros or {}

    def ctype(self, text):
        t = ' '.join(text.replace('const', ' ').split())
        if t == TNAME:
            return self.ttype
        if t in C_NAMED:
            return C_NAMED[t]
        raise cexpr.EvalError('cast to unmodelled type %r' % text)

    def ev(self, e, subst=None):
        k = e[0]
        if k in ('num', 'char'):
            return literal_type(e[1]), e[1]
        if k == 'id':
            if subst and e[1] in subst:
                return self.ev(subst[e[1]][0], subst[e[1]][1])
            if e[1] in self.env:
                return self.env[e[1]]
            raise cexpr.EvalError('free identifier %s' % e[1])
        if k == 'cast':
            t, v = self.ev(e[2], subst)
            ty = self.ctype(e[1])
            return ty, conv(v, ty)
        if k == 'un':
            t, v = self.ev(e[2], subst)
            if e[1] == '!':
                return ('i', 32, True), int(not v)
            if e[1] in ('-', '+', '~'):
                t = promote(t)
                if t[0] == 'f' and e[1] == '~':
                    raise cexpr.EvalError('~ on float')
                r = {'-': lambda: -v, '+': lambda: v, '~': lambda: ~v}[e[1]]()
                return t, conv(r, t)
            raise cexpr.EvalError('unary ' + e[1])
        if k == 'tern':
            _, c = self.ev(e[1], subst)
            ta, a = self.ev(e[2], subst)
            tb, b = self.ev(e[3], subst)
            t = common(ta, tb)
            return t, conv(a if c else b, t)
        if k == 'call':
            name, args = e[1], e[2]
            if name in ('likely', 'unlikely') and len(args) == 1:
                return self.ev(args[0], subst)
            if name in self.macros:
                params, body = self.macros[name]
                if len(params) != len(args):
                    raise cexpr.EvalError('macro %s arity' % name)
                return self.ev(body, {p: (a, subst) for p, a in zip(params, args)})
            raise cexpr.EvalError('call of %s' % name)
        if k == 'bin':
            op = e[1]
            if op in ('&&', '||'):
                _, a = self.ev(e[2], subst)
                if op == '&&' and not a:
                    return ('i', 32, True), 0
                if op == '||' and a:
                    return ('i', 32, True), 1
                _, b = self.ev(e[3], subst)
                return ('i', 32, True), int(bool(b))
            ta, a = self.ev(e[2], subst)
            tb, b = self.ev(e[3], subst)
            t = common(ta, tb)
            a, b = conv(a, t), conv(b, t)
            if op in ('==', '!=', '<', '>', '<=', '>='):
                r = {'==': a == b, '!=': a != b, '<': a < b, '>': a > b, '<=': a <= b, '>=': a >= b}[op]
                return ('i', 32, True), int(r)
            if op in ('+', '-', '*'):
                r = {'+': a + b, '-': a - b, '*': a * b}[op]
                return t, conv(r, t)
            if op in ('&', '|', '^') and t[0] == 'i':
                r = {'&': a & b, '|': a | b, '^': a ^ b}[op]
                return t, conv(r, t)
            raise cexpr.EvalError('operator ' + op)
        raise cexpr.EvalError('node ' + k)


def truth_of(text, ttype, r, s, macros):
    """Truth of the C condition `text` for result value r (of type ttype) and sentinel literal s."""
    try:
        e = cexpr.parse(text)
    except cexpr.ParseError as ex:
        raise AnalysisError('C32-TYPED: cannot parse the emitted sentinel test `%s`: %s' % (text, ex))
    te = TypedEval({'R': (ttype, r), 'S': (literal_type(s), s)}, ttype, macros)
    try:
        return bool(te.ev(e)[1])
    except cexpr.EvalError as ex:
        raise AnalysisError('C32-TYPED: the emitted sentinel test `%s` is outside the modelled C subset: %s' % (text, ex))


def domain_problems(text, ttype, tname, sentinels, macros):
    """-> list of problem descriptions of the C condition `text` for return type ttype."""
    out = []
    for s in sentinels:
        if ttype[0] == 'i' and isinstance(s, float):
            continue
        r0 = conv(s, ttype)
        try:
            t0 = truth_of(text, ttype, r0, s, macros)
        except UBError as ex:
            out.append('with return type `%s` and sentinel %s: %s' % (tname, _show(s), ex))
            continue
        if not t0:
            out.append('with return type `%s` and sentinel %s the callee stores (%s)%s = %r, for which the test is FALSE: the raised exception is hidden from the caller'
                       % (tname, _show(s), tname, _show(s), r0))
            continue
        if ttype[0] == 'i':
            lo = -(1 << (ttype[1] - 1)) if ttype[2] else 0
            hi = (1 << (ttype[1] - 1)) - 1 if ttype[2] else (1 << ttype[1]) - 1
            probes = {0, 1, 2, lo, hi, hi - 1, lo + 1}
            for d in (1, -1, 1 << 8, 1 << 16, 1 << 32, -(1 << 8), -(1 << 16), -(1 << 32), 1 << 7, 1 << 15, 1 << 31):
                probes.add(conv(r0 + d, ttype))
            probes = {p for p in probes if lo <= p <= hi}
        else:
            probes = {0.0, 1.0, -1.0, 0.1, conv(0.1, ('f', 32)), 0.5, math.inf, -math.inf, math.nan}
            probes = {conv(p, ttype) for p in probes}
        for p in sorted(probes, key=repr):
            same = (p == r0) or (p != p and r0 != r0)
            if same:
                continue
            try:
                tp = truth_of(text, ttype, p, s, macros)
            except UBError as ex:
                out.append('with return type `%s`, sentinel %s and return value %r: %s' % (tname, _show(s), p, ex))
                break
            if tp:
                out.append('with return type `%s` and sentinel %s the legitimate return value %r tests TRUE: a normal return fabricates an exception (or is checked needlessly)'
                           % (tname, _show(s), p))
                break
    return out


def _show(s):
    return 'NaN' if s != s else repr(s)


# ====================================================================================== extraction
class Extract:
    def __init__(self, ctx):
        self.ctx, self.ix = ctx, ctx.index
        self.m = self.ix.mod('PyrexTypes')
        self.TYPE, self.SENT, self.RES = Fresh('TYPE'), Fresh('SENT'), Fresh('RES')

    def flag(self, classes, attr):
        """Class-level constant `attr` looked up along the MRO of the domain classes (first class that defines it)."""
        for c in classes:
            a = self.ix.find_class_attr(c, attr)
            if a is not None:
                node = a[1]
                if isinstance(node, ast.Constant):
                    return node.value
                return NOTFOUND
        return NOTFOUND

    def oracle(self, classes, extra):
        def o(p):
            if p in extra:
                return extra[p]
            if p.startswith('TYPE.') and p.count('.') == 1:
                v = self.flag(classes, p[5:])
                if v is not NOTFOUND:
                    return v
            return NOTFOUND
        return o

    def resolve(self, call, classes, owner):
        """-> (owner class, FunctionDef, argument values) of a call on the type object, or None."""
        name = call.name
        if call.recv is self.TYPE:
            for c in classes:
                r = self.ix.find_method(c, name)
                if r:
                    return r[0], r[1], list(call.args)
            return None
        if call.func.startswith('super().') and owner is not None:
            for c in classes:
                mro = self.ix.mro(c)
                if owner in mro:
                    for k in mro[mro.index(owner) + 1:]:
                        if name in k.methods:
                            return k, k.methods[name], list(call.args)
            return None
        if isinstance(call.recv, Obj) and '.' not in call.recv.path and call.recv.path in self.m.classes and call.args and call.args[0] is self.TYPE:
            k = self.m.classes[call.recv.path]
            r = self.ix.find_method(k, name)
            if r:
                return r[0], r[1], list(call.args[1:])
        return None

    def render(self, v, classes, extra, owner, call_oracle, depth=0):
        """-> list of alternative C texts."""
        if depth > 6:
            raise AnalysisError('C32-TYPED: rendering recursion too deep')
        if isinstance(v, str):
            return [v]
        if isinstance(v, bool) or v is None:
            raise AnalysisError('C32-TYPED: %r formatted into a sentinel test' % (v,))
        if isinstance(v, (int, float)):
            return [str(v)]
        if v is self.RES:
            return ['R']
        if v is self.SENT:
            return ['S']
        if isinstance(v, Str):
            alts = ['']
            for p in v.parts:
                sub = self.render(p, classes, extra, owner, call_oracle, depth + 1)
                alts = [a + b for a in alts for b in sub]
                if len(alts) > 64:
                    raise AnalysisError('C32-TYPED: too many alternatives')
            return alts
        if isinstance(v, Call):
            if v.name == 'str' and len(v.args) == 1 and v.recv is None:
                return self.render(v.args[0], classes, extra, owner, call_oracle, depth + 1)
            if v.recv is self.TYPE and v.name in TYPE_TEXT and all(a == '' or a is False or a == 0 for a in v.args) and not any(truthy(x) for x in v.kwargs.values()):
                return [TNAME]
            tgt = self.resolve(v, classes, owner)
            if tgt is not None:
                k, fn, args = tgt
                params = [a.arg for a in fn.args.args][1:]
                env = {fn.args.args[0].arg: self.TYPE}
                for p, a in zip(params, args):
                    env[p] = a
                for p, a in v.kwargs.items():
                    env[p] = a
                outs = []
                for path in Evaluator(self.oracle(classes, extra), call_oracle, what='%s.%s' % (k.name, fn.name)).run_function(fn, env):
                    if path.kind != 'return':
                        continue
                    outs.extend(self.render(path.ret, classes, extra, k, call_oracle, depth + 1))
                if outs:
                    return sorted(set(outs))
            raise AnalysisError('C32-TYPED: cannot model %r inside an emitted sentinel test (not the result, the sentinel, a cast or the spelling of the type)' % (v,))
        raise AnalysisError('C32-TYPED: cannot model %r inside an emitted sentinel test' % (v,))


def truthy(v):
    return bool(v) if isinstance(v, (bool, int, str, type(None))) else True


def sentinel_part(text):
    """The conjunct(s) of the rendered condition that mention S (the PyErr_Occurred() conjunct is C32-COND's business)."""
    from .pC32 import conjuncts, strip_parens
    parts, ops = conjuncts(strip_parens(text))
    keep = [p for p in parts if re.search(r'\bS\b', p)]
    return keep, ops


def load_macros(ctx, text):
    macros = {}
    for name in set(re.findall(r'\b(__P[Yy][Xx]_\w+)\s*\(', text)):
        decls = [d for d in ctx.cat.decls.get(name, []) if d.kind == 'macro']
        if len(decls) != 1:
            raise AnalysisError('C32-TYPED: macro %s used by a sentinel test has %d definitions in Cython/Utility' % (name, len(decls)))
        d = decls[0]
        try:
            macros[name] = ([p.strip() for p in (d.params or [])], cexpr.parse(' '.join((d.body or '').replace('\\\n', ' ').split())))
        except cexpr.ParseError as ex:
            raise AnalysisError('C32-TYPED: cannot parse the body of macro %s: %s' % (name, ex))
    return macros


def rule_typed(ctx):
    ix = ctx.index
    r = Rule('C32-TYPED', 'sentinel tests emitted for numeric return types compare in the return type: true for the stored (T)v, false for every other value, '
                          'for all integer ranks/signednesses and float/double', floor=28)
    X = Extract(ctx)
    m = X.m
    cint, cfloat, ctypedef = ix.cls('PyrexTypes', 'CIntType'), ix.cls('PyrexTypes', 'CFloatType'), ix.cls('PyrexTypes', 'CTypedefType')
    if '__getattr__' not in ctypedef.methods:
        raise AnalysisError('CTypedefType no longer delegates attribute reads with __getattr__; adapt the flag lookup of C32-TYPED')
    evc = None
    for c in ix._all_classes(m):
        if c.name == 'ExceptionValue' and 'exception_test_code' in c.methods:
            evc = c
    if evc is None:
        raise AnalysisError('CFuncType.ExceptionValue.exception_test_code vanished')

    INT_S, FLT_S = [-1, 0, 1, -2], [-1.0, 0.1, 0.0]
    ints = [(n, ('i', b, s)) for n, b, s in INT_TYPES]
    floats = [(n, ('f', b)) for n, b in FLOAT_TYPES]

    def generator_texts(owner, fn, classes, extra, call_oracle, what):
        env = {}
        texts = []
        ev = Evaluator(X.oracle(classes, extra), call_oracle, what=what)
        for p in ev.run_function(fn, env):
            if p.kind != 'return':
                continue
            if not isinstance(p.ret, (str, Str)):
                if isinstance(p.ret, Call) and p.ret.name == fn.name:
                    continue          # delegation to another error_condition, checked for its own class
                raise AnalysisError('C32-TYPED: %s returns %r, not C text' % (what, p.ret))
            texts.extend(X.render(p.ret, classes, extra, owner, call_oracle))
        if not texts:
            raise AnalysisError('C32-TYPED: %s yields no condition for a type with an exception value' % what)
        return sorted(set(texts))

    def check(key_prefix, what, fn, texts, types, sentinels):
        reported = False
        for tname, tt in types:
            key = '%s:%s' % (key_prefix, tname.replace(' ', '_'))
            r.inst(key, sample='%s for %s: %s' % (what, tname, ' | '.join(texts)))
            if reported:
                continue              # one finding per generator: the construct is the generator, not the C type
            for text in texts:
                parts, ops = sentinel_part(text)
                if not parts:
                    r.violate(key_prefix, PYREX, fn.lineno, '%s emits `%s`, which does not test the sentinel at all' % (what, text))
                    reported = True
                    break
                cond = ' && '.join('(%s)' % p for p in parts)
                macros = load_macros(ctx, cond)
                probs = domain_problems(cond, tt, tname, sentinels, macros)
                if probs:
                    r.violate(key_prefix, PYREX, fn.lineno, '%s emits the sentinel test `%s` (R = call result, S = declared sentinel, %s = the return type): %s'
                              % (what, cond, TNAME, probs[0]))
                    reported = True
                    break

    # ---- CType.error_condition for the numeric classes
    for cls, types, sents in ((cint, ints, INT_S), (cfloat, floats, FLT_S)):
        got = ix.find_method(cls, 'error_condition')
        if got is None:
            raise AnalysisError('%s.error_condition vanished' % cls.name)
        owner, fn = got
        extra = {'self': X.TYPE, fn.args.args[1].arg: X.RES, 'TYPE.exception_value': X.SENT, 'TYPE.exception_check': False}
        texts = generator_texts(owner, fn, [cls], extra, None, '%s.error_condition' % owner.name)
        check('typed:%s.error_condition(%s)' % (owner.name, cls.name), '%s.error_condition (self: %s)' % (owner.name, cls.name), fn, texts, types, sents)

    # ---- CTypedefType.error_condition, external typedef of an integer type
    fn2 = ctypedef.methods.get('error_condition')
    if fn2 is None:
        raise AnalysisError('CTypedefType.error_condition vanished')
    extra = {'self': X.TYPE, fn2.args.args[1].arg: X.RES, 'TYPE.exception_value': X.SENT, 'TYPE.exception_check': False, 'TYPE.typedef_is_external': True,
             'TYPE.typedef_base_type.is_array': False}
    texts = generator_texts(ctypedef, fn2, [ctypedef, cint], extra, None, 'CTypedefType.error_condition')
    check('typed:CTypedefType.error_condition', 'CTypedefType.error_condition (external typedef of an integer type)', fn2, texts, ints, INT_S)

    # ---- ExceptionValue.exception_test_code
    fn3 = evc.methods['exception_test_code']
    for cls, types, sents, nans in ((cint, ints, INT_S, (False,)), (cfloat, floats, FLT_S, (False, True))):
        for nan in nans:
            def call_oracle(f, a, k, nan=nan):
                if f == 'SENT.may_be_nan':
                    return nan
                return NOTFOUND
            extra = {'self': X.SENT, fn3.args.args[1].arg: X.RES, 'SENT.type': X.TYPE}
            texts = generator_texts(evc, fn3, [cls], extra, call_oracle, 'ExceptionValue.exception_test_code')
            ss = sents + ([math.nan] if nan else [])
            check('typed:ExceptionValue.exception_test_code(%s%s)' % (cls.name, ',may_be_nan' if nan else ''),
                  'ExceptionValue.exception_test_code (return type class %s%s)' % (cls.name, ', sentinel may be NaN' if nan else ''), fn3, texts, types, ss)

    # ---- positive control: the same comparison without the cast / with a narrowing cast on both sides
    pc1 = domain_problems('(R == S)', ('i', 8, False), 'unsigned char', [-1], {})
    pc2 = domain_problems('((char)R == (char)S)', ('i', 32, True), 'int', [-1], {})
    pc3 = domain_problems('(R == ((%s)S))' % TNAME, ('i', 8, False), 'unsigned char', [-1, 0], {})
    pc4 = domain_problems('(R == S)', ('f', 32), 'float', [0.1], {})
    r.positive_control(bool(pc1) and bool(pc2) and not pc3 and bool(pc4), 'uncast sentinel on unsigned char / float, narrowing cast on int; the cast form passes')
    return r
