"""C32-TYPED — writer/reader agreement of the exception sentinel in C's type system.

The callee of an `except <v>` / `except? <v>` function (and a from-Python conversion helper) stores the sentinel by
*assignment* into a variable of the return type T, i.e. the stored bit pattern is (T)v.  The caller's test is generated as
text by three small generators of PyrexTypes.py (CType.error_condition, CTypedefType.error_condition,
CFuncType.ExceptionValue.exception_test_code).  The rule extracts the emitted comparison for each numeric type class with
the path-enumerating evaluator of pC32 (resolving `cast_code` & co. through the MRO of the class and evaluating their
bodies the same way), renders it as a C expression over the result R, the sentinel S and the type T, and evaluates that
expression with C's integer promotions / usual arithmetic conversions (an evaluator that belongs to the checker) over a
complete finite domain of return types and sentinels:

    (detect)     R = (T)v          =>  the test is true        -- otherwise the exception is hidden from the caller
    (no forgery) R in T, R != (T)v =>  the test is false       -- otherwise a legitimate return fabricates an exception

T ranges over the integer types of every rank and signedness (LP64 and the two signednesses of plain char) and float /
double; v over sentinels that are / are not representable in T (-1, 0, 1, -2, 0.1, NaN for the NaN-aware form).
Unknown pieces of emitted text raise ANALYSIS-ERROR.  Nothing of the repository is imported or run.
"""
import ast, itertools, math, re, struct

from ..core import Rule, AnalysisError
from ..engine import cexpr
from .pC32 import Obj, Fresh, Call, Str, UNK, NOTFOUND, Evaluator

PYREX = 'Cython/Compiler/PyrexTypes.py'
TYPE_TEXT = {'empty_declaration_code', 'declaration_code', 'sign_and_name'}      # methods whose result is the C spelling of the type itself
TNAME = 'sa_ret_t'

INT_TYPES = [('unsigned char', 8, False), ('signed char', 8, True), ('unsigned short', 16, False), ('short', 16, True), ('int', 32, True),
             ('unsigned int', 32, False), ('long', 64, True), ('unsigned long', 64, False), ('PY_LONG_LONG', 64, True)]
FLOAT_TYPES = [('float', 32), ('double', 64)]
C_NAMED = {'char': ('i', 8, True), 'signed char': ('i', 8, True), 'unsigned char': ('i', 8, False), 'short': ('i', 16, True), 'unsigned short': ('i', 16, False),
           'int': ('i', 32, True), 'unsigned int': ('i', 32, False), 'unsigned': ('i', 32, False), 'long': ('i', 64, True), 'unsigned long': ('i', 64, False),
           'long long': ('i', 64, True), 'PY_LONG_LONG': ('i', 64, True), 'unsigned long long': ('i', 64, False), 'Py_ssize_t': ('i', 64, True), 'size_t': ('i', 64, False),
           'float': ('f', 32), 'double': ('f', 64)}


# ====================================================================================== typed C values
class UBError(Exception):
    pass


def conv(val, ty):
    """C conversion of a Python number to type ty (('i', bits, signed) | ('f', bits))."""
    if ty[0] == 'i':
        if isinstance(val, float):
            if val != val or val in (math.inf, -math.inf):
                raise UBError('it converts the non-finite value %r to an integer type, which C leaves undefined (C11 6.3.1.4)' % val)
            val = int(val)
        bits, signed = ty[1], ty[2]
        val &= (1 << bits) - 1
        if signed and val >= 1 << (bits - 1):
            val -= 1 << bits
        return val
    v = float(val)
    if ty[1] == 32 and v == v and v not in (math.inf, -math.inf):
        try:
            v = struct.unpack('f', struct.pack('f', v))[0]
        except OverflowError:
            v = math.copysign(math.inf, v)
    return v


def promote(ty):
    if ty[0] == 'i' and ty[1] < 32:
        return ('i', 32, True)
    return ty


def common(ta, tb):
    if ta[0] == 'f' or tb[0] == 'f':
        return ('f', max(ta[1] if ta[0] == 'f' else 0, tb[1] if tb[0] == 'f' else 0))
    ta, tb = promote(ta), promote(tb)
    if ta[2] == tb[2]:
        return ta if ta[1] >= tb[1] else tb
    u, s = (ta, tb) if not ta[2] else (tb, ta)
    if u[1] >= s[1]:
        return u
    return s


def literal_type(v):
    if isinstance(v, float):
        return ('f', 64)
    return ('i', 32, True) if -2 ** 31 <= v < 2 ** 31 else ('i', 64, True)


class TypedEval:
    """Evaluate a cexpr AST with C conversion semantics.  env: name -> (type, value); tname -> type of the cast spelled TNAME;
    macros: name -> (params, body ast)."""

    def __init__(self, env, ttype, macros=None):
        self.env, self.ttype, self.macros = env, ttype, macros or {}

    def ctype(self, text):
        t = ' '.join(text.replace('const', ' ').split())
        if t == TNAME:
            return self.ttype
        if t in C_NAMED:
            return C_NAMED[t]
        raise cexpr.EvalError('cast to unmodelled type %r' % text)

    def ev(self, e, subst=None):
        k = e[0]
        if k in ('num', 'char'):
            return literal_type(e[1]), e[1]
        if k == 'id':
            if subst and e[1] in subst:
                return self.ev(subst[e[1]][0], subst[e[1]][1])
            if e[1] in self.env:
                return self.env[e[1]]
            raise cexpr.EvalError('free identifier %s' % e[1])
        if k == 'cast':
            t, v = self.ev(e[2], subst)
            ty = self.ctype(e[1])
            return ty, conv(v, ty)
        if k == 'un':
            t, v = self.ev(e[2], subst)
            if e[1] == '!':
                return ('i', 32, True), int(not v)
            if e[1] in ('-', '+', '~'):
                t = promote(t)
                if t[0] == 'f' and e[1] == '~':
                    raise cexpr.EvalError('~ on float')
                r = {'-': lambda: -v, '+': lambda: v, '~': lambda: ~v}[e[1]]()
                return t, conv(r, t)
            raise cexpr.EvalError('unary ' + e[1])
        if k == 'tern':
            _, c = self.ev(e[1], subst)
            ta, a = self.ev(e[2], subst)
            tb, b = self.ev(e[3], subst)
            t = common(ta, tb)
            return t, conv(a if c else b, t)
        if k == 'call':
            name, args = e[1], e[2]
            if name in ('likely', 'unlikely') and len(args) == 1:
                return self.ev(args[0], subst)
            if name in self.macros:
                params, body = self.macros[name]
                if len(params) != len(args):
                    raise cexpr.EvalError('macro %s arity' % name)
                return self.ev(body, {p: (a, subst) for p, a in zip(params, args)})
            raise cexpr.EvalError('call of %s' % name)
        if k == 'bin':
            op = e[1]
            if op in ('&&', '||'):
                _, a = self.ev(e[2], subst)
                if op == '&&' and not a:
                    return ('i', 32, True), 0
                if op == '||' and a:
                    return ('i', 32, True), 1
                _, b = self.ev(e[3], subst)
                return ('i', 32, True), int(bool(b))
            ta, a = self.ev(e[2], subst)
            tb, b = self.ev(e[3], subst)
            t = common(ta, tb)
            a, b = conv(a, t), conv(b, t)
            if op in ('==', '!=', '<', '>', '<=', '>='):
                r = {'==': a == b, '!=': a != b, '<': a < b, '>': a > b, '<=': a <= b, '>=': a >= b}[op]
                return ('i', 32, True), int(r)
            if op in ('+', '-', '*'):
                r = {'+': a + b, '-': a - b, '*': a * b}[op]
                return t, conv(r, t)
            if op in ('&', '|', '^') and t[0] == 'i':
                r = {'&': a & b, '|': a | b, '^': a ^ b}[op]
                return t, conv(r, t)
            raise cexpr.EvalError('operator ' + op)
        raise cexpr.EvalError('node ' + k)


def truth_of(text, ttype, r, s, macros):
    """Truth of the C condition `text` for result value r (of type ttype) and sentinel literal s."""
    try:
        e = cexpr.parse(text)
    except cexpr.ParseError as ex:
        raise AnalysisError('C32-TYPED: cannot parse the emitted sentinel test `%s`: %s' % (text, ex))
    te = TypedEval({'R': (ttype, r), 'S': (literal_type(s), s)}, ttype, macros)
    try:
        return bool(te.ev(e)[1])
    except cexpr.EvalError as ex:
        raise AnalysisError('C32-TYPED: the emitted sentinel test `%s` is outside the modelled C subset: %s' % (text, ex))


def domain_problems(text, ttype, tname, sentinels, macros):
    """-> list of problem descriptions of the C condition `text` for return type ttype."""
    out = []
    for s in sentinels:
        if ttype[0] == 'i' and isinstance(s, float):
            continue
        r0 = conv(s, ttype)
        try:
            t0 = truth_of(text, ttype, r0, s, macros)
        except UBError as ex:
            out.append('with return type `%s` and sentinel %s: %s' % (tname, _show(s), ex))
            continue
        if not t0:
            out.append('with return type `%s` and sentinel %s the callee stores (%s)%s = %r, for which the test is FALSE: the raised exception is hidden from the caller'
                       % (tname, _show(s), tname, _show(s), r0))
            continue
        if ttype[0] == 'i':
            lo = -(1 << (ttype[1] - 1)) if ttype[2] else 0
            hi = (1 << (ttype[1] - 1)) - 1 if ttype[2] else (1 << ttype[1]) - 1
            probes = {0, 1, 2, lo, hi, hi - 1, lo + 1}
            for d in (1, -1, 1 << 8, 1 << 16, 1 << 32, -(1 << 8), -(1 << 16), -(1 << 32), 1 << 7, 1 << 15, 1 << 31):
                probes.add(conv(r0 + d, ttype))
            probes = {p for p in probes if lo <= p <= hi}
        else:
            probes = {0.0, 1.0, -1.0, 0.1, conv(0.1, ('f', 32)), 0.5, math.inf, -math.inf, math.nan}
            probes = {conv(p, ttype) for p in probes}
        for p in sorted(probes, key=repr):
            same = (p == r0) or (p != p and r0 != r0)
            if same:
                continue
            try:
                tp = truth_of(text, ttype, p, s, macros)
            except UBError as ex:
                out.append('with return type `%s`, sentinel %s and return value %r: %s' % (tname, _show(s), p, ex))
                break
            if tp:
                out.append('with return type `%s` and sentinel %s the legitimate return value %r tests TRUE: a normal return fabricates an exception (or is checked needlessly)'
                           % (tname, _show(s), p))
                break
    return out


def _show(s):
    return 'NaN' if s != s else repr(s)


# ====================================================================================== extraction
class Extract:
    def __init__(self, ctx):
        self.ctx, self.ix = ctx, ctx.index
        self.m = self.ix.mod('PyrexTypes')
        self.TYPE, self.SENT, self.RES = Fresh('TYPE'), Fresh('SENT'), Fresh('RES')

    def flag(self, classes, attr):
        """Class-level constant `attr` looked up along the MRO of the domain classes (first class that defines it)."""
        for c in classes:
            a = self.ix.find_class_attr(c, attr)
            if a is not None:
                node = a[1]
                if isinstance(node, ast.Constant):
                    return node.value
                return NOTFOUND
        return NOTFOUND

    def oracle(self, classes, extra):
        def o(p):
            if p in extra:
                return extra[p]
            if p.startswith('TYPE.') and p.count('.') == 1:
                v = self.flag(classes, p[5:])
                if v is not NOTFOUND:
                    return v
            return NOTFOUND
        return o

    def resolve(self, call, classes, owner):
        """-> (owner class, FunctionDef, argument values) of a call on the type object, or None."""
        name = call.name
        if call.recv is self.TYPE:
            for c in classes:
                r = self.ix.find_method(c, name)
                if r:
                    return r[0], r[1], list(call.args)
            return None
        if call.func.startswith('super().') and owner is not None:
            for c in classes:
                mro = self.ix.mro(c)
                if owner in mro:
                    for k in mro[mro.index(owner) + 1:]:
                        if name in k.methods:
                            return k, k.methods[name], list(call.args)
            return None
        if isinstance(call.recv, Obj) and '.' not in call.recv.path and call.recv.path in self.m.classes and call.args and call.args[0] is self.TYPE:
            k = self.m.classes[call.recv.path]
            r = self.ix.find_method(k, name)
            if r:
                return r[0], r[1], list(call.args[1:])
        return None

    def render(self, v, classes, extra, owner, call_oracle, depth=0):
        """-> list of alternative C texts."""
        if depth > 6:
            raise AnalysisError('C32-TYPED: rendering recursion too deep')
        if isinstance(v, str):
            return [v]
        if isinstance(v, bool) or v is None:
            raise AnalysisError('C32-TYPED: %r formatted into a sentinel test' % (v,))
        if isinstance(v, (int, float)):
            return [str(v)]
        if v is self.RES:
            return ['R']
        if v is self.SENT:
            return ['S']
        if isinstance(v, Str):
            alts = ['']
            for p in v.parts:
                sub = self.render(p, classes, extra, owner, call_oracle, depth + 1)
                alts = [a + b for a in alts for b in sub]
                if len(alts) > 64:
                    raise AnalysisError('C32-TYPED: too many alternatives')
            return alts
        if isinstance(v, Call):
            if v.name == 'str' and len(v.args) == 1 and v.recv is None:
                return self.render(v.args[0], classes, extra, owner, call_oracle, depth + 1)
            if v.recv is self.TYPE and v.name in TYPE_TEXT and all(a == '' or a is False or a == 0 for a in v.args) and not any(truthy(x) for x in v.kwargs.values()):
                return [TNAME]
            tgt = self.resolve(v, classes, owner)
            if tgt is not None:
                k, fn, args = tgt
                params = [a.arg for a in fn.args.args][1:]
                env = {fn.args.args[0].arg: self.TYPE}
                for p, a in zip(params, args):
                    env[p] = a
                for p, a in v.kwargs.items():
                    env[p] = a
                outs = []
                for path in Evaluator(self.oracle(classes, extra), call_oracle, what='%s.%s' % (k.name, fn.name)).run_function(fn, env):
                    if path.kind != 'return':
                        continue
                    outs.extend(self.render(path.ret, classes, extra, k, call_oracle, depth + 1))
                if outs:
                    return sorted(set(outs))
            raise AnalysisError('C32-TYPED: cannot model %r inside an emitted sentinel test (not the result, the sentinel, a cast or the spelling of the type)' % (v,))
        raise AnalysisError('C32-TYPED: cannot model %r inside an emitted sentinel test' % (v,))


def truthy(v):
    return bool(v) if isinstance(v, (bool, int, str, type(None))) else True


def sentinel_part(text):
    """The conjunct(s) of the rendered condition that mention S (the PyErr_Occurred() conjunct is C32-COND's business)."""
    from .pC32 import conjuncts, strip_parens
    parts, ops = conjuncts(strip_parens(text))
    keep = [p for p in parts if re.search(r'\bS\b', p)]
    return keep, ops


def load_macros(ctx, text):
    macros = {}
    for name in set(re.findall(r'\b(__P[Yy][Xx]_\w+)\s*\(', text)):
        decls = [d for d in ctx.cat.decls.get(name, []) if d.kind == 'macro']
        if len(decls) != 1:
            raise AnalysisError('C32-TYPED: macro %s used by a sentinel test has %d definitions in Cython/Utility' % (name, len(decls)))
        d = decls[0]
        try:
            macros[name] = ([p.strip() for p in (d.params or [])], cexpr.parse(' '.join((d.body or '').replace('\\\n', ' ').split())))
        except cexpr.ParseError as ex:
            raise AnalysisError('C32-TYPED: cannot parse the body of macro %s: %s' % (name, ex))
    return macros


def rule_typed(ctx):
    ix = ctx.index
    r = Rule('C32-TYPED', 'sentinel tests emitted for numeric return types compare in the return type: true for the stored (T)v, false for every other value, '
                          'for all integer ranks/signednesses and float/double', floor=28)
    X = Extract(ctx)
    m = X.m
    cint, cfloat, ctypedef = ix.cls('PyrexTypes', 'CIntType'), ix.cls('PyrexTypes', 'CFloatType'), ix.cls('PyrexTypes', 'CTypedefType')
    if '__getattr__' not in ctypedef.methods:
        raise AnalysisError('CTypedefType no longer delegates attribute reads with __getattr__; adapt the flag lookup of C32-TYPED')
    evc = None
    for c in ix._all_classes(m):
        if c.name == 'ExceptionValue' and 'exception_test_code' in c.methods:
            evc = c
    if evc is None:
        raise AnalysisError('CFuncType.ExceptionValue.exception_test_code vanished')

    INT_S, FLT_S = [-1, 0, 1, -2], [-1.0, 0.1, 0.0]
    ints = [(n, ('i', b, s)) for n, b, s in INT_TYPES]
    floats = [(n, ('f', b)) for n, b in FLOAT_TYPES]

    def generator_texts(owner, fn, classes, extra, call_oracle, what):
        env = {}
        texts = []
        ev = Evaluator(X.oracle(classes, extra), call_oracle, what=what)
        for p in ev.run_function(fn, env):
            if p.kind != 'return':
                continue
            if not isinstance(p.ret, (str, Str)):
                if isinstance(p.ret, Call) and p.ret.name == fn.name:
                    continue          # delegation to another error_condition, checked for its own class
                raise AnalysisError('C32-TYPED: %s returns %r, not C text' % (what, p.ret))
            texts.extend(X.render(p.ret, classes, extra, owner, call_oracle))
        if not texts:
            raise AnalysisError('C32-TYPED: %s yields no condition for a type with an exception value' % what)
        return sorted(set(texts))

    def check(key_prefix, what, fn, texts, types, sentinels):
        reported = False
        for tname, tt in types:
            key = '%s:%s' % (key_prefix, tname.replace(' ', '_'))
            r.inst(key, sample='%s for %s: %s' % (what, tname, ' | '.join(texts)))
            if reported:
                continue              # one finding per generator: the construct is the generator, not the C type
            for text in texts:
                parts, ops = sentinel_part(text)
                if not parts:
                    r.violate(key_prefix, PYREX, fn.lineno, '%s emits `%s`, which does not test the sentinel at all' % (what, text))
                    reported = True
                    break
                cond = ' && '.join('(%s)' % p for p in parts)
                macros = load_macros(ctx, cond)
                probs = domain_problems(cond, tt, tname, sentinels, macros)
                if probs:
                    r.violate(key_prefix, PYREX, fn.lineno, '%s emits the sentinel test `%s` (R = call result, S = declared sentinel, %s = the return type): %s'
                              % (what, cond, TNAME, probs[0]))
                    reported = True
                    break

    # ---- CType.error_condition for the numeric classes
    for cls, types, sents in ((cint, ints, INT_S), (cfloat, floats, FLT_S)):
        got = ix.find_method(cls, 'error_condition')
        if got is None:
            raise AnalysisError('%s.error_condition vanished' % cls.name)
        owner, fn = got
        extra = {'self': X.TYPE, fn.args.args[1].arg: X.RES, 'TYPE.exception_value': X.SENT, 'TYPE.exception_check': False}
        texts = generator_texts(owner, fn, [cls], extra, None, '%s.error_condition' % owner.name)
        check('typed:%s.error_condition(%s)' % (owner.name, cls.name), '%s.error_condition (self: %s)' % (owner.name, cls.name), fn, texts, types, sents)

    # ---- CTypedefType.error_condition, external typedef of an integer type
    fn2 = ctypedef.methods.get('error_condition')
    if fn2 is None:
        raise AnalysisError('CTypedefType.error_condition vanished')
    extra = {'self': X.TYPE, fn2.args.args[1].arg: X.RES, 'TYPE.exception_value': X.SENT, 'TYPE.exception_check': False, 'TYPE.typedef_is_external': True,
             'TYPE.typedef_base_type.is_array': False}
    texts = generator_texts(ctypedef, fn2, [ctypedef, cint], extra, None, 'CTypedefType.error_condition')
    check('typed:CTypedefType.error_condition', 'CTypedefType.error_condition (external typedef of an integer type)', fn2, texts, ints, INT_S)

    # ---- ExceptionValue.exception_test_code
    fn3 = evc.methods['exception_test_code']
    for cls, types, sents, nans in ((cint, ints, INT_S, (False,)), (cfloat, floats, FLT_S, (False, True))):
        for nan in nans:
            def call_oracle(f, a, k, nan=nan):
                if f == 'SENT.may_be_nan':
                    return nan
                return NOTFOUND
            extra = {'self': X.SENT, fn3.args.args[1].arg: X.RES, 'SENT.type': X.TYPE}
            texts = generator_texts(evc, fn3, [cls], extra, call_oracle, 'ExceptionValue.exception_test_code')
            ss = sents + ([math.nan] if nan else [])
            check('typed:ExceptionValue.exception_test_code(%s%s)' % (cls.name, ',may_be_nan' if nan else ''),
                  'ExceptionValue.exception_test_code (return type class %s%s)' % (cls.name, ', sentinel may be NaN' if nan else ''), fn3, texts, types, ss)

    # ---- positive control: the same comparison without the cast / with a narrowing cast on both sides
    pc1 = domain_problems('(R == S)', ('i', 8, False), 'unsigned char', [-1], {})
    pc2 = domain_problems('((char)R == (char)S)', ('i', 32, True), 'int', [-1], {})
    pc3 = domain_problems('(R == ((%s)S))' % TNAME, ('i', 8, False), 'unsigned char', [-1, 0], {})
    pc4 = domain_problems('(R == S)', ('f', 32), 'float', [0.1], {})
    r.positive_control(bool(pc1) and bool(pc2) and not pc3 and bool(pc4), 'uncast sentinel on unsigned char / float, narrowing cast on int; the cast form passes')
    return r


# ====================================================================================== fourth round: the declaration side
"""C32-PARSE   p_exception_value_clause, interpreted on a model scanner for every clause shape of the grammar
              (nothing, noexcept, except v, except? v, except *, except +, except +*, except +Name) x (extern, own):
              the (value?, check, explicit) triple equals the language table.
C32-DECL    CFuncDeclaratorNode.analyse over (clause kind x return kind x default error value of the return type x extern /
              pxd / cdef-class / pointer declarator x legacy_implicit_noexcept): the exception_check / exception_value handed
              to CFuncType: explicit clauses are preserved, an implicit error value is only ever installed together with
              the PyErr_Occurred() check, legacy noexcept never overrides an explicit clause.
C32-COMPAT  CFuncType._is_exception_compatible_with / _same_exception_value as a decision table over callee
              specification S x declared (caller-side) specification O, compared with the semantics of the call-side test:
              O=except *: any S; O=noexcept: only S=noexcept; O=except v: only S=except v; O=except? v: S in {noexcept, except v, except? v}.
C32-TEMP    SimpleCallNode.analyse_c_function_call marks the call as a temp (the only form for which generate_result_code emits
              the error test) whenever the function type has an exception value or an exception check.
C32-ERRGIL  the error exit of FuncDefNode.generate_function_definitions ensures the GIL (assure_gil('error')) before it emits
              put_add_traceback / put_unraisable.
C32-ARGNAME an argument of an emitted call to a C32 helper whose Python name is the name of one of the helper's C parameters sits
              at that parameter's position."""
PARSING = 'Cython/Compiler/Parsing.py'
NODES = 'Cython/Compiler/Nodes.py'
EXPRNODES = 'Cython/Compiler/ExprNodes.py'


class _Return(Exception):
    def __init__(self, v):
        self.v = v


class Opaque:
    def __init__(self, what):
        self.what = what

    def __repr__(self):
        return '<%s>' % self.what


class ModelScanner:
    """The part of PyrexScanner that p_exception_value_clause uses: current token (sy, systring), next(), position()."""

    def __init__(self, tokens):
        self.tokens, self.i, self.errors = list(tokens) + [('NEWLINE', '')], 0, []

    @property
    def sy(self):
        return self.tokens[self.i][0]

    @property
    def systring(self):
        return self.tokens[self.i][1]

    def next(self):
        if self.i < len(self.tokens) - 1:
            self.i += 1

    def position(self):
        return ('<model>', 1, 10 + 2 * self.i)         # column grows with the token index, a gap between tokens


class Mini:
    """A tiny concrete interpreter for table-like Python functions, run on MODEL objects that belong to the checker.
    Attribute reads / method calls are only performed on instances of the classes in `models`; calls of repository
    functions are answered by `calls` (name -> python callable on the model); everything else raises ANALYSIS-ERROR."""

    def __init__(self, models, calls, what):
        self.models, self.calls, self.what = tuple(models), calls, what

    def run(self, fn, args):
        env = dict(args)
        try:
            self.block(fn.body, env)
        except _Return as r:
            return r.v
        return None

    def block(self, stmts, env):
        for s in stmts:
            self.stmt(s, env)

    def stmt(self, s, env):
        if isinstance(s, ast.Expr):
            if isinstance(s.value, ast.Constant):
                return
            self.ev(s.value, env)
        elif isinstance(s, (ast.Assign, ast.AnnAssign)):
            v = self.ev(s.value, env) if s.value is not None else None
            targets = s.targets if isinstance(s, ast.Assign) else [s.target]
            for t in targets:
                if isinstance(t, ast.Name):
                    env[t.id] = v
                elif isinstance(t, ast.Tuple) and isinstance(v, tuple) and len(v) == len(t.elts) and all(isinstance(x, ast.Name) for x in t.elts):
                    for x, y in zip(t.elts, v):
                        env[x.id] = y
                else:
                    raise AnalysisError('%s: assignment %s is not modelled' % (self.what, ast.unparse(s)[:60]))
        elif isinstance(s, ast.If):
            self.block(s.body if self.truth(self.ev(s.test, env)) else s.orelse, env)
        elif isinstance(s, ast.Return):
            raise _Return(self.ev(s.value, env) if s.value is not None else None)
        elif isinstance(s, ast.Pass):
            pass
        elif isinstance(s, ast.For) and not s.orelse:
            seq = self.ev(s.iter, env)
            if not isinstance(seq, (list, tuple)):
                raise AnalysisError('%s: loop over %s is not modelled' % (self.what, ast.unparse(s.iter)[:60]))
            for x in seq:
                self._bind(s.target, x, env)
                self.block(s.body, env)
        else:
            raise AnalysisError('%s: statement %s is not modelled' % (self.what, ast.unparse(s)[:60]))

    def _bind(self, t, v, env):
        if isinstance(t, ast.Name):
            env[t.id] = v
        elif isinstance(t, (ast.Tuple, ast.List)) and isinstance(v, (tuple, list)) and len(v) == len(t.elts):
            for x, y in zip(t.elts, v):
                self._bind(x, y, env)
        else:
            raise AnalysisError('%s: binding %s is not modelled' % (self.what, ast.unparse(t)[:60]))

    @staticmethod
    def truth(v):
        if isinstance(v, Opaque):
            return True
        return bool(v)

    def ev(self, e, env):
        if isinstance(e, ast.Constant):
            return e.value
        if isinstance(e, ast.Name):
            if e.id in env:
                return env[e.id]
            if e.id in self.calls:
                return ('#callable', e.id)
            return Opaque(e.id)
        if isinstance(e, ast.Tuple):
            return tuple(self.ev(x, env) for x in e.elts)
        if isinstance(e, ast.Attribute):
            base = self.ev(e.value, env)
            if isinstance(base, self.models):
                return getattr(base, e.attr)
            if isinstance(base, Opaque):
                return Opaque('%s.%s' % (base.what, e.attr))
            raise AnalysisError('%s: attribute %s of %r is not modelled' % (self.what, e.attr, base))
        if isinstance(e, ast.Subscript):
            base, idx = self.ev(e.value, env), self.ev(e.slice, env)
            if isinstance(base, (tuple, list)) and isinstance(idx, int):
                return base[idx]
            if isinstance(base, dict) and idx in base:
                return base[idx]
            raise AnalysisError('%s: subscript %s is not modelled' % (self.what, ast.unparse(e)[:60]))
        if isinstance(e, ast.JoinedStr):
            out = []
            for v in e.values:
                if isinstance(v, ast.Constant):
                    out.append(v.value)
                else:
                    x = self.ev(v.value, env)
                    if isinstance(x, Opaque):
                        raise AnalysisError('%s: opaque value in emitted text %s' % (self.what, ast.unparse(e)[:60]))
                    spec = self.ev(v.format_spec, env) if v.format_spec is not None else ''
                    out.append(format(int(x) if spec.endswith('d') else x, spec))
            return ''.join(out)
        if isinstance(e, ast.BinOp) and isinstance(e.op, ast.Mod):
            a, b = self.ev(e.left, env), self.ev(e.right, env)
            if isinstance(a, str):
                args = b if isinstance(b, tuple) else (b,)
                if any(isinstance(x, Opaque) for x in args):
                    raise AnalysisError('%s: opaque value in emitted text %s' % (self.what, ast.unparse(e)[:60]))
                return a % args
        if isinstance(e, ast.List):
            return [self.ev(x, env) for x in e.elts]
        if isinstance(e, ast.UnaryOp) and isinstance(e.op, ast.Not):
            return not self.truth(self.ev(e.operand, env))
        if isinstance(e, ast.BoolOp):
            v = None
            for x in e.values:
                v = self.ev(x, env)
                if isinstance(e.op, ast.And) and not self.truth(v):
                    return v
                if isinstance(e.op, ast.Or) and self.truth(v):
                    return v
            return v
        if isinstance(e, ast.IfExp):
            return self.ev(e.body if self.truth(self.ev(e.test, env)) else e.orelse, env)
        if isinstance(e, ast.BinOp) and isinstance(e.op, (ast.Add, ast.Sub)):
            a, b = self.ev(e.left, env), self.ev(e.right, env)
            if isinstance(a, int) and isinstance(b, int):
                return a + b if isinstance(e.op, ast.Add) else a - b
            raise AnalysisError('%s: arithmetic %s is not modelled' % (self.what, ast.unparse(e)[:60]))
        if isinstance(e, ast.Compare) and len(e.ops) == 1:
            a, b = self.ev(e.left, env), self.ev(e.comparators[0], env)
            op = e.ops[0]
            if isinstance(a, Opaque) or isinstance(b, Opaque):
                if isinstance(op, (ast.Is, ast.IsNot)) and (a is None or b is None):
                    return isinstance(op, ast.IsNot)
                raise AnalysisError('%s: comparison %s on an opaque value' % (self.what, ast.unparse(e)[:60]))
            if isinstance(op, (ast.Eq, ast.NotEq)):
                return (a == b) == isinstance(op, ast.Eq)
            if isinstance(op, (ast.Is, ast.IsNot)):
                return (a is b or a == b and isinstance(a, (bool, int, str, type(None)))) == isinstance(op, ast.Is)
            if isinstance(op, (ast.In, ast.NotIn)) and isinstance(b, (tuple, str)):
                return (a in b) == isinstance(op, ast.In)
            raise AnalysisError('%s: comparison %s is not modelled' % (self.what, ast.unparse(e)[:60]))
        if isinstance(e, ast.Call):
            f = self.ev(e.func, env)
            args = [self.ev(a, env) for a in e.args]
            kwargs = {k.arg: self.ev(k.value, env) for k in e.keywords}
            if callable(f) and getattr(f, '__self__', None) is not None and isinstance(f.__self__, self.models):
                return f(*args, **kwargs)
            if isinstance(f, tuple) and f and f[0] == '#callable':
                return self.calls[f[1]](*args, **kwargs)
            if isinstance(f, Opaque) and f.what in ('enumerate', 'zip', 'int', 'bool', 'len', 'list', 'range') and f.what not in self.calls and \
                    all(isinstance(a, (list, tuple, int, bool, str)) for a in args):
                return {'enumerate': lambda *a: list(enumerate(*a)), 'zip': lambda *a: list(zip(*a)), 'int': int, 'bool': bool, 'len': len, 'list': list, 'range': lambda *a: list(range(*a))}[f.what](*args)
            if isinstance(f, Opaque):
                name = f.what
                if name in self.calls:
                    return self.calls[name](*args, **kwargs)
                raise AnalysisError('%s: call of %s is not modelled' % (self.what, name))
            raise AnalysisError('%s: call %s is not modelled' % (self.what, ast.unparse(e)[:60]))
        raise AnalysisError('%s: expression %s is not modelled' % (self.what, ast.unparse(e)[:60]))


CLAUSES = [     # (name, tokens, expected value kind, expected check ('default' = depends on extern), explicit clause)
    ('nothing', [], None, 'default', False),
    ('noexcept', [('IDENT', 'noexcept')], None, False, True),
    ('except v', [('except', 'except'), ('INT', '-1')], 'expr', False, True),
    ('except? v', [('except', 'except'), ('?', '?'), ('INT', '-1')], 'expr', True, True),
    ('except *', [('except', 'except'), ('*', '*')], None, True, True),
    ('except +', [('except', 'except'), ('+', '+')], None, '+', True),
    ('except +*', [('except', 'except'), ('+', '+'), ('*', '*')], 'char*', '+', True),
    ('except +Name', [('except', 'except'), ('+', '+'), ('IDENT', 'MemoryError')], 'name', '+', True),
]


def parse_clause_rows(fn):
    rows = []
    for cname, toks, want_val, want_check, want_clause in CLAUSES:
        for is_extern in (False, True):
            s = ModelScanner(toks)

            def p_test(sc):
                sc.next()
                return Opaque('expr')

            def p_name(sc, name):
                return Opaque('name')

            def char_node(pos, value=None):
                return Opaque('char' + str(value))

            def error(pos, msg):
                s.errors.append(msg)
            mini = Mini((ModelScanner,), {'p_test': p_test, 'p_name': p_name, 'error': error, 'ExprNodes.CharNode': char_node}, 'p_exception_value_clause')
            params = [a.arg for a in fn.args.args]
            got = mini.run(fn, {params[0]: s, params[1]: is_extern})
            rows.append((cname, is_extern, got, s, want_val, (not is_extern) if want_check == 'default' else want_check, want_clause))
    return rows


def parse_problems(fn):
    probs, n = [], 0
    for cname, is_extern, got, s, want_val, want_check, want_clause in parse_clause_rows(fn):
        n += 1
        where = '`%s` on %s function' % (cname, 'an extern' if is_extern else 'a cdef')
        if not (isinstance(got, tuple) and len(got) == 3):
            probs.append('%s: returns %r instead of (value, check, explicit)' % (where, got))
            continue
        val, check, clause = got
        kind = None if val is None else (val.what.replace('char*', 'char*') if isinstance(val, Opaque) else repr(val))
        if kind == 'char*':
            kind = 'char*'
        if (kind or None) != want_val:
            probs.append('%s: exception value is %s, expected %s' % (where, kind, want_val))
        elif check != want_check or type(check) is not type(want_check):
            probs.append('%s: exception_check is %r, the language table says %r (%s)' % (
                where, check, want_check,
                'the PyErr_Occurred() test after calls disappears, exceptions are hidden / a legitimate sentinel is taken for an error' if not check else
                'callers test for an exception the declaration does not allow'))
        elif bool(clause) != want_clause:
            probs.append('%s: explicit-clause flag is %r' % (where, clause))
        elif s.sy != 'NEWLINE':
            probs.append('%s: the clause is not consumed completely (stops at %r)' % (where, s.systring))
        elif s.errors:
            probs.append('%s: reports an error: %s' % (where, s.errors[0]))
    return n, probs


def rule_parse(ctx):
    r = Rule('C32-PARSE', 'p_exception_value_clause maps every clause shape (nothing, noexcept, except v, except? v, except *, except +, except +*, except +Name) x (extern, own) '
                          'to the (value, check, explicit) triple of the language table', floor=14)
    ix = ctx.index
    fn = None
    for qn, owner, f in ix.functions_of(ix.mod('Parsing')):
        if qn == 'p_exception_value_clause':
            fn = f
    if fn is None:
        raise AnalysisError('Parsing.p_exception_value_clause vanished')
    n, probs = parse_problems(fn)
    for i in range(n):
        r.inst('parse:row%d' % i)
    seen = set()
    for pb in probs:
        k = pb.split(':')[0].split(' on ')[0]
        if k in seen:
            continue
        seen.add(k)
        r.violate('Parsing.p_exception_value_clause:%s' % k.strip('`'), PARSING, fn.lineno, 'p_exception_value_clause, %s' % pb)
    pc = ast.parse('''
def p_exception_value_clause(s, is_extern):
    exc_clause = False
    exc_val = None
    exc_check = False if is_extern else True
    if s.sy == 'except':
        exc_clause = True
        s.next()
        if s.sy == '*':
            exc_check = False
            s.next()
        else:
            exc_check = s.sy == '?'
            if exc_check:
                s.next()
            exc_val = p_test(s)
    return exc_val, exc_check, exc_clause
''').body[0]
    _, pp = parse_problems(pc)
    r.positive_control(any('`except *`' in p for p in pp) and not any('`except? v`' in p or '`except v`' in p for p in pp), '`except *` parsed as unchecked')
    return r


# ---------------------------------------------------------------------------------------------- C32-DECL
class _Localise(ast.NodeTransformer):
    """self.exception_value / self.exception_check -> locals, so that the decision-table evaluator (which does not model the heap) follows their updates"""

    def visit_Attribute(self, node):
        self.generic_visit(node)
        if isinstance(node.value, ast.Name) and node.value.id == 'self' and node.attr in ('exception_value', 'exception_check'):
            return ast.copy_location(ast.Name(id='__self_' + node.attr, ctx=node.ctx), node)
        return node


def _root(v):
    """the value at the root of a chain of method calls  x.a().b(c).d()"""
    seen = 0
    while isinstance(v, Call) and seen < 12:
        seen += 1
        if v.recv is not None:
            v = v.recv
        else:
            break
    return v


class _ExcVal(Obj):
    """result of <node>.as_exception_value(env): never None (ASSUMPTIONS of C32); remembers the node it was made from"""

    def __init__(self, root):
        Obj.__init__(self, 'exception value object', True)
        self.root = root

    def __eq__(self, other):
        return other is self

    def __hash__(self):
        return id(self)


class _DeclEval(Evaluator):
    def _call(self, e, st):
        v = Evaluator._call(self, e, st)
        if isinstance(v, Call) and v.name == 'as_exception_value':
            return _ExcVal(_root(v))
        return v


def decl_rows(fn):
    """-> list of (point dict, [(exc_val kind, exc_check)] over the paths)"""
    import copy
    fn2 = _Localise().visit(copy.deepcopy(fn))
    ast.fix_missing_locations(fn2)
    rows = []
    clause_kinds = [('none', None, True, False), ('none-extern', None, False, False), ('noexcept', None, False, True), ('except v', 'USER', False, True),
                    ('except? v', 'USER', True, True), ('except *', None, True, True), ('except +', None, '+', True)]
    for cname, val, check, explicit in clause_kinds:
        for ret_obj in (False, True):
            for ret_default in ((None,) if ret_obj else (None, -1)):
                for extern, in_pxd, cclass, ptr, legacy in itertools.product((False, True), (False, True), (False, True), (False, True), (False, True)):
                    if cname == 'none-extern' and not extern:
                        continue
                    if cname == 'none' and extern:
                        continue          # the parser gives check=False for extern functions without a clause
                    user = Fresh('user exception value') if val else None
                    vis = 'extern' if extern else 'private'
                    point = {'self.has_explicit_exc_clause': explicit, 'return_type.is_pyobject': ret_obj, 'return_type.exception_value': ret_default,
                             'return_type.is_cfunction': False, 'return_type.is_int': not ret_obj, 'return_type.is_float': False,
                             'visibility': vis, 'in_pxd': in_pxd, 'env.is_c_class_scope': cclass, "env.directives['legacy_implicit_noexcept']": legacy,
                             'nonempty': 0, 'directive_locals': None, 'self.optional_arg_count': 0, "env.directives['callspec']": None,
                             'func_type.return_type.is_rvalue_reference': False}

                    def call_oracle(f, a, k, ptr=ptr):
                        if f == 'isinstance' and len(a) == 2 and isinstance(a[1], Obj) and a[1].path == 'CPtrDeclaratorNode':
                            return ptr
                        if f == 'isinstance':
                            return False
                        if f == 'error' or f == 'warning':
                            return None
                        return NOTFOUND
                    ev = _DeclEval(lambda p: point.get(p, NOTFOUND), call_oracle, what='CFuncDeclaratorNode.analyse')
                    env = {'__self_exception_value': user, '__self_exception_check': check}
                    for k2 in ('visibility', 'in_pxd', 'nonempty', 'directive_locals'):
                        env[k2] = point[k2]
                    outs = set()
                    errors = False
                    for p in ev.run_function(fn2, env):
                        if p.kind == 'raise':
                            continue
                        errs = [e for e in p.events if isinstance(e, Call) and e.func == 'error' and e.args[1:] and isinstance(e.args[1], str) and 'xception' in e.args[1]]
                        cf = [e for e in p.events if isinstance(e, Call) and e.name == 'CFuncType']
                        if not cf:
                            raise AnalysisError('C32-DECL: a path of CFuncDeclaratorNode.analyse builds no CFuncType')
                        kw = cf[-1].kwargs
                        if 'exception_value' not in kw or 'exception_check' not in kw:
                            raise AnalysisError('C32-DECL: CFuncType(...) is no longer called with exception_value= / exception_check= keywords')
                        v, c = kw['exception_value'], kw['exception_check']
                        root = v.root if isinstance(v, _ExcVal) else _root(v)
                        if v is None:
                            vk = None
                        elif root is user and user is not None:
                            vk = 'user'
                        elif isinstance(root, Call) and 'ConstNode' in root.func or (isinstance(root, Obj) and 'ConstNode' in (root.path or '')):
                            vk = 'implicit'
                        else:
                            vk = 'other:%r' % (v,)
                        if not isinstance(c, (bool, int, str)):
                            raise AnalysisError('C32-DECL: exception_check handed to CFuncType is %r, not decided by the domain point %s' % (c, cname))
                        outs.add((vk, c if c == '+' else bool(c), bool(errs)))
                    rows.append((dict(point, clause=cname, ptr=ptr), outs))
    return rows


def decl_problems(fn):
    probs, n = [], 0
    for point, outs in decl_rows(fn):
        n += 1
        cname = point['clause']
        obj, legacy, extern = point['return_type.is_pyobject'], point["env.directives['legacy_implicit_noexcept']"], point['visibility'] == 'extern'
        desc = '%s, %s return%s%s%s%s%s' % (cname, 'object' if obj else 'C', ' with default error value -1' if point['return_type.exception_value'] is not None else '',
                                       ', extern' if extern else '', ', in a pxd' if point['in_pxd'] else '', ', cdef class method' if point['env.is_c_class_scope'] else '',
                                       ', legacy_implicit_noexcept' if legacy else '')
        for vk, c, err in outs:
            if err:
                continue                    # a compile error is reported for this combination: no code is generated
            if obj:
                if c == '+':
                    continue
                if c or vk is not None:
                    probs.append(('object', desc, 'an object-returning function gets exception_check=%r / value %s: callers test a sentinel although NULL already signals the error' % (c, vk)))
                continue
            implicit_noexcept = legacy and cname == 'none' and not extern
            if cname in ('noexcept', 'none-extern') or implicit_noexcept:
                if c or vk is not None:
                    probs.append(('noexcept', desc, 'gets exception_check=%r, value %s instead of noexcept' % (c, vk)))
            elif cname == 'except v':
                if c is not False or vk != 'user':
                    probs.append(('except v', desc, 'gets exception_check=%r, value %s instead of (declared value, no check)' % (c, vk)))
            elif cname == 'except? v':
                if c is not True or vk != 'user':
                    probs.append(('except? v', desc, 'gets exception_check=%r, value %s instead of (declared value, check): %s' % (
                        c, vk, 'a legitimate return of the sentinel raises SystemError' if not c else 'the declared sentinel is lost')))
            elif cname in ('except *', 'none'):
                if c is not True:
                    probs.append((cname, desc, 'gets exception_check=%r (value %s): %s' % (
                        c, vk, 'the implicit error value is tested WITHOUT PyErr_Occurred(), so every legitimate return of that value is taken for an error' if vk is not None
                        else 'the function is treated as noexcept: its exceptions are printed as unraisable instead of propagating')))
                elif vk == 'user' or (vk or '').startswith('other'):
                    probs.append((cname, desc, 'gets the exception value %s out of nowhere' % vk))
            elif cname == 'except +':
                if c != '+':
                    probs.append((cname, desc, 'gets exception_check=%r instead of "+"' % (c,)))
    return n, probs


def rule_decl(ctx):
    r = Rule('C32-DECL', 'CFuncDeclaratorNode.analyse hands CFuncType the declared exception specification: explicit clauses unchanged, an implicit error value only together with the '
                         'PyErr_Occurred() check, noexcept only when declared (or legacy_implicit_noexcept without an explicit clause)', floor=300)
    ix = ctx.index
    cls = ix.cls('Nodes', 'CFuncDeclaratorNode')
    got = ix.find_method(cls, 'analyse')
    if got is None:
        raise AnalysisError('CFuncDeclaratorNode.analyse vanished')
    n, probs = decl_problems(got[1])
    for i in range(n):
        r.inst('decl:row%d' % i)
    seen = set()
    for k, desc, what in probs:
        if k in seen:
            continue
        seen.add(k)
        r.violate('Nodes.CFuncDeclaratorNode.analyse:%s' % k, NODES, got[1].lineno, 'CFuncDeclaratorNode.analyse: a function declared with [%s] %s' % (desc, what))
    pc = ast.parse('''
def analyse(self, return_type, env, nonempty=0, directive_locals=None, visibility=None, in_pxd=False):
    exc_val = None
    exc_check = 0
    if not return_type.is_pyobject:
        if self.exception_value is None and self.exception_check and self.exception_check != '+':
            if return_type.exception_value is not None:
                self.exception_value = ConstNode.for_type(self.pos, value=str(return_type.exception_value), type=return_type)
                self.exception_check = False
        if self.exception_value is not None:
            exc_val = self.exception_value.as_exception_value(env)
        exc_check = self.exception_check
    func_type = PyrexTypes.CFuncType(return_type, [], exception_value=exc_val, exception_check=exc_check)
    return func_type
''').body[0]
    _, pp = decl_problems(pc)
    r.positive_control(any(k in ('none', 'except *') for k, _, _ in pp) and not any(k in ('except v', 'except? v') for k, _, _ in pp),
                       'implicit error value installed without the PyErr_Occurred() check')
    return r


# ---------------------------------------------------------------------------------------------- C32-COMPAT
SPECS = [('noexcept', False, None), ('except v', False, 'v'), ('except w', False, 'w'), ('except? v', True, 'v'), ('except? w', True, 'w'), ('except *', True, None)]


def compat_expected(S, O):
    sc, sv = S[1], S[2]
    oc, ov = O[1], O[2]
    if oc and ov is None:                  # except *: PyErr_Occurred() after every call
        return True
    if not oc and ov is None:              # noexcept: no test at all
        return not sc and sv is None
    if not oc:                             # except v: sentinel test only
        return (not sc) and sv == ov
    return (sv == ov) or (not sc and sv is None)      # except? v


def compat_table(ix):
    cls = ix.cls('PyrexTypes', 'CFuncType')
    got = ix.find_method(cls, '_is_exception_compatible_with')
    same = ix.find_method(cls, '_same_exception_value')
    if got is None or same is None:
        raise AnalysisError('CFuncType._is_exception_compatible_with / _same_exception_value vanished')
    fn, fsame = got[1], same[1]

    def run(f, point, env):
        def call_oracle(fp, a, k):
            if fp == 'str' and len(a) == 1 and (a[0] is None or isinstance(a[0], (str, int))):
                return str(a[0])
            if fp == 'self._same_exception_value' and len(a) == 1:
                res = run(fsame, point, {fsame.args.args[1].arg: a[0]})
                if len(res) != 1:
                    raise AnalysisError('C32-COMPAT: _same_exception_value is not decided for %s' % point)
                return res.pop()
            return NOTFOUND
        ev = Evaluator(lambda p: point.get(p, NOTFOUND), call_oracle, what='CFuncType.' + f.name)
        out = set()
        for p in ev.run_function(f, env):
            if p.kind == 'raise':
                continue
            v = p.ret if p.kind == 'return' else None
            if not isinstance(v, (bool, int, type(None))):
                raise AnalysisError('C32-COMPAT: %s returns %r for %s' % (f.name, v, point))
            out.add(bool(v))
        return out
    other = fn.args.args[1].arg
    rows = []
    for S in SPECS + [('except +', '+', None)]:
        for O in SPECS:
            point = {'self.exception_check': S[1], 'self.exception_value': S[2], other + '.exception_check': O[1], other + '.exception_value': O[2]}
            res = run(fn, point, {})
            if len(res) != 1:
                raise AnalysisError('C32-COMPAT: _is_exception_compatible_with is not decided for S=%s, O=%s' % (S[0], O[0]))
            rows.append((S, O, res.pop()))
    return fn, rows


def rule_compat(ctx):
    r = Rule('C32-COMPAT', 'CFuncType._is_exception_compatible_with (function pointer assignment, cmethod override): a callee specification S is accepted for a declared '
                           'specification O only when O\'s call-side test detects exactly S\'s errors (decision table S x O)', floor=36)
    fn, rows = compat_table(ctx.index)
    seen = set()
    for S, O, got in rows:
        key = 'compat:%s->%s' % (S[0], O[0])
        r.inst(key, sample='%s used as %s: %s' % (S[0], O[0], 'accepted' if got else 'rejected'))
        want = False if S[1] == '+' else compat_expected(S, O)
        if got and not want:
            k = (S[0].replace(' w', ' v'), O[0].replace(' w', ' v'))
            if k in seen:
                continue
            seen.add(k)
            sc, sv, oc, ov = S[1], S[2], O[1], O[2]
            if S[1] == '+':
                why = 'C++ exceptions thrown by the callee are not translated by the caller'
            elif not oc and ov is None:
                why = 'calls through the declared type make no error test at all: the callee\'s exceptions are hidden'
            elif sv != ov and sv is not None:
                why = 'the caller tests for %s but the callee signals errors with %s: errors are missed and a legitimate %s fabricates one' % (ov, sv, ov)
            elif sv is None:
                why = 'the callee signals errors without the sentinel %s the caller tests for: its exceptions are hidden' % ov
            else:
                why = 'the caller tests only the sentinel, but the callee may return it legitimately (except?): a legitimate return fabricates an error (SystemError)'
            r.violate('PyrexTypes.CFuncType._is_exception_compatible_with:%s->%s' % k, PYREX, fn.lineno,
                      '_is_exception_compatible_with accepts a function declared `%s` where `%s` is declared (function pointer / overridden C method): %s' % (S[0], O[0], why))
    r.positive_control(compat_expected(SPECS[3], SPECS[1]) is False and compat_expected(SPECS[0], SPECS[3]) is True, 'except? v is not usable as except v; noexcept is usable as except? v')
    return r


# ---------------------------------------------------------------------------------------------- C32-TEMP
def rule_temp(ctx):
    ix = ctx.index
    r = Rule('C32-TEMP', 'SimpleCallNode.analyse_c_function_call makes the call a temp (the form whose generate_result_code emits the error test) whenever the function type has an '
                         'exception value or an exception check', floor=3)
    cls = ix.cls('ExprNodes', 'SimpleCallNode')
    got = ix.find_method(cls, 'analyse_c_function_call')
    gen = ix.find_method(cls, 'generate_result_code')
    if got is None or gen is None:
        raise AnalysisError('SimpleCallNode.analyse_c_function_call / generate_result_code vanished')
    fn = got[1]
    # the emitter is reached only under `self.is_temp`: confirm the coupling this rule relies on
    coupled = False
    for n in ast.walk(gen[1]):
        if isinstance(n, ast.If) and 'self.is_temp' in ast.unparse(n.test) and any(isinstance(c, ast.Call) and getattr(c.func, 'id', getattr(c.func, 'attr', '')) == 'generate_cfunction_call' for c in ast.walk(n)):
            coupled = True
    if not coupled:
        r.info('generate_result_code no longer guards generate_cfunction_call by self.is_temp: the obligation does not apply')
        r.inst('temp:uncoupled')
        return r
    # statements of the function that assign self.is_temp, as one decision table over the function-type flags
    bad, points = temp_table(fn)
    for pt in points:
        r.inst('temp:value-unset=%s:check=%s' % pt)
    if bad is not None:
        r.violate('ExprNodes.SimpleCallNode.analyse_c_function_call:is_temp', EXPRNODES, fn.lineno,
                  'analyse_c_function_call does not mark the call as a temp for a function type with %s: generate_result_code emits the error test only for temps '
                  '(`elif func_type.is_cfunction and self.is_temp`), so such calls are written inline by calculate_result_code without any exception test'
                  % ', '.join('%s = %s' % kv for kv in sorted(bad.items()) if 'exception' in kv[0]))
    pc = ast.parse('def analyse_c_function_call(self, env):\n    if self.type.is_pyobject:\n        self.is_temp = 1\n'
                   '    elif func_type.exception_value is not None and func_type.exception_check:\n        self.is_temp = 1\n').body[0]
    r.positive_control(temp_table(pc)[0] is not None, 'is_temp only when value AND check are present')
    return r


def temp_table(fn):
    """-> (first flag assignment for which a function type with an exception value / check is not made a temp, or None; the (value unset, check) points seen)"""
    from .sC35 import Table
    stmts = [s for s in fn.body if any(isinstance(t, ast.Attribute) and t.attr == 'is_temp' and isinstance(t.value, ast.Name) and t.value.id == 'self'
                                       for a in ast.walk(s) if isinstance(a, ast.Assign) for t in a.targets)]
    if not stmts:
        raise AnalysisError('C32-TEMP: analyse_c_function_call no longer assigns self.is_temp')

    def mark_stmt(s):
        if isinstance(s, ast.Assign) and any(isinstance(t, ast.Attribute) and t.attr == 'is_temp' for t in s.targets) and isinstance(s.value, ast.Constant):
            return 'temp' if s.value.value else 'not-temp'
        return None
    t = Table(stmts, lambda c: None, mark_stmt=mark_stmt)
    val_atoms = [a for a in t.atoms if re.fullmatch(r'\w+\.exception_value is None', a)]
    chk_atoms = [a for a in t.atoms if re.fullmatch(r'\w+\.exception_check', a)]
    if len(val_atoms) != 1 or len(chk_atoms) != 1:
        raise AnalysisError('C32-TEMP: the is_temp decision of analyse_c_function_call tests %s; expected one test of <func_type>.exception_value and one of <func_type>.exception_check' % t.atoms)
    bad = None
    seen_pts = []
    for val, marks in t.rows(max_atoms=14):
        needs = (not val[val_atoms[0]]) or val[chk_atoms[0]]
        pt = (val[val_atoms[0]], val[chk_atoms[0]])
        if pt not in seen_pts:
            seen_pts.append(pt)
        if needs and 'temp' not in marks and bad is None:
            bad = val
    return bad, seen_pts


# ---------------------------------------------------------------------------------------------- C32-ERRGIL
def rule_errgil(ctx):
    ix = ctx.index
    r = Rule('C32-ERRGIL', 'error exit of FuncDefNode.generate_function_definitions: put_add_traceback / put_unraisable are emitted only after assure_gil(\'error\') in the same block', floor=2)
    cls = ix.cls('Nodes', 'FuncDefNode')
    got = ix.find_method(cls, 'generate_function_definitions')
    if got is None:
        raise AnalysisError('FuncDefNode.generate_function_definitions vanished')
    fn = got[1]
    for attr, line, ok in errgil_sites(fn):
        key = 'Nodes.FuncDefNode.generate_function_definitions:%s' % attr
        r.inst(key, sample='%s at line %d' % (attr, line))
        if not ok:
            r.violate(key, NODES, line, 'the error exit emits %s without a preceding assure_gil(\'error\') in its block: in a nogil function (error raised inside a `with gil` block) '
                      'the traceback / unraisable report runs Python API calls without holding the GIL' % attr)
    pc = ast.parse('def generate_function_definitions(self, env, code):\n    def assure_gil(code_path, code=code):\n        code.put_ensure_gil()\n'
                   '    if exc_check:\n        assure_gil(\'error\')\n        code.put_add_traceback(name)\n    else:\n        code.put_unraisable(name)\n').body[0]
    r.positive_control([a for a, _, ok in errgil_sites(pc) if not ok] == ['put_unraisable'], 'unraisable branch without assure_gil')
    return r


def errgil_sites(fn):
    """-> [(emitter name, line, preceded by assure_gil('error') in its block)]"""
    out = []
    helper = None
    for n in ast.walk(fn):
        if isinstance(n, ast.FunctionDef) and n is not fn and any(isinstance(c, ast.Call) and getattr(c.func, 'attr', '') == 'put_ensure_gil' for c in ast.walk(n)):
            helper = n.name
    if helper is None:
        raise AnalysisError('C32-ERRGIL: the local GIL helper (a nested function calling put_ensure_gil) of generate_function_definitions vanished')

    def is_assure(st):
        return any(isinstance(c, ast.Call) and isinstance(c.func, ast.Name) and c.func.id == helper and c.args and isinstance(c.args[0], ast.Constant) and c.args[0].value == 'error'
                   for c in ast.walk(st)) and not isinstance(st, (ast.If, ast.For, ast.While, ast.FunctionDef))

    def visit(stmts, ensured):
        for st in stmts:
            if isinstance(st, ast.FunctionDef):
                continue
            if is_assure(st):
                ensured = True
                continue
            if isinstance(st, ast.If):
                visit(st.body, ensured)
                visit(st.orelse, ensured)
                continue
            if isinstance(st, (ast.For, ast.While, ast.With, ast.Try)):
                visit(getattr(st, 'body', []), ensured)
                continue
            for c in ast.walk(st):
                if isinstance(c, ast.Call) and isinstance(c.func, ast.Attribute) and c.func.attr in ('put_add_traceback', 'put_unraisable'):
                    out.append((c.func.attr, c.lineno, ensured))
    visit(fn.body, False)
    return out


# ---------------------------------------------------------------------------------------------- C32-ARGNAME
def rule_argname(ctx, helpers):
    from .iface import emitted_calls_fn, PLACEHOLDER
    ix, cat = ctx.index, ctx.cat
    r = Rule('C32-ARGNAME', 'emitted calls of the C32 helpers: an argument whose Python name is the name of a C parameter of the helper is passed at that parameter\'s position', floor=1)
    for m in ix.modules.values():
        if m.short not in ('Code', 'ExprNodes', 'Nodes', 'ModuleNode', 'PyrexTypes'):
            continue
        for qn, owner, fn in ix.functions_of(m):
            for n, name, args, argph in emitted_calls_fn(fn):
                if args is None or name not in helpers:
                    continue
                decls = [d for d in cat.lookup(name) if d.kind in ('func', 'proto')]
                if not decls:
                    continue
                pn = decls[0].param_names()
                if len(pn) != len(args):
                    continue
                key = '%s.%s:%s' % (m.short, qn, name)
                r.inst(key, sample='%s emits %s' % (m.short + '.' + qn, name))
                for i, (a, ph) in enumerate(zip(args, argph)):
                    nm = None
                    if a.strip() == PLACEHOLDER and len(ph) == 1 and isinstance(ph[0], ast.Name):
                        nm = ph[0].id
                    if nm and nm in pn and pn.index(nm) != i and pn[i] != nm:
                        r.violate(key + ':' + nm, m.rel, n.lineno, '%s passes its `%s` as argument %d of %s, whose parameter `%s` is argument %d (argument %d is `%s`): the two flags are interchanged in the emitted call'
                                  % (qn, nm, i + 1, name, nm, pn.index(nm) + 1, i + 1, pn[i]))
    return r
