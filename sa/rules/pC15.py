"""Helpers for C15 / C16: name alignment of call arguments, propositional evaluation of small Python guard
expressions, a mini Tempita reader, C preprocessor configuration enumeration, a parser for the structured C
subset used by the index helpers, and a path-enumerating evaluator that tracks what happened to the index
argument (wrap-around adjusted?  bounds-checked?) when it reaches an element access.

Nothing here executes text from the repository: template and preprocessor expressions are interpreted by the
small evaluators below, unknown constructs raise AnalysisError (never a silent pass, never a VIOLATION).
"""
import ast, itertools, re

from ..core import AnalysisError
from ..engine.cutil import split_args, match_paren


# ======================================================================================= name alignment
def norm_name(s):
    return re.sub(r'[^a-z0-9]', '', s.lower())


def match_param(name, params):
    """Position of the callee parameter that `name` names, or None.  Exact match modulo case/underscores wins;
    otherwise a unique affix match of at least 4 characters (c_start ~ cstart, start_code ~ start,
    p_suboffset_dim ~ suboffset_dim, strides ~ stride)."""
    n = norm_name(name)
    if not n:
        return None
    ps = [norm_name(p or '') for p in params]
    exact = [i for i, p in enumerate(ps) if p and p == n]
    if len(exact) == 1:
        return exact[0]
    if exact:
        return None
    aff = [i for i, p in enumerate(ps) if p and min(len(p), len(n)) >= 4 and
           (n.startswith(p) or n.endswith(p) or p.startswith(n) or p.endswith(n))]
    if len(aff) == 1:
        return aff[0]
    if len(aff) > 1:
        # prefer the longest parameter name (suboffset_dim over suboffset)
        best = max(len(ps[i]) for i in aff)
        top = [i for i in aff if len(ps[i]) == best]
        if len(top) == 1 and (n.endswith(ps[top[0]]) or n.startswith(ps[top[0]])):
            return top[0]
    return None


def misaligned(arg_names, params):
    """[(i, j, argname)]: argument at position i carries the name of parameter j != i (and not of parameter i)."""
    out = []
    for i, a in enumerate(arg_names):
        if not a or i >= len(params):
            continue
        j = match_param(a, params)
        if j is not None and j != i:
            out.append((i, j, a))
    return out


def py_expr_name(p):
    """The name a Python expression carries: x / self.x / x.result() / int(x) / bool(x) / '&%s' % x ..."""
    while True:
        if isinstance(p, ast.Call) and p.args and isinstance(p.func, ast.Name) and p.func.id in ('int', 'bool', 'str') and len(p.args) == 1:
            p = p.args[0]
        elif isinstance(p, ast.Call) and isinstance(p.func, ast.Attribute) and not p.args and not p.keywords:
            p = p.func.value
        elif isinstance(p, ast.FormattedValue):
            p = p.value
        else:
            break
    if isinstance(p, ast.Name):
        return p.id
    if isinstance(p, ast.Attribute):
        return p.attr
    if isinstance(p, ast.Subscript) and isinstance(p.slice, ast.Constant) and isinstance(p.slice.value, str):
        return p.slice.value          # directives['wraparound'] carries the name "wraparound"
    return None


# ======================================================================================= propositional worlds
class Unknown(Exception):
    pass


SENTINEL = object()      # "the index is not a compile time constant"


class Worlds:
    """Evaluate a Python boolean expression over every assignment of its atoms.

    Known atom shapes (classified by `kind`):
      ('dir', name)   X.directives['name'] / X.directives.get('name')
      ('signed',)     <anything>.signed
      ('nogil',)      attribute whose name contains 'nogil'
      ('const', ...)  tests on <anything>.constant_result, evaluated concretely from the world's constant
      ('free', text)  everything else: an independent boolean
    """

    def __init__(self, env=None):
        self.env = env or {}

    # -- expression normalisation -------------------------------------------------------------------
    def resolve(self, e, depth=0):
        if isinstance(e, ast.Name) and e.id in self.env and len(self.env[e.id]) == 1 and depth < 6:
            return self.resolve(self.env[e.id][0], depth + 1)
        return e

    @staticmethod
    def directive_of(e):
        if isinstance(e, ast.Subscript) and isinstance(e.value, ast.Attribute) and e.value.attr == 'directives' \
                and isinstance(e.slice, ast.Constant) and isinstance(e.slice.value, str):
            return e.slice.value
        if isinstance(e, ast.Subscript) and isinstance(e.value, ast.Name) and e.value.id == 'directives' \
                and isinstance(e.slice, ast.Constant) and isinstance(e.slice.value, str):
            return e.slice.value
        if isinstance(e, ast.Call) and isinstance(e.func, ast.Attribute) and e.func.attr == 'get' and e.args \
                and isinstance(e.func.value, (ast.Attribute, ast.Name)) and \
                (getattr(e.func.value, 'attr', None) == 'directives' or getattr(e.func.value, 'id', None) == 'directives') \
                and isinstance(e.args[0], ast.Constant):
            return e.args[0].value
        return None

    def atoms(self, e, out=None):
        out = {} if out is None else out
        e = self.resolve(e)
        if isinstance(e, ast.BoolOp):
            for v in e.values:
                self.atoms(v, out)
        elif isinstance(e, ast.UnaryOp) and isinstance(e.op, ast.Not):
            self.atoms(e.operand, out)
        elif isinstance(e, ast.IfExp):
            for v in (e.test, e.body, e.orelse):
                self.atoms(v, out)
        elif isinstance(e, ast.Call) and isinstance(e.func, ast.Name) and e.func.id in ('bool', 'int') and len(e.args) == 1:
            self.atoms(e.args[0], out)
        elif isinstance(e, ast.Constant):
            pass
        else:
            out[ast.dump(e)] = self.kind(e)
        return out

    def kind(self, e):
        d = self.directive_of(e)
        if d is not None:
            return ('dir', d)
        if isinstance(e, ast.Attribute) and e.attr == 'signed':
            return ('signed',)
        if isinstance(e, ast.Attribute) and 'nogil' in e.attr:
            return ('nogil',)
        txt = ast.unparse(e)
        if 'constant_result' in txt:
            return ('const', txt)
        return ('free', txt)

    # -- evaluation -----------------------------------------------------------------------------------
    def ev(self, e, w):
        """w: dict atom-dump -> bool for dir/signed/nogil/free atoms, plus w['#const'] = int | SENTINEL."""
        e = self.resolve(e)
        if isinstance(e, ast.BoolOp):
            if isinstance(e.op, ast.And):
                for v in e.values:
                    if not self.ev(v, w):
                        return False
                return True
            for v in e.values:
                if self.ev(v, w):
                    return True
            return False
        if isinstance(e, ast.UnaryOp) and isinstance(e.op, ast.Not):
            return not self.ev(e.operand, w)
        if isinstance(e, ast.IfExp):
            return self.ev(e.body if self.ev(e.test, w) else e.orelse, w)
        if isinstance(e, ast.Call) and isinstance(e.func, ast.Name) and e.func.id in ('bool', 'int') and len(e.args) == 1:
            return self.ev(e.args[0], w)
        if isinstance(e, ast.Constant):
            return bool(e.value)
        k = self.kind(e)
        if k[0] == 'const':
            return self.const_atom(e, w)
        return w[ast.dump(e)]

    @staticmethod
    def _is_cr(e):
        return isinstance(e, ast.Attribute) and e.attr == 'constant_result'

    def const_atom(self, e, w):
        c = w['#const']
        if isinstance(e, ast.Call) and isinstance(e.func, ast.Attribute) and e.func.attr == 'has_constant_result' and not e.args:
            return c is not SENTINEL
        if isinstance(e, ast.Call) and isinstance(e.func, ast.Name) and e.func.id == 'isinstance' and len(e.args) == 2 and self._is_cr(e.args[0]):
            t = e.args[1]
            names = [x.id for x in (t.elts if isinstance(t, ast.Tuple) else [t]) if isinstance(x, ast.Name)]
            if 'int' in names:
                return c is not SENTINEL
            raise Unknown(ast.unparse(e))
        if isinstance(e, ast.Compare) and len(e.ops) == 1:
            l, r = e.left, e.comparators[0]
            op = e.ops[0]
            flip = False
            if self._is_cr(r) and not self._is_cr(l):
                l, r, flip = r, l, True
            if self._is_cr(l):
                try:
                    val = ast.literal_eval(r)
                except Exception:
                    raise Unknown(ast.unparse(e))
                if isinstance(val, bool) or not isinstance(val, int):
                    raise Unknown(ast.unparse(e))
                if c is SENTINEL:
                    # comparing the not-a-constant marker: the real code guards this; treat as false
                    return isinstance(op, (ast.NotEq, ast.IsNot))
                a, b = (val, c) if flip else (c, val)
                import operator as o
                tbl = {ast.Lt: o.lt, ast.LtE: o.le, ast.Gt: o.gt, ast.GtE: o.ge, ast.Eq: o.eq, ast.NotEq: o.ne}
                if type(op) in tbl:
                    return tbl[type(op)](a, b)
        raise Unknown(ast.unparse(e))

    def worlds(self, exprs, consts=(SENTINEL, -7, -1, 0, 1, 9)):
        atoms = {}
        for e in exprs:
            self.atoms(e, atoms)
        free = [k for k, v in atoms.items() if v[0] != 'const']
        if len(free) > 14:
            raise AnalysisError('guard expression has %d independent atoms; too many to enumerate' % len(free))
        has_const = any(v[0] == 'const' for v in atoms.values())
        for bits in itertools.product((False, True), repeat=len(free)):
            w = dict(zip(free, bits))
            for c in (consts if has_const else (SENTINEL,)):
                w2 = dict(w)
                w2['#const'] = c
                yield w2, atoms

    @staticmethod
    def holds(w, atoms, kind, value):
        """Every atom of the given kind has the given value in world w (vacuously true when there is none)."""
        return all(w[k] == value for k, v in atoms.items() if v == kind and k in w)


def path_conditions(fn, target):
    """[(test expr, polarity)] of the enclosing if/elif chain of statement `target` inside function fn."""
    def rec(stmts, conds):
        for s in stmts:
            if s is target:
                return conds
            if isinstance(s, ast.If):
                r = rec(s.body, conds + [(s.test, True)])
                if r is not None:
                    return r
                r = rec(s.orelse, conds + [(s.test, False)])
                if r is not None:
                    return r
            elif isinstance(s, (ast.For, ast.While, ast.With, ast.Try)):
                for blk in (getattr(s, 'body', []), getattr(s, 'orelse', []), getattr(s, 'finalbody', [])):
                    r = rec(blk, conds)
                    if r is not None:
                        return r
                for h in getattr(s, 'handlers', []):
                    r = rec(h.body, conds)
                    if r is not None:
                        return r
        return None
    return rec(fn.body, [])


# ======================================================================================= mini Tempita
TEMPITA = re.compile(r'\{\{(.*?)\}\}', re.S)


def tempita_tokens(text):
    """[('text', s) | ('if'|'elif'|'for', expr) | ('else'|'endif'|'endfor',) | ('expr', e) | ('py', s) | ('default', s) | ('comment', s)]"""
    out, pos = [], 0
    for m in TEMPITA.finditer(text):
        if m.start() > pos:
            out.append(('text', text[pos:m.start()]))
        pos = m.end()
        body = m.group(1).strip()
        if body.startswith('#'):
            out.append(('comment', body))
        elif body.startswith('py:'):
            out.append(('py', body[3:]))
        elif re.match(r'(if|elif)\s', body):
            k, _, e = body.partition(' ')
            out.append((k, e.strip().rstrip(':')))
        elif body.startswith('for '):
            out.append(('for', body[4:].strip().rstrip(':')))
        elif body in ('else', 'else:'):
            out.append(('else',))
        elif body in ('endif', 'endfor'):
            out.append((body,))
        elif body.startswith('default '):
            out.append(('default', body[8:]))
        else:
            out.append(('expr', body))
    if pos < len(text):
        out.append(('text', text[pos:]))
    return out


class _TUnknown(Exception):
    pass


def _tev(e, env):
    """Evaluate a template expression of the small kind used in C utility code."""
    if isinstance(e, ast.Constant):
        return e.value
    if isinstance(e, ast.Name):
        if e.id in env:
            return env[e.id]
        raise _TUnknown(e.id)
    if isinstance(e, (ast.List, ast.Tuple)):
        return [_tev(x, env) for x in e.elts]
    if isinstance(e, ast.UnaryOp) and isinstance(e.op, ast.Not):
        return not _tev(e.operand, env)
    if isinstance(e, ast.BoolOp):
        vals = [_tev(v, env) for v in e.values]
        return all(vals) if isinstance(e.op, ast.And) else any(vals)
    if isinstance(e, ast.Compare) and len(e.ops) == 1:
        a, b = _tev(e.left, env), _tev(e.comparators[0], env)
        op = e.ops[0]
        if isinstance(op, ast.Eq):
            return a == b
        if isinstance(op, ast.NotEq):
            return a != b
        if isinstance(op, ast.In):
            return a in b
        if isinstance(op, ast.NotIn):
            return a not in b
    if isinstance(e, ast.Call) and isinstance(e.func, ast.Attribute) and e.func.attr in ('lower', 'upper', 'title') and not e.args:
        return getattr(str(_tev(e.func.value, env)), e.func.attr)()
    if isinstance(e, ast.Call) and isinstance(e.func, ast.Name) and e.func.id in env and callable(env[e.func.id]) and not e.keywords:
        return env[e.func.id](*[_tev(a, env) for a in e.args])      # a stand-in supplied by the checker, never repository code
    if isinstance(e, ast.Call) and isinstance(e.func, ast.Name) and e.func.id in ('int', 'str') and len(e.args) == 1:
        return {'int': int, 'str': str}[e.func.id](_tev(e.args[0], env))
    raise _TUnknown(ast.unparse(e))


def tempita_expand(text, env):
    """Expand if/elif/else/for/substitutions of a template for one variable binding."""
    toks = tempita_tokens(text)

    def parse_expr(s):
        try:
            return ast.parse(s.strip(), mode='eval').body
        except SyntaxError:
            raise AnalysisError('cannot parse template expression %r' % s)

    def run(i, env, active, stop):
        out = []
        while i < len(toks):
            t = toks[i]
            k = t[0]
            if k in stop:
                return ''.join(out), i
            if k == 'text':
                if active:
                    out.append(t[1])
                i += 1
            elif k == 'expr':
                if active:
                    out.append(str(_tev(parse_expr(t[1]), env)))
                i += 1
            elif k in ('comment', 'py', 'default'):
                i += 1
            elif k == 'if':
                taken = False
                cond = bool(_tev(parse_expr(t[1]), env)) if active else False
                i += 1
                while True:
                    body, i = run(i, env, active and cond and not taken, ('elif', 'else', 'endif'))
                    if active and cond and not taken:
                        out.append(body)
                        taken = True
                    nk = toks[i][0] if i < len(toks) else None
                    if nk == 'elif':
                        cond = bool(_tev(parse_expr(toks[i][1]), env)) if (active and not taken) else False
                        i += 1
                    elif nk == 'else':
                        cond = True
                        i += 1
                    elif nk == 'endif':
                        i += 1
                        break
                    else:
                        raise AnalysisError('unterminated {{if}} in template')
            elif k == 'for':
                m = re.match(r'(\w+)\s+in\s+(.*)$', t[1], re.S)
                if not m:
                    raise AnalysisError('unsupported template loop %r' % t[1])
                seq = _tev(parse_expr(m.group(2)), env) if active else []
                start = i + 1
                end = None
                if not seq:
                    _, end = run(start, env, False, ('endfor',))
                for v in seq:
                    e2 = dict(env)
                    e2[m.group(1)] = v
                    body, end = run(start, e2, active, ('endfor',))
                    out.append(body)
                i = end + 1
            else:
                raise AnalysisError('unexpected template directive %r' % (t,))
        return ''.join(out), i
    try:
        s, _ = run(0, dict(env), True, ())
    except _TUnknown as e:
        raise AnalysisError('template expression uses %s which the mini evaluator does not know' % e)
    return s


def enclosing_for(section_text, pos):
    """{var: [values]} of the literal {{for var in [...]}} loops enclosing offset pos of a template."""
    stack = []
    for m in TEMPITA.finditer(section_text[:pos]):
        b = m.group(1).strip()
        if b.startswith('for '):
            mm = re.match(r'for\s+(\w+)\s+in\s+(.*)$', b, re.S)
            vals = None
            if mm:
                try:
                    vals = ast.literal_eval(mm.group(2).strip().rstrip(':'))
                except Exception:
                    vals = None
            stack.append((mm.group(1) if mm else None, vals))
        elif b == 'endfor' and stack:
            stack.pop()
    out = {}
    for var, vals in stack:
        if var is None or not isinstance(vals, (list, tuple)):
            raise AnalysisError('template loop enclosing the function is not over a literal list')
        out[var] = list(vals)
    return out


# ======================================================================================= C preprocessor configurations
PP = re.compile(r'^[ \t]*#[ \t]*(if|ifdef|ifndef|elif|else|endif)\b(.*)$')


def _pp_atoms(expr):
    e = re.sub(r'defined\s*\(\s*(\w+)\s*\)', r'defined_\1', expr)
    e = re.sub(r'defined\s+(\w+)', r'defined_\1', e)
    # a comparison such as PY_VERSION_HEX >= 0x030d0000 is one atom
    e = re.sub(r'(\w+)\s*(>=|<=|==|!=|<|>)\s*(\w+)', lambda m: 'cmp_%s_%s_%s' % (m.group(1), {'>=': 'ge', '<=': 'le', '==': 'eq', '!=': 'ne', '<': 'lt', '>': 'gt'}[m.group(2)], m.group(3)), e)
    return e


def _pp_eval(expr, assign):
    e = _pp_atoms(expr)
    py = re.sub(r'&&', ' and ', e)
    py = re.sub(r'\|\|', ' or ', py)
    py = re.sub(r'!(?!=)', ' not ', py)
    try:
        tree = ast.parse(py.strip(), mode='eval').body
    except SyntaxError:
        raise AnalysisError('cannot interpret preprocessor condition %r' % expr)

    def ev(n):
        if isinstance(n, ast.BoolOp):
            vals = [ev(v) for v in n.values]
            return all(vals) if isinstance(n.op, ast.And) else any(vals)
        if isinstance(n, ast.UnaryOp) and isinstance(n.op, ast.Not):
            return not ev(n.operand)
        if isinstance(n, ast.Name):
            return assign[n.id]
        if isinstance(n, ast.Constant) and isinstance(n.value, int):
            return bool(n.value)
        raise AnalysisError('cannot interpret preprocessor condition %r' % expr)
    return ev(tree)


def pp_configs(text):
    """[(config description, text without preprocessor lines)] for every assignment of the atoms used in the
    #if conditions of `text` (duplicates by resulting text removed)."""
    lines = text.split('\n')
    atoms = []
    for ln in lines:
        m = PP.match(ln)
        if m and m.group(1) in ('if', 'elif', 'ifdef', 'ifndef'):
            rest = m.group(2).strip()
            if m.group(1) in ('ifdef', 'ifndef'):
                rest = 'defined(%s)' % rest
            for a in re.findall(r'[A-Za-z_]\w*', _pp_atoms(rest)):
                if a not in atoms and a not in ('and', 'or', 'not'):
                    atoms.append(a)
    if len(atoms) > 9:
        raise AnalysisError('%d preprocessor atoms in one function; too many configurations' % len(atoms))
    seen, out = {}, []
    for bits in itertools.product((1, 0), repeat=len(atoms)):
        assign = dict(zip(atoms, bits))
        keep, stack = [], []       # stack of [taken_already, currently_active, parent_active]
        for ln in lines:
            m = PP.match(ln)
            if not m:
                if all(s[1] for s in stack):
                    keep.append(ln)
                else:
                    keep.append('')
                continue
            d, rest = m.group(1), m.group(2).strip()
            keep.append('')
            if d in ('if', 'ifdef', 'ifndef'):
                if d == 'ifdef':
                    c = _pp_eval('defined(%s)' % rest, assign)
                elif d == 'ifndef':
                    c = not _pp_eval('defined(%s)' % rest, assign)
                else:
                    c = _pp_eval(rest, assign)
                stack.append([c, c])
            elif d == 'elif':
                if not stack:
                    raise AnalysisError('#elif without #if')
                if stack[-1][0]:
                    stack[-1][1] = False
                else:
                    c = _pp_eval(rest, assign)
                    stack[-1] = [c, c]
            elif d == 'else':
                if not stack:
                    raise AnalysisError('#else without #if')
                stack[-1] = [True, not stack[-1][0]]
            elif d == 'endif':
                if not stack:
                    raise AnalysisError('#endif without #if')
                stack.pop()
        if stack:
            raise AnalysisError('unterminated #if inside a function body')
        t = '\n'.join(keep)
        key = re.sub(r'\s+', ' ', t)
        if key not in seen:
            seen[key] = True
            out.append((' '.join('%s=%d' % (a, assign[a]) for a in atoms), t))
    return out


# ======================================================================================= C subset parser
C_TOK = re.compile(r'''\s+|(?P<id>[A-Za-z_$]\w*)|(?P<num>0[xX][0-9a-fA-F]+[uUlL]*|\d+\.\d*|\.\d+|\d+[uUlL]*)|(?P<str>"(?:\\.|[^"\\])*")|(?P<chr>'(?:\\.|[^'\\])*')|(?P<op>->|\+\+|--|<<=|>>=|<<|>>|<=|>=|==|!=|&&|\|\||[-+*/%&|^]=|[-+*/%&|^~!<>=?:;,.(){}\[\]])''')

TYPE_WORDS = {'int', 'char', 'void', 'long', 'short', 'unsigned', 'signed', 'const', 'double', 'float', 'struct', 'static', 'volatile',
              'size_t', 'ssize_t', 'Py_ssize_t', 'Py_UCS4', 'Py_UCS1', 'Py_UCS2', 'Py_hash_t', 'Py_uhash_t', 'Py_UNICODE', 'PyObject',
              'PyTypeObject', 'PySequenceMethods', 'PyMappingMethods', 'binaryfunc', 'objobjargproc', 'ssizeargfunc',
              'PyListObject', 'PyTupleObject', 'PyGILState_STATE', 'CYTHON_UNUSED', 'CYTHON_INLINE', 'uintptr_t'}
BINPREC = {'*': 12, '/': 12, '%': 12, '+': 11, '-': 11, '<<': 10, '>>': 10, '<': 9, '<=': 9, '>': 9, '>=': 9, '==': 8, '!=': 8,
           '&': 7, '^': 6, '|': 5, '&&': 4, '||': 3}
ASSIGN_OPS = {'=', '+=', '-=', '*=', '/=', '%=', '&=', '|=', '^=', '<<=', '>>='}


def c_tokens(text):
    out, pos = [], 0
    while pos < len(text):
        m = C_TOK.match(text, pos)
        if not m:
            raise AnalysisError('cannot tokenise C text at %r' % text[pos:pos + 30])
        pos = m.end()
        if m.lastgroup:
            out.append((m.lastgroup, m.group(m.lastgroup)))
    return out


def is_type_ident(name):
    return name in TYPE_WORDS or name.endswith('_t') or name.endswith('_type') or re.fullmatch(r'Py[A-Z]\w*(Object|Methods|State|Section)', name) is not None \
        or name.startswith('__Pyx_Py') and name.endswith('Section')


class CParser:
    def __init__(self, text):
        self.t = c_tokens(text)
        self.i = 0

    def peek(self, k=0):
        return self.t[self.i + k] if self.i + k < len(self.t) else ('eof', '')

    def at(self, v, k=0):
        p = self.peek(k)
        return p[0] in ('op', 'id') and p[1] == v

    def eat(self, v=None):
        p = self.peek()
        if v is not None and p[1] != v:
            raise AnalysisError('C parser: expected %r, found %r' % (v, p[1]))
        self.i += 1
        return p

    # ---------------------------------------------------------------- statements
    def block(self):
        self.eat('{')
        out = []
        while not self.at('}'):
            if self.peek()[0] == 'eof':
                raise AnalysisError('C parser: unterminated block')
            out.append(self.stmt())
        self.eat('}')
        return ('block', out)

    def stmt(self):
        p = self.peek()
        if self.at('{'):
            return self.block()
        if self.at(';'):
            self.eat()
            return ('block', [])
        if p == ('id', 'if'):
            self.eat()
            self.eat('(')
            c = self.expr()
            self.eat(')')
            a = self.stmt()
            b = None
            if self.peek() == ('id', 'else'):
                self.eat()
                b = self.stmt()
            return ('if', c, a, b)
        if p == ('id', 'return'):
            self.eat()
            e = None
            if not self.at(';'):
                e = self.expr()
            self.eat(';')
            return ('return', e)
        if p == ('id', 'goto'):
            self.eat()
            lab = self.eat()[1]
            self.eat(';')
            return ('goto', lab)
        if p[0] == 'id' and p[1] in ('for', 'while', 'do', 'switch'):
            raise AnalysisError('C parser: %s statement is outside the supported subset' % p[1])
        if p[0] == 'id' and self.peek(1) == ('op', ':') and self.peek(2) != ('op', ':'):
            self.eat()
            self.eat()
            return ('label', p[1])
        if self._looks_like_decl():
            return self.decl()
        e = self.expr()
        self.eat(';')
        return ('expr', e)

    def _looks_like_decl(self):
        k = 0
        if self.peek()[0] != 'id':
            return False
        # leading type words / identifiers / stars, then a declarator name followed by = ; , [
        seen_id = 0
        while True:
            p = self.peek(k)
            if p[0] == 'id':
                seen_id += 1
                k += 1
            elif p == ('op', '*') and seen_id:
                k += 1
            else:
                break
        if seen_id < 2:
            return False
        if self.peek(k - 1)[0] != 'id':
            return False
        nxt = self.peek(k)
        return nxt[0] == 'op' and nxt[1] in ('=', ';', ',', '[')

    def decl(self):
        # type part: everything up to the last identifier before = ; , [
        k = 0
        while self.peek(k)[0] == 'id' or self.peek(k) == ('op', '*'):
            k += 1
        # the declarator name is the last id; stars directly before it belong to it
        name_at = k - 1
        j = name_at
        while self.peek(j - 1) == ('op', '*'):
            j -= 1
        typ = ' '.join(self.peek(x)[1] for x in range(j))
        self.i += j
        decls = []
        while True:
            ptr = 0
            while self.at('*'):
                self.eat()
                ptr += 1
            name = self.eat()
            if name[0] != 'id':
                raise AnalysisError('C parser: declarator name expected, found %r' % (name[1],))
            if self.at('['):
                self.eat()
                if not self.at(']'):
                    self.expr()
                self.eat(']')
            init = None
            if self.at('='):
                self.eat()
                init = self.assign_expr()
            decls.append((name[1], init, typ + ' ' + '*' * ptr))
            if self.at(','):
                self.eat()
                continue
            break
        self.eat(';')
        return ('decl', decls)

    # ---------------------------------------------------------------- expressions
    def expr(self):
        e = self.assign_expr()
        while self.at(','):
            self.eat()
            e = ('comma', e, self.assign_expr())
        return e

    def assign_expr(self):
        l = self.ternary()
        p = self.peek()
        if p[0] == 'op' and p[1] in ASSIGN_OPS:
            self.eat()
            r = self.assign_expr()
            return ('assign', p[1], l, r)
        return l

    def ternary(self):
        c = self.binary(3)
        if self.at('?'):
            self.eat()
            a = self.expr()
            self.eat(':')
            b = self.ternary()
            return ('tern', c, a, b)
        return c

    def binary(self, minprec):
        l = self.unary()
        while True:
            p = self.peek()
            if p[0] != 'op' or p[1] not in BINPREC or BINPREC[p[1]] < minprec:
                return l
            self.eat()
            r = self.binary(BINPREC[p[1]] + 1)
            l = ('bin', p[1], l, r)

    def _cast_ahead(self):
        """`( type-words [*...] )` followed by the start of a unary expression."""
        if not self.at('('):
            return None
        k = 1
        words = []
        while self.peek(k)[0] == 'id' or self.peek(k) == ('op', '*'):
            words.append(self.peek(k)[1])
            k += 1
        if not words or self.peek(k) != ('op', ')'):
            return None
        ids = [w for w in words if w != '*']
        if not ids:
            return None
        if not (words[-1] == '*' or all(is_type_ident(w) for w in ids)):
            return None
        if words[-1] == '*' and not all(is_type_ident(w) or re.fullmatch(r'[A-Za-z_]\w*', w) for w in ids):
            return None
        nxt = self.peek(k + 1)
        if nxt[0] in ('id', 'num', 'str', 'chr') or (nxt[0] == 'op' and nxt[1] in ('(', '-', '+', '*', '&', '!', '~')):
            return k
        return None

    def unary(self):
        p = self.peek()
        if p[0] == 'op' and p[1] in ('!', '~', '-', '+', '*', '&', '++', '--'):
            self.eat()
            return ('un', p[1], self.unary())
        if p == ('id', 'sizeof'):
            self.eat()
            if self.at('('):
                j = self.i
                depth = 0
                while True:
                    q = self.eat()
                    if q[1] == '(':
                        depth += 1
                    elif q[1] == ')':
                        depth -= 1
                        if depth == 0:
                            break
                    elif q[0] == 'eof':
                        raise AnalysisError('C parser: bad sizeof')
                return ('sizeof', ' '.join(x[1] for x in self.t[j:self.i]))
            return ('sizeof', self.unary())
        k = self._cast_ahead()
        if k is not None:
            typ = ' '.join(self.peek(x)[1] for x in range(1, k))
            self.i += k + 1
            return ('cast', typ, self.unary())
        return self.postfix()

    def postfix(self):
        p = self.eat()
        if p[0] == 'id':
            e = ('id', p[1])
        elif p[0] == 'num':
            s = p[1].rstrip('uUlL')
            try:
                e = ('num', int(s, 0))
            except ValueError:
                e = ('num', None)
        elif p[0] in ('str', 'chr'):
            e = ('str', p[1])
            while self.peek()[0] in ('str', 'id') and self.peek()[0] == 'str':
                self.eat()
            # adjacent string literal / macro concatenation ("'" __Pyx_FMT_TYPENAME "' ...")
            while self.peek()[0] in ('str',) or (self.peek()[0] == 'id' and self.peek(1)[0] == 'str'):
                self.eat()
        elif p == ('op', '('):
            e = self.expr()
            self.eat(')')
        else:
            raise AnalysisError('C parser: unexpected token %r' % (p[1],))
        while True:
            if self.at('('):
                self.eat()
                args = []
                if not self.at(')'):
                    args.append(self.assign_expr())
                    while self.at(','):
                        self.eat()
                        args.append(self.assign_expr())
                self.eat(')')
                e = ('call', e, args)
            elif self.at('['):
                self.eat()
                ix = self.expr()
                self.eat(']')
                e = ('idx', e, ix)
            elif self.at('.') or self.at('->'):
                op = self.eat()[1]
                nm = self.eat()
                e = ('mem', op, e, nm[1])
            elif self.at('++') or self.at('--'):
                e = ('post', self.eat()[1], e)
            else:
                return e


def parse_c_function_body(text):
    p = CParser(text)
    b = p.block()
    if p.peek()[0] != 'eof':
        raise AnalysisError('C parser: trailing tokens after the function body')
    return b


def c_text(e):
    """Compact text of an expression tree (for messages and atom keys)."""
    k = e[0]
    if k == 'id':
        return e[1]
    if k == 'num':
        return str(e[1])
    if k == 'str':
        return e[1]
    if k == 'call':
        return '%s(%s)' % (c_text(e[1]), ', '.join(c_text(a) for a in e[2]))
    if k == 'un':
        return e[1] + c_text(e[2])
    if k == 'post':
        return c_text(e[2]) + e[1]
    if k == 'bin':
        return '(%s %s %s)' % (c_text(e[2]), e[1], c_text(e[3]))
    if k == 'tern':
        return '(%s ? %s : %s)' % (c_text(e[1]), c_text(e[2]), c_text(e[3]))
    if k == 'assign':
        return '%s %s %s' % (c_text(e[2]), e[1], c_text(e[3]))
    if k == 'cast':
        return '(%s)%s' % (e[1], c_text(e[2]))
    if k == 'idx':
        return '%s[%s]' % (c_text(e[1]), c_text(e[2]))
    if k == 'mem':
        return '%s%s%s' % (c_text(e[2]), e[1], e[3])
    if k == 'comma':
        return '%s, %s' % (c_text(e[1]), c_text(e[2]))
    if k == 'sizeof':
        return 'sizeof(...)'
    return '?'


def c_ids(e):
    out = set()
    if not isinstance(e, tuple):
        return out
    if e[0] == 'id':
        out.add(e[1])
    for x in e[1:]:
        if isinstance(x, tuple):
            out |= c_ids(x)
        elif isinstance(x, list):
            for y in x:
                out |= c_ids(y)
    return out


def c_walk_stmts(s):
    yield s
    k = s[0]
    if k == 'block':
        for x in s[1]:
            yield from c_walk_stmts(x)
    elif k == 'if':
        yield from c_walk_stmts(s[2])
        if s[3] is not None:
            yield from c_walk_stmts(s[3])


def strip_wrappers(e):
    """Remove parentheses-like wrappers: likely()/unlikely() and casts."""
    while True:
        if e[0] == 'call' and e[1][0] == 'id' and e[1][1] in ('likely', 'unlikely') and len(e[2]) == 1:
            e = e[2][0]
        elif e[0] == 'cast':
            e = e[2]
        else:
            return e


# ======================================================================================= index-flow evaluator
# Reference classification of element accessors (CPython C-API documentation / Cython's own macro comments):
#   RAW      no bounds check, no wrap-around: the index must already be valid
#   NONWRAP  bounds-checked by the callee but negative indices are *not* wrapped (IndexError / NULL)
#   WRAPPING the callee implements Python semantics for negative indices itself
RAW_ACCESSORS = {'PyList_GET_ITEM': 1, 'PyList_SET_ITEM': 1, 'PyTuple_GET_ITEM': 1, 'PyTuple_SET_ITEM': 1,
                 '__Pyx_PyList_GET_ITEM': 1, '__Pyx_PyTuple_GET_ITEM': 1, '__Pyx_PyList_GET_ITEM_REF': 1,
                 '__Pyx_PyUnicode_READ_CHAR': 1, 'PyUnicode_READ_CHAR': 1, 'PyUnicode_READ': 2, '__Pyx_PyUnicode_READ': 2}
NONWRAP_ACCESSORS = {'sq_item': 1, 'sq_ass_item': 1, '__Pyx_PyList_GetItemRef': 1, 'PyList_GetItemRef': 1, 'PyList_GetItem': 1,
                     'PyList_SetItem': 1, 'PyTuple_GetItem': 1, 'PySequence_ITEM': 1, '__Pyx_PyList_GetItemRefFast': 1}
WRAPPING_CONSUMERS = {'PySequence_GetItem': 1, 'PySequence_SetItem': 1, 'PySequence_DelItem': 1, 'PyLong_FromSsize_t': 0,
                      '__Pyx_GetItemInt_Generic_size': 1}
VALID_TEST = '__Pyx_is_valid_index'
NOOPS = {'CYTHON_UNUSED_VAR', 'CYTHON_MAYBE_UNUSED_VAR', 'assert', 'Py_INCREF', 'Py_DECREF', 'Py_XDECREF'}
MAX_PATHS = 4000


class IxState:
    __slots__ = ('env', 'sign', 'valid', 'atoms', 'pending', 'W', 'B', 'trace')

    def __init__(self, W, B):
        self.env, self.sign, self.valid, self.atoms, self.pending, self.W, self.B, self.trace = {}, None, set(), {}, [], W, B, []

    def copy(self):
        s = IxState(self.W, self.B)
        s.env, s.sign, s.valid, s.atoms, s.pending, s.trace = dict(self.env), self.sign, set(self.valid), dict(self.atoms), list(self.pending), list(self.trace)
        return s


class IndexFlow:
    """Enumerate the paths of one C helper for fixed flag values and report element accesses that are reached
    with an index that was not bounds-checked (boundscheck on) or not wrap-normalised (wraparound on)."""

    def __init__(self, fname, params, body, family, helpers_adjusting, wflag='wraparound', bflag='boundscheck',
                 index_param=None, offset_is_access=False, preset=None):
        self.fname, self.params, self.body, self.family = fname, params, body, family
        self.adjusting = helpers_adjusting        # {callee name: set(pointer param positions that receive `*p += ...`)}
        self.wflag, self.bflag = wflag, bflag
        self.problems = {}                        # key -> message
        self.events = set()                       # (kind, accessor) seen on some path
        self.paths = 0
        self.offset_is_access = offset_is_access  # `idx * stride` (pointer offset computation) counts as an unchecked access
        self.preset = preset or {}                # further parameters with a fixed constant value
        self.index_param = index_param
        for typ, name in params:
            if re.fullmatch(r'Py_ssize_t', typ.strip()) and self.index_param is None:
                self.index_param = name
        if self.index_param is None:
            raise AnalysisError('%s: no Py_ssize_t index parameter' % fname)

    # ------------------------------------------------------------------ driver
    def run(self, W, B, cfg=''):
        self.cfg = 'wraparound=%d boundscheck=%d%s' % (W, B, (' [' + cfg + ']') if cfg else '')
        st = IxState(W, B)
        names = [n for _, n in self.params]
        if self.wflag in names:
            st.env[self.wflag] = ('c', W)
        if self.bflag in names:
            st.env[self.bflag] = ('c', B)
        for k, v in self.preset.items():
            st.env[k] = ('c', v)
        st.env[self.index_param] = ('ix', 'raw')
        for end in self.exec_stmt(self.body, [st]):
            self.finish(end)

    def problem(self, key, msg):
        self.problems.setdefault(key, '%s (%s)' % (msg, self.cfg))

    def finish(self, st):
        self.paths += 1
        if self.paths > MAX_PATHS:
            raise AnalysisError('%s: more than %d paths' % (self.fname, MAX_PATHS))
        for v in st.pending:
            self.problem('reject:' + v,
                         'with wraparound enabled a negative index reaches the bounds test of %r without having the length added, '
                         'and the rejected index is not handed to a generic (wrapping) fallback: valid negative indices raise IndexError' % v)

    # ------------------------------------------------------------------ statements
    def exec_stmt(self, s, states):
        """-> list of states that continue normally after s (paths that return are finished)."""
        k = s[0]
        if k == 'block':
            cur = states
            for x in s[1]:
                if not cur:
                    break
                cur = self.exec_stmt(x, cur)
            return cur
        out = []
        if k == 'if':
            for st in states:
                for t, s2 in self.truth(s[1], st):
                    if t:
                        out += self.exec_stmt(s[2], [s2])
                    elif s[3] is not None:
                        out += self.exec_stmt(s[3], [s2])
                    else:
                        out.append(s2)
            return out
        if k == 'return':
            for st in states:
                if s[1] is None:
                    self.finish(st)
                else:
                    for v, s2 in self.ev(s[1], st):
                        self.finish(s2)
            return []
        if k == 'expr':
            for st in states:
                for v, s2 in self.ev(s[1], st):
                    out.append(s2)
            return out
        if k == 'decl':
            cur = states
            for name, init, typ in s[1]:
                nxt = []
                for st in cur:
                    if init is None:
                        st.env[name] = ('u',)
                        st.valid.discard(name)
                        nxt.append(st)
                    else:
                        for v, s2 in self.ev(init, st):
                            self.assign(name, v, s2)
                            nxt.append(s2)
                cur = nxt
            return cur
        if k in ('goto', 'label'):
            raise AnalysisError('%s: goto/label is outside the supported C subset' % self.fname)
        raise AnalysisError('%s: unsupported statement %r' % (self.fname, k))

    def assign(self, name, v, st):
        st.env[name] = v
        st.valid.discard(name)
        for key in [a for a in st.atoms if re.search(r'\b%s\b' % re.escape(name), a)]:
            del st.atoms[key]

    # ------------------------------------------------------------------ expressions
    def normalised(self, v, st):
        return (v == ('ix', 'raw') and st.sign == 'nonneg') or v == ('ix', 'adj_neg')

    def adjusted(self, st):
        return ('ix', 'adj_neg' if st.sign == 'neg' else 'adj_unk')

    def is_boolish(self, e, st):
        e = strip_wrappers(e)
        if e[0] == 'bin' and e[1] in ('<', '<=', '>', '>=', '==', '!=', '&&', '||'):
            return True
        if e[0] == 'bin' and e[1] in ('&', '|'):
            return self.is_boolish(e[2], st) and self.is_boolish(e[3], st)
        if e[0] == 'un' and e[1] == '!':
            return True
        if e[0] == 'num':
            return e[1] in (0, 1)
        if e[0] == 'id':
            return st.env.get(e[1]) in (('c', 0), ('c', 1))
        return False

    def sign_test(self, e, st):
        """`v < 0`, `v >= 0`, `0 <= v`, `0 > v` on an un-adjusted copy of the index: -> ('neg'|'nonneg' when true) or None."""
        if e[0] != 'bin' or e[1] not in ('<', '>=', '<=', '>'):
            return None
        l, r = strip_wrappers(e[2]), strip_wrappers(e[3])
        op = e[1]
        if r == ('num', 0) and l[0] == 'id' and st.env.get(l[1]) == ('ix', 'raw'):
            return {'<': 'neg', '>=': 'nonneg'}.get(op)
        if l == ('num', 0) and r[0] == 'id' and st.env.get(r[1]) == ('ix', 'raw'):
            return {'>': 'neg', '<=': 'nonneg'}.get(op)
        return None

    def truth(self, e, st):
        """-> [(bool, state)]"""
        e0 = e
        e = strip_wrappers(e)
        k = e[0]
        if k == 'un' and e[1] == '!':
            return [(not t, s) for t, s in self.truth(e[2], st)]
        if k == 'bin' and e[1] == '&&' and self.range_test(e) is None:
            out = []
            for t, s in self.truth(e[2], st):
                out += self.truth(e[3], s) if t else [(False, s)]
            return out
        if k == 'bin' and e[1] == '||':
            out = []
            for t, s in self.truth(e[2], st):
                out += [(True, s)] if t else self.truth(e[3], s)
            return out
        if k == 'bin' and e[1] == '|':
            out = []
            for ta, s in self.truth(e[2], st):
                for tb, s2 in self.truth(e[3], s):
                    out.append((ta or tb, s2))
            return out
        if k == 'bin' and e[1] == '&' and self.range_test(e) is None:
            out = []
            both_bool = self.is_boolish(e[2], st) and self.is_boolish(e[3], st)
            for ta, s in self.truth(e[2], st):
                for tb, s2 in self.truth(e[3], s):
                    if ta and tb and not both_bool:
                        out.append((True, s2))
                        out.append((False, s2.copy()))
                    else:
                        out.append((ta and tb, s2))
            return out
        sg = self.sign_test(e, st)
        if sg is not None:
            other = 'nonneg' if sg == 'neg' else 'neg'
            if st.sign == sg:
                return [(True, st)]
            if st.sign == other:
                return [(False, st)]
            a, b = st, st.copy()
            a.sign, b.sign = sg, other
            return [(True, a), (False, b)]
        rng = self.range_test(e)
        if (k == 'call' and e[1][0] == 'id' and e[1][1] == VALID_TEST and len(e[2]) == 2) or rng is not None:
            arg = rng if rng is not None else strip_wrappers(e[2][0])
            out = []
            for v, s in self.ev(arg, st):
                name = arg[1] if arg[0] == 'id' else c_text(arg)
                self.events.add(('validtest', name))
                t_s, f_s = s, s.copy()
                t_s.valid.add(name)
                if v == ('ix', 'raw'):
                    if t_s.sign == 'neg':
                        # a negative un-adjusted index is never valid
                        t_s = None
                    else:
                        t_s.sign = 'nonneg'
                if t_s is not None:
                    out.append((True, t_s))
                if v[0] == 'ix' and f_s.W and not self.normalised(v, f_s):
                    f_s.pending.append(name)
                out.append((False, f_s))
            return out
        if k == 'tern':
            out = []
            for t, s in self.truth(e[1], st):
                out += self.truth(e[2] if t else e[3], s)
            return out
        if k == 'bin' and e[1] in ('<', '<=', '>', '>=', '==', '!='):
            import operator as o
            tbl = {'<': o.lt, '<=': o.le, '>': o.gt, '>=': o.ge, '==': o.eq, '!=': o.ne}
            out = []
            for a, s in self.ev(e[2], st):
                for b, s2 in self.ev(e[3], s):
                    if a[0] == 'c' and b[0] == 'c' and a[1] is not None and b[1] is not None:
                        out.append((tbl[e[1]](a[1], b[1]), s2))
                    else:
                        out += self.atom(c_text(e), s2)
            return out
        # generic: evaluate, then decide on the value
        out = []
        for v, s in self.ev(e, st):
            if v[0] == 'c' and v[1] is not None:
                out.append((v[1] != 0, s))
                continue
            out += self.atom(c_text(e), s)
        return out

    def atom(self, key, s):
        if key in s.atoms:
            return [(s.atoms[key], s)]
        a, b = s, s.copy()
        a.atoms[key] = True
        b.atoms[key] = False
        return [(True, a), (False, b)]

    def range_test(self, e):
        """`0 <= v && v < S` / `v >= 0 && v < S` written inline: the same test as __Pyx_is_valid_index(v, S); -> v or None."""
        if e[0] != 'bin' or e[1] not in ('&&', '&'):
            return None
        a, b = strip_wrappers(e[2]), strip_wrappers(e[3])
        if a[0] != 'bin' or b[0] != 'bin':
            return None
        lo = None
        if a[1] == '<=' and strip_wrappers(a[2]) == ('num', 0):
            lo = strip_wrappers(a[3])
        elif a[1] == '>=' and strip_wrappers(a[3]) == ('num', 0):
            lo = strip_wrappers(a[2])
        if lo is None or lo[0] != 'id':
            return None
        if b[1] == '<' and strip_wrappers(b[2]) == lo and strip_wrappers(b[3])[0] in ('id', 'call', 'mem', 'idx'):
            return lo
        if b[1] == '>' and strip_wrappers(b[3]) == lo and strip_wrappers(b[2])[0] in ('id', 'call', 'mem', 'idx'):
            return lo
        return None

    def callee_name(self, fn):
        if fn[0] == 'id':
            return fn[1]
        if fn[0] == 'mem':
            return fn[3]
        return None

    def consume(self, kind, accessor, argexpr, v, st):
        name = strip_wrappers(argexpr)
        name = name[1] if name[0] == 'id' else c_text(name)
        self.events.add((kind, accessor))
        if v[0] != 'ix' and not (kind == 'raw' and st.B):
            return
        if kind == 'raw' and st.B and name not in st.valid:
            self.problem('unchecked:%s' % accessor,
                         '%s reaches the unchecked access %s(.., %s) on a path where boundscheck is on but %r was not tested with %s (or an inline `0 <= x && x < n`): '
                         'an out-of-range index reads/writes outside the container instead of raising IndexError' % (self.fname, accessor, name, name, VALID_TEST))
        if v[0] == 'ix' and st.W and not self.normalised(v, st):
            why = {'raw': 'may still be negative (the length was not added)', 'adj_unk': 'had the length added although it may be non-negative'}.get(v[1], v[1])
            self.problem('nowrap:%s' % accessor,
                         '%s passes index %r to %s, which does not implement wrap-around, on a path where wraparound is on and the index %s: '
                         'negative indices raise IndexError / access out of range instead of counting from the end' % (self.fname, name, accessor, why))

    def ev(self, e, st):
        """-> [(value, state)]"""
        k = e[0]
        if k == 'id':
            if e[1] == 'NULL':
                return [(('c', 0), st)]
            return [(st.env.get(e[1], ('u',)), st)]
        if k == 'num':
            return [(('c', e[1]), st)]
        if k in ('str', 'sizeof'):
            return [(('u',), st)]
        if k == 'cast':
            return self.ev(e[2], st)
        if k == 'comma':
            out = []
            for _, s in self.ev(e[1], st):
                out += self.ev(e[2], s)
            return out
        if k == 'tern':
            out = []
            for t, s in self.truth(e[1], st):
                out += self.ev(e[2] if t else e[3], s)
            return out
        if k == 'un':
            if e[1] == '!':
                return [(('c', 0 if t else 1), s) for t, s in self.truth(e[2], st)]
            if e[1] == '&' and e[2][0] == 'id':
                return [(('addr', e[2][1]), st)]
            out = []
            for v, s in self.ev(e[2], st):
                if e[1] == '-' and v[0] == 'c' and v[1] is not None:
                    out.append((('c', -v[1]), s))
                elif e[1] in ('++', '--') and e[2][0] == 'id':
                    self.assign(e[2][1], ('u',), s)
                    out.append((('u',), s))
                else:
                    out.append((('u',), s))
            return out
        if k == 'post':
            out = []
            for v, s in self.ev(e[2], st):
                if e[2][0] == 'id':
                    self.assign(e[2][1], ('u',), s)
                out.append((('u',), s))
            return out
        if k == 'bin':
            op = e[1]
            if op in ('&&', '||', '<', '<=', '>', '>=', '==', '!=') or (op in ('&', '|') and self.is_boolish(e, st)):
                return [(('c', 1 if t else 0), s) for t, s in self.truth(e, st)]
            out = []
            for a, s in self.ev(e[2], st):
                for b, s2 in self.ev(e[3], s):
                    if op == '*' and self.offset_is_access and (a[0] == 'ix') != (b[0] == 'ix'):
                        ixe, ixv = (e[2], a) if a[0] == 'ix' else (e[3], b)
                        self.consume('raw', 'offset', ixe, ixv, s2)
                        out.append((('u',), s2))
                        continue
                    if op == '+' and a == ('ix', 'raw') and b[0] != 'ix':
                        out.append((self.adjusted(s2), s2))
                    elif op == '+' and b == ('ix', 'raw') and a[0] != 'ix':
                        out.append((self.adjusted(s2), s2))
                    elif a[0] == 'c' and b[0] == 'c' and a[1] is not None and b[1] is not None and op in ('+', '-', '*', '&', '|'):
                        out.append((('c', {'+': a[1] + b[1], '-': a[1] - b[1], '*': a[1] * b[1], '&': a[1] & b[1], '|': a[1] | b[1]}[op]), s2))
                    else:
                        out.append((('u',), s2))
            return out
        if k == 'assign':
            op, l, r = e[1], e[2], e[3]
            out = []
            if l[0] == 'id':
                for v, s in self.ev(r, st):
                    if op == '=':
                        self.assign(l[1], v, s)
                    elif op == '+=' and s.env.get(l[1]) == ('ix', 'raw') and v[0] != 'ix':
                        nv = self.adjusted(s)
                        self.assign(l[1], nv, s)
                    else:
                        self.assign(l[1], ('u',), s)
                    out.append((s.env[l[1]], s))
                return out
            for _, s in self.ev(l, st):
                for v, s2 in self.ev(r, s):
                    out.append((v, s2))
            return out
        if k == 'idx':
            out = []
            for _, s in self.ev(e[1], st):
                for v, s2 in self.ev(e[2], s):
                    if v[0] == 'ix' or strip_wrappers(e[2])[0] == 'id' and strip_wrappers(e[2])[1] in s2.valid:
                        self.consume('raw', '[]', e[2], v, s2)
                    out.append((('u',), s2))
            return out
        if k == 'mem':
            return [(('u',), s) for _, s in self.ev(e[2], st)]
        if k == 'call':
            return self.ev_call(e, st)
        raise AnalysisError('%s: unsupported expression %r' % (self.fname, k))

    def ev_call(self, e, st):
        name = self.callee_name(e[1])
        args = e[2]
        if name in ('likely', 'unlikely') and len(args) == 1:
            return self.ev(args[0], st)
        if name == VALID_TEST:
            return [(('c', 1 if t else 0), s) for t, s in self.truth(e, st)]
        # evaluate the callee expression (sm->sq_item) and the arguments left to right
        states = [([], st)]
        if e[1][0] == 'mem':
            states = [([], s) for _, s in self.ev(e[1], st)]
        for a in args:
            nxt = []
            for vals, s in states:
                for v, s2 in self.ev(a, s):
                    nxt.append((vals + [v], s2))
            states = nxt
        out = []
        for vals, s in states:
            if name in NOOPS:
                out.append((('u',), s))
                continue
            for a in args:
                a0 = strip_wrappers(a)
                if a0[0] == 'id' and a0[1].startswith('PyExc_'):
                    self.events.add(('raise', a0[1]))
            if name in RAW_ACCESSORS and RAW_ACCESSORS[name] < len(args):
                p = RAW_ACCESSORS[name]
                self.consume('raw', name, args[p], vals[p], s)
            elif name in NONWRAP_ACCESSORS and NONWRAP_ACCESSORS[name] < len(args):
                p = NONWRAP_ACCESSORS[name]
                self.consume('nonwrap', name, args[p], vals[p], s)
            elif name in WRAPPING_CONSUMERS and WRAPPING_CONSUMERS[name] < len(args):
                p = WRAPPING_CONSUMERS[name]
                self.events.add(('wrapping', name))
                if vals[p] == ('ix', 'raw'):
                    s.pending = []
            elif name in self.family:
                self.call_family(name, args, vals, s)
            # helpers that adjust an index passed by address
            for i, v in enumerate(vals):
                if v[0] == 'addr':
                    cur = s.env.get(v[1])
                    if name in self.adjusting and i in self.adjusting[name] and cur == ('ix', 'raw'):
                        self.assign(v[1], self.adjusted(s), s)
                        self.events.add(('adjust-by-helper', name))
                    else:
                        self.assign(v[1], ('u',), s)
            out.append((('u',), s))
        return out

    def call_family(self, name, args, vals, s):
        """A call to another flag-taking helper: the callee is analysed on its own for the flag values it receives."""
        cparams = self.family[name]
        if len(cparams) != len(args):
            return
        ixpos = next((i for i, (t, n) in enumerate(cparams) if t.strip() == 'Py_ssize_t'), None)
        if ixpos is None:
            return
        v = vals[ixpos]
        argname = strip_wrappers(args[ixpos])
        argname = argname[1] if argname[0] == 'id' else c_text(argname)
        self.events.add(('family', name))
        for i, (t, n) in enumerate(cparams):
            if n == self.wflag:
                wv = vals[i]
                if wv[0] != 'c':
                    raise AnalysisError('%s passes a non-constant %s to %s' % (self.fname, n, name))
                if s.W and not wv[1] and v[0] == 'ix' and not self.normalised(v, s):
                    self.problem('nowrap:%s' % name,
                                 '%s calls %s with wraparound=0 for index %r although wraparound is on and the index may still be negative: '
                                 'negative indices are not counted from the end' % (self.fname, name, argname))
            if n == self.bflag:
                bv = vals[i]
                if bv[0] != 'c':
                    raise AnalysisError('%s passes a non-constant %s to %s' % (self.fname, n, name))
                if s.B and not bv[1] and argname not in s.valid:
                    self.problem('unchecked:%s' % name,
                                 '%s calls %s with boundscheck=0 for index %r although boundscheck is on and the index was not tested: '
                                 'out-of-range indices are not rejected' % (self.fname, name, argname))
        if v == ('ix', 'raw') and not any(n == self.wflag for _, n in cparams):
            pass
        # a family callee that receives the un-adjusted index with the real wraparound flag handles rejected indices itself
        if v == ('ix', 'raw'):
            wpos = [i for i, (t, n) in enumerate(cparams) if n == self.wflag]
            if wpos and vals[wpos[0]] == ('c', 1):
                s.pending = []


def split_c_params(params):
    """['PyObject *o', 'Py_ssize_t i', 'int wraparound'] -> [(type text, name)]"""
    out = []
    for p in params or []:
        p = re.sub(r'\bCYTHON_UNUSED\b', '', p).strip()
        m = re.match(r'^(.*?)([A-Za-z_]\w*)\s*(?:\[[^\]]*\])?$', p, re.S)
        if not m or not m.group(1).strip():
            out.append((p, None))
        else:
            out.append((' '.join(m.group(1).replace('*', ' * ').split()), m.group(2)))
    return out


def c_calls_in_text(text):
    """[(callee name, [arg texts], offset)] for every `name(args)` in a piece of C text (macro body or function body)."""
    out = []
    for m in re.finditer(r'\b([A-Za-z_]\w*)\s*\(', text):
        name = m.group(1)
        if name in ('if', 'while', 'for', 'switch', 'return', 'sizeof', 'defined'):
            continue
        lp = m.end() - 1
        rp = match_paren(text, lp)
        if rp < 0:
            continue
        out.append((name, split_args(text[lp + 1:rp]), m.start()))
    return out


def bare_c_ident(arg):
    """`(Py_ssize_t)i` / `(i)` / `&i` / `i` -> 'i'; anything else -> None."""
    a = arg.strip()
    while True:
        m = re.match(r'^\(\s*[A-Za-z_][\w\s\*]*\)\s*(.+)$', a, re.S)
        if m and re.fullmatch(r'[A-Za-z_]\w*', m.group(1).strip()):
            a = m.group(1).strip()
            continue
        if a.startswith('(') and match_paren(a, 0) == len(a) - 1:
            a = a[1:-1].strip()
            continue
        if a.startswith('&'):
            a = a[1:].strip()
            continue
        break
    return a if re.fullmatch(r'[A-Za-z_]\w*', a) else None


# ======================================================================================= catalogue access
class CFun:
    """One C function / prototype / macro with the template variables of its enclosing {{for}} loops bound."""
    __slots__ = ('name', 'kind', 'params', 'body', 'file', 'line', 'tenv', 'decl')

    def __init__(self, name, d, tenv):
        self.name, self.kind, self.decl, self.tenv = name, d.kind, d, tenv
        self.file, self.line = 'Cython/Utility/' + d.file, d.line
        self.params = d.params
        self.body = d.body

    def param_names(self):
        if self.kind == 'macro':
            return [p.strip() for p in (self.params or [])]
        return [n for _, n in split_c_params(self.params)]

    def typed_params(self):
        return split_c_params(self.params)

    def expanded_body(self):
        if self.body is None:
            return None
        if '{{' in self.body:
            return tempita_expand(self.body, self.tenv)
        return self.body


def resolve_c(cat, name, kinds=('func', 'proto', 'macro')):
    """All declarations of exactly this C name: plain ones, and templated ones whose name expands to it for a
    binding of the literal {{for}} loops that enclose them."""
    out = []
    for d in cat.decls.get(name, []):
        if d.kind in kinds:
            out.append(CFun(name, d, {}))
    for k, ds in cat.decls.items():
        if '{{' not in k:
            continue
        lit = k.split('{{', 1)[0]
        if not name.startswith(lit) or len(lit) < 8:
            continue
        for d in ds:
            if d.kind not in kinds:
                continue
            text = d.section.text or ''
            pos = text.find(k)
            if pos < 0:
                continue
            try:
                loops = enclosing_for(text, pos)
            except AnalysisError:
                continue
            if not loops:
                continue
            names = list(loops)
            for combo in itertools.product(*[loops[n] for n in names]):
                env = dict(zip(names, combo))
                try:
                    nm = tempita_expand(k, env)
                except AnalysisError:
                    continue
                if nm == name:
                    out.append(CFun(name, d, env))
    return out
