"""C05-INDEX / C05-NONINT: which number protocol the from-Python C integer converters consult for an object that is not a PyLong.

A C integer converter gets an arbitrary object.  For a PyLong the digits are read (decided by C05-MODEL).  Everything else goes through
a *coercion step* (`__Pyx_PyNumber_Long`, `PyNumber_Index`, a `tp_as_number` slot called by hand, ...) that yields a PyLong or fails.
What that step accepts is decided by a handful of NULL tests on type slots, type checks and C-API calls, separately in every
preprocessor arm.  The property fixes the outcome per *class of object*:

    an object is an integer iff it is an int (subclass) or implements __index__ (the data model's definition, operator.index());
    integers are converted (C05-INDEX); everything else - float, Decimal, objects that only have __int__, strings - gets TypeError, and
    no value is ever taken from __int__ or from parsing a string (C05-NONINT).

Entries: the {{FROM_PY_FUNCTION}} entry of the CIntFromPy template; the hand-named from_py_function constants of the C integer type classes
of PyrexTypes (resolved through #define aliases; a C-API function named there is walked through a one-line wrapper, i.e. by its documented
contract); and every other function of the two sections that takes one object, returns a C integer, transitively reaches a converter / a
number protocol / a C-API PyLong converter and is not called by anything else there (sibling converters such as __Pyx_PyIndex_AsHash_t).

Technique (kind 2 of DESIGN 9.1): the entries are walked by a small abstract interpreter that belongs to the checker (statements:
rules/pC17.parse_body, expressions: engine/cexpr), for every preprocessor variant of the code actually walked (atoms of the #if conditions
and of sizeof/version comparisons are assigned lazily, both ways) and for every class of a COMPLETE partition of Python objects with respect
to what such code can observe without calling into the object: the type checks (PyLong/PyFloat/PyBytes/PyUnicode/PyBool/PyIndex
_Check[Exact]), tp_as_number being NULL, and nb_int / nb_index / nb_float being NULL (KINDS).  The object is never a concrete value; slot
calls and C-API protocol calls fork into "returns a new exact int" and "fails with an exception"; a callee that applies PyLong accessors
itself (a digit-level worker) and receives a PyLong is abstracted as "the C value of that PyLong", tagged with the protocol that produced
the PyLong; dispatchers and coercion helpers are walked, helper functions are followed, goto / early return / if-else are executed as
written.  The result is a decision table  (entry, variant, object class) -> {converted via <protocol>, error <exception>, silent, undefined}
that is compared with the reference table above.  "undefined" = the walked C calls a NULL slot, dereferences a NULL table, hands NULL to a
function that reads an object, reads an uninitialised local, or re-enters a function with the same abstract state (unbounded recursion).
CPython's PyNumber_Long / PyNumber_Index / PyLong_As* are modelled by their documented contracts.
Anything outside the interpreted subset raises AnalysisError - never a guess.  Nothing of the repository is imported, compiled or run.

NOT decided: results of __int__/__index__ that are not exact ints (the WrongResultType path), __trunc__ (gone in 3.14), the digit level
conversion of the PyLong (C05-MODEL), the widths of the intermediate C types (C05-FIXED), the feasibility of a combination of
preprocessor atoms (each atom is an independent axis), converters in other sections (Py_UCS4 / Py_UNICODE / bint: other conversions)."""
import ast, re

from ..core import Rule, AnalysisError
from ..engine import cexpr
from ..engine.cutil import strip_c_comments
from . import pC04 as P4
from . import pC17
from . import sC05

TC = 'TypeConversion.c'
REL = 'Cython/Utility/TypeConversion.c'
SECTIONS = ('TypeConversions', 'CIntFromPy')
TEMPLATE_ENTRY = 'TPL_FROM_PY_FUNCTION'          # {{FROM_PY_FUNCTION}} after sC05.detemplate()
MAX_DEPTH = 8
MAX_STEPS = 3000
MAX_RUNS = 400


# ------------------------------------------------------------------------------------------------ the abstract domain
class Kind:
    """one class of Python objects: what C code can observe of it without calling into it"""

    def __init__(self, name, example, long=False, exact=False, bool_=False, float_=False, bytes_=False, str_=False, table=True,
                 nb_int=False, nb_index=False, nb_float=False, parses=False):
        self.name, self.example = name, example
        self.long, self.exact, self.bool_, self.float_, self.bytes_, self.str_ = long, exact, bool_, float_, bytes_, str_
        self.table, self.nb_int, self.nb_index, self.nb_float, self.parses = table, nb_int, nb_index, nb_float, parses

    @property
    def is_integer(self):
        return self.long or self.nb_index


KINDS = [
    Kind('int', '5', long=True, exact=True, nb_int=True, nb_index=True, nb_float=True),
    Kind('int-subclass', 'class I(int)', long=True, nb_int=True, nb_index=True, nb_float=True),
    Kind('bool', 'True', long=True, bool_=True, nb_int=True, nb_index=True, nb_float=True),
    Kind('index-only', 'object with __index__ only', nb_index=True),
    Kind('index+int', 'object with __index__ and __int__ (numpy.int64)', nb_index=True, nb_int=True),
    Kind('index+int+float', 'object with __index__, __int__, __float__', nb_index=True, nb_int=True, nb_float=True),
    Kind('float', '2.5', float_=True, exact=True, nb_int=True, nb_float=True),
    Kind('float-subclass', 'numpy.float64', float_=True, nb_int=True, nb_float=True),
    Kind('int-only', 'object with __int__ only (decimal.Decimal)', nb_int=True),
    Kind('int+float', 'object with __int__ and __float__ (fractions.Fraction)', nb_int=True, nb_float=True),
    Kind('float-only', 'object with __float__ only', nb_float=True),
    Kind('bytes', "b'12'", bytes_=True, exact=True, parses=True),
    Kind('bytes-subclass', "class B(bytes)", bytes_=True, parses=True),
    Kind('str', "'12'", str_=True, exact=True, parses=True),
    Kind('str-subclass', "class S(str)", str_=True, parses=True),
    Kind('bytearray', "bytearray(b'12')", table=False, parses=True),
    Kind('no-number-slots', 'None (tp_as_number without nb_int/nb_index)'),
    Kind('no-number-table', 'object() (tp_as_number == NULL)', table=False),
]
KIND = {k.name: k for k in KINDS}


class Obj:
    """a PyObject*: the argument itself (prov 'self') or a new exact int delivered by a protocol (prov 'index' | 'int' | 'parse' ...)"""
    __slots__ = ('kind', 'prov')

    def __init__(self, kind, prov='self'):
        self.kind, self.prov = kind, prov

    def __repr__(self):
        return '<obj %s/%s>' % (self.kind.name, self.prov)


class Null:
    def __repr__(self):
        return 'NULL'


NULL = Null()


class TypeV:
    def __init__(self, kind):
        self.kind = kind


class Slots:
    def __init__(self, kind):
        self.kind = kind


class Fn:
    def __init__(self, slot, kind):
        self.slot, self.kind = slot, kind


class Ref:
    """&local"""

    def __init__(self, scope, name):
        self.scope, self.name = scope, name


class CInt:
    """the C integer value of a PyLong; prov says which protocol produced that PyLong"""
    __slots__ = ('prov',)

    def __init__(self, prov):
        self.prov = prov

    def __repr__(self):
        return '<cint via %s>' % self.prov


class Unsupported(Exception):
    pass


class Undefined(Exception):
    """the interpreted C performs an undefined operation (NULL function pointer / NULL object used)"""


class NeedAtom(Exception):
    def __init__(self, atom):
        self.atom = atom


class _Return(Exception):
    def __init__(self, v):
        self.v = v


class _Goto(Exception):
    def __init__(self, label):
        self.label = label


# ------------------------------------------------------------------------------------------------ source preparation
class CFunc:
    def __init__(self, name, ret, params, body, section, line):
        self.name, self.ret, self.params, self.body, self.section, self.line = name, ret, params, body, section, line

    @property
    def reads_pylong(self):
        return bool(PYLONG_READ.search(self.body))

    @property
    def returns_c_integer(self):
        return '*' not in self.ret and self.ret.split()[-1:] not in (['void'], ['double'], ['float'])


# operations that are only defined for a PyLong argument: a function that applies one itself is a digit-level worker
PYLONG_READ = re.compile(r'\b(__Pyx_PyLong_(?:IsNeg|IsNonNeg|IsZero|IsPos|IsCompact|CompactValue\w*|Digits|DigitCount|Sign)|Py_SIZE|PyLong_As\w+|_PyLong_AsByteArray|_PyLong_Sign)\s*\(|->\s*ob_digit\b')
PYLONG_PREDICATES = ('__Pyx_PyLong_IsNeg', '__Pyx_PyLong_IsNonNeg', '__Pyx_PyLong_IsZero', '__Pyx_PyLong_IsPos', '__Pyx_PyLong_IsCompact')
PYLONG_VALUES = ('__Pyx_PyLong_CompactValue', '__Pyx_PyLong_CompactValueUnsigned')
HEAD = re.compile(r'^static\b([^;{}()]*?)\b(\w+)\s*\(([^;{}()]*)\)\s*\{[ \t]*$', re.M)
DIRECTIVE = re.compile(r'^\s*#\s*(tplif|tplelif|tplelse|tplendif|if|ifdef|ifndef|elif|else|endif)\b(.*)$')
MEMBER_OF_CALL = re.compile(r'\b(\w+\s*\((?:[^()]|\([^()]*\))*\))\s*->\s*(\w+)')


def load_functions(texts):
    """texts: {section: raw C text}.  -> {name: CFunc} (bodies keep every preprocessor arm)"""
    out = {}
    for section, raw in texts.items():
        text = re.sub(r'\bTPL_TYPE\b', 'sa_t', sC05.detemplate(raw))        # a type name the expression parser recognises in casts
        try:
            fs = sC05.functions(text)
        except AnalysisError as e:
            raise AnalysisError('C05-INDEX: %s::%s: %s' % (TC, section, e))
        for name, f in fs.items():
            m = HEAD.match(text, f.start)
            if not m:
                continue
            ret = ' '.join(w for w in m.group(1).split() if w not in ('CYTHON_INLINE', 'CYTHON_UNUSED', 'const'))
            params = []
            for p in m.group(3).split(','):
                p = p.strip()
                if not p or p == 'void':
                    continue
                mm = re.search(r'(\w+)\s*$', p)
                params.append((mm.group(1) if mm else '', p))
            out[name] = CFunc(name, ret, params, f.body, section, text.count('\n', 0, f.start) + 1)
    return out


def pp_atoms(cond):
    """parsed #if condition -> evaluator over an atom assignment.  Atoms: identifiers, defined(X), comparisons."""
    try:
        tree = cexpr.parse(cond)
    except cexpr.ParseError:
        return None
    return tree


def eval_pp(tree, truth):
    k = tree[0]
    if k == 'num':
        return bool(tree[1])
    if k == 'un' and tree[1] == '!':
        return not eval_pp(tree[2], truth)
    if k == 'bin' and tree[1] == '&&':
        return eval_pp(tree[2], truth) and eval_pp(tree[3], truth)
    if k == 'bin' and tree[1] == '||':
        return eval_pp(tree[2], truth) or eval_pp(tree[3], truth)
    return truth('#' + pC17.show(tree))


def select(body, truth):
    """one preprocessor / Tempita variant of a function body; conditions of inactive arms are not evaluated"""
    out, stack = [], []
    for line in body.split('\n'):
        m = DIRECTIVE.match(line)
        if not m:
            out.append(line if all(s[2] for s in stack) and not line.lstrip().startswith('#') else '')
            continue
        kind, rest = m.group(1), ' '.join(m.group(2).split())

        def value():
            if kind.startswith('tpl'):
                return truth('#tempita:' + rest)
            if kind in ('ifdef', 'ifndef'):
                v = truth('#defined(%s)' % rest)
                return v if kind == 'ifdef' else not v
            tree = pp_atoms(rest)
            return truth('#' + rest) if tree is None else eval_pp(tree, truth)
        if kind in ('if', 'ifdef', 'ifndef', 'tplif'):
            parent = all(s[2] for s in stack)
            val = parent and value()
            stack.append([parent, val, parent and val])
        elif kind in ('elif', 'tplelif'):
            if not stack:
                raise Unsupported('unbalanced conditional directive')
            s = stack[-1]
            val = s[0] and (not s[1]) and value()
            s[2] = s[0] and val
            s[1] = s[1] or val
        elif kind in ('else', 'tplelse'):
            if not stack:
                raise Unsupported('unbalanced conditional directive')
            s = stack[-1]
            s[2] = s[0] and not s[1]
            s[1] = True
        else:
            if not stack:
                raise Unsupported('unbalanced conditional directive')
            stack.pop()
        out.append('')
    if stack:
        raise Unsupported('unterminated conditional directive')
    return '\n'.join(out)


def prep_expr(text):
    """`f(args)->member` is spelled __sa_member_<member>(f(args)) for the expression parser; string literals are irrelevant"""
    text = re.sub(r'"(?:\\.|[^"\\])*"', '0', text)
    for _ in range(8):
        new = MEMBER_OF_CALL.sub(lambda m: '__sa_member_%s(%s)' % (m.group(2), m.group(1)), text)
        if new == text:
            break
        text = new
    return text


# ------------------------------------------------------------------------------------------------ the interpreter
TYPE_CHECKS = {
    'PyLong_Check': lambda k: k.long, 'PyLong_CheckExact': lambda k: k.long and k.exact,
    'PyBool_Check': lambda k: k.bool_,
    'PyFloat_Check': lambda k: k.float_, 'PyFloat_CheckExact': lambda k: k.float_ and k.exact,
    'PyBytes_Check': lambda k: k.bytes_, 'PyBytes_CheckExact': lambda k: k.bytes_ and k.exact,
    'PyUnicode_Check': lambda k: k.str_, 'PyUnicode_CheckExact': lambda k: k.str_ and k.exact,
    'PyByteArray_Check': lambda k: k.name == 'bytearray', 'PyByteArray_CheckExact': lambda k: k.name == 'bytearray',
    'PyIndex_Check': lambda k: k.nb_index,
    '__Pyx_PyIndex_Check': lambda k: k.nb_index,
}
NOOPS = {'Py_DECREF', 'Py_XDECREF', 'Py_INCREF', 'Py_XINCREF', 'CYTHON_UNUSED_VAR', 'CYTHON_MAYBE_UNUSED_VAR', '__Pyx_GOTREF', '__Pyx_XGOTREF',
         '__Pyx_DECREF', '__Pyx_XDECREF', '__Pyx_INCREF', 'Py_CLEAR', 'assert'}
IDENTITY = {'likely', 'unlikely', '__Pyx_NewRef', '__Pyx_XNewRef', 'Py_NewRef', 'Py_XNewRef'}
INT = KIND['int']
# C-API converters -> "accepts objects with __index__" (https://docs.python.org/3/c-api/long.html: "If pylong is not an instance of PyLongObject,
# first call its __index__() method (if present)" - stated for these; the others "Raise TypeError if ... not a PyLongObject")
PYLONG_AS = {'PyLong_AsLong': True, 'PyLong_AsLongLong': True, 'PyLong_AsInt': True, 'PyLong_AsLongAndOverflow': True, 'PyLong_AsLongLongAndOverflow': True,
             'PyLong_AsUnsignedLongMask': True, 'PyLong_AsUnsignedLongLongMask': True,
             'PyLong_AsSsize_t': False, 'PyLong_AsSize_t': False, 'PyLong_AsUnsignedLong': False, 'PyLong_AsUnsignedLongLong': False}
DECL = re.compile(r'^(?:(?:const|static|register|volatile|unsigned|signed|struct)\s+)*[A-Za-z_]\w*(?:\s+(?:const|long|int|short|char|double))*'
                  r'(?:\s*\*+\s*(?:const\s+)?|\s+)(?=[A-Za-z_])(?P<decls>[A-Za-z_]\w*\s*(?:=.*|,.*)?)$', re.S)
KEYWORDS = ('return', 'goto', 'break', 'continue', 'else', 'sizeof', 'case')


class Run:
    """one execution: fixed atom assignment + fixed prefix of choices"""

    def __init__(self, funcs, assign, prefix):
        self.funcs, self.assign, self.prefix = funcs, assign, prefix
        self.taken = []           # (choice made, arity, tag)
        self.err = None
        self.steps = 0
        self.events = []          # protocol calls made, in order: (protocol, outcome)
        self.walked = []
        self.stack = []
        self._parsed = {}

    # -- nondeterminism
    def choose(self, arity, tag):
        i = len(self.taken)
        c = self.prefix[i] if i < len(self.prefix) else 0
        self.taken.append((c, arity, tag))
        return c

    def atom(self, text):
        if text not in self.assign:
            raise NeedAtom(text)
        return self.assign[text]

    # -- protocols (contracts: https://docs.python.org/3/c-api/number.html, Objects/abstract.c)
    def protocol(self, name, o, reaches):
        """reaches: ordered [(tag, applicable?)]; the first applicable step is taken; it yields a new exact int or raises"""
        if not isinstance(o, Obj):
            if o is NULL:
                raise Undefined('%s() is called with a NULL object' % name)
            raise Unsupported('%s() of %r' % (name, o))
        if o.kind.long:
            self.events.append((name, 'is-int'))
            return o if o.kind.exact else Obj(INT, o.prov)
        for tag, applies in reaches:
            if applies:
                if self.choose(2, '%s/%s' % (name, tag)) == 0:
                    self.events.append((name, tag))
                    return Obj(INT, tag)
                self.events.append((name, tag + ' raises'))
                self.err = self.err or 'exception from ' + tag
                return NULL
        self.events.append((name, 'TypeError'))
        self.err = self.err or 'TypeError'
        return NULL

    def call_slot(self, fn, args):
        if fn is NULL:
            raise Undefined('a NULL type slot is called')
        if not isinstance(fn, Fn):
            raise Unsupported('call through %r' % (fn,))
        if len(args) != 1 or not isinstance(args[0], Obj):
            raise Unsupported('slot %s called with %r' % (fn.slot, args))
        if fn.slot not in ('nb_int', 'nb_index'):
            raise Unsupported('slot %s is called' % fn.slot)
        tag = {'nb_int': 'int', 'nb_index': 'index'}[fn.slot]
        if self.choose(2, fn.slot) == 0:
            self.events.append((fn.slot, tag))
            return Obj(INT, tag)
        self.events.append((fn.slot, tag + ' raises'))
        self.err = self.err or 'exception from ' + tag
        return NULL

    # -- expressions
    def parse(self, text):
        if text not in self._parsed:
            try:
                self._parsed[text] = cexpr.parse(prep_expr(text))
            except cexpr.ParseError as e:
                raise Unsupported('cannot parse %r: %s' % (text[:60], e))
        return self._parsed[text]

    def member(self, base, name):
        if base is NULL:
            raise Undefined('->%s of a NULL pointer' % name)
        if isinstance(base, Obj) and name == 'ob_type':
            return TypeV(base.kind)
        if isinstance(base, TypeV) and name == 'tp_as_number':
            return Slots(base.kind) if base.kind.table else NULL
        if isinstance(base, Slots) and name.startswith('nb_'):
            if name in ('nb_int', 'nb_index', 'nb_float'):
                return Fn(name, base.kind) if getattr(base.kind, name) else NULL
            raise Unsupported('slot %s is not part of the object partition' % name)
        raise Unsupported('member %s of %r' % (name, base))

    def truth(self, v):
        if v is NULL:
            return False
        if isinstance(v, (Obj, TypeV, Slots, Fn, Ref)):
            return True
        if isinstance(v, bool):
            return v
        if isinstance(v, int):
            return v != 0
        if isinstance(v, CInt):
            return self.choose(2, 'value is zero') == 1
        raise Unsupported('truth value of %r' % (v,))

    def lookup(self, name, env):
        for scope in reversed(env):
            if name in scope:
                v = scope[name]
                if v is None:
                    raise Undefined('the uninitialised variable %s is read' % name)
                return v
        raise KeyError(name)

    def mentions_local(self, e, env):
        for n in cexpr.walk(e):
            if n[0] == 'id':
                base = re.split(r'->|\.', n[1])[0]
                if any(base in s for s in env):
                    return True
            if n[0] == 'call' and n[1] not in ('sizeof',):
                return True
        return False

    def ev(self, e, env):
        self.steps += 1
        if self.steps > MAX_STEPS:
            raise Unsupported('evaluation does not terminate')
        k = e[0]
        if k in ('num', 'char'):
            return e[1]
        if k == 'id':
            parts = re.split(r'->|\.', e[1])
            if parts[0] == 'NULL' and len(parts) == 1:
                return NULL
            try:
                v = self.lookup(parts[0], env)
            except KeyError:
                if len(parts) == 1 and re.match(r'PyExc_\w+$', parts[0]):
                    return ('exc', parts[0][6:])
                if len(parts) == 1 and parts[0] in ('Py_None', 'Py_True', 'Py_False'):
                    raise Unsupported('singleton %s' % parts[0])
                raise Unsupported('free identifier %s' % e[1])
            for p in parts[1:]:
                v = self.member(v, p)
            return v
        if k == 'cast':
            return self.ev(e[2], env)
        if k == 'sizeof':
            raise Unsupported('sizeof outside a comparison')
        if k == 'tern':
            return self.ev(e[2], env) if self.truth(self.ev(e[1], env)) else self.ev(e[3], env)
        if k == 'un':
            if e[1] == '!':
                return not self.truth(self.ev(e[2], env))
            if e[1] == '&' and e[2][0] == 'id' and re.fullmatch(r'\w+', e[2][1]):
                for scope in reversed(env):
                    if e[2][1] in scope:
                        return Ref(scope, e[2][1])
                raise Unsupported('address of the unknown variable %s' % e[2][1])
            v = self.ev(e[2], env)
            if e[1] == '*' and isinstance(v, Ref):
                if v.scope[v.name] is None:
                    raise Undefined('the uninitialised variable %s is read through a pointer' % v.name)
                return v.scope[v.name]
            if e[1] in ('-', '+', '~') and isinstance(v, int):
                return {'-': -v, '+': v, '~': ~v}[e[1]]
            if e[1] in ('-', '+') and isinstance(v, CInt):
                return v
            raise Unsupported('unary %s of %r' % (e[1], v))
        if k == 'bin':
            op = e[1]
            if op == '&&':
                return self.truth(self.ev(e[2], env)) and self.truth(self.ev(e[3], env))
            if op == '||':
                return self.truth(self.ev(e[2], env)) or self.truth(self.ev(e[3], env))
            if op in ('==', '!=', '<', '>', '<=', '>=') and e[2][0] == 'num' and e[3][0] == 'num':
                a, b = e[2][1], e[3][1]
                return {'==': a == b, '!=': a != b, '<': a < b, '>': a > b, '<=': a <= b, '>=': a >= b}[op]
            if op in ('==', '!=', '<', '>', '<=', '>=') and not self.mentions_local(e, env):
                # a configuration constant (sizeof comparison, version macro): one more axis of the variant space
                return self.atom('C:' + pC17.show(e))
            a, b = self.ev(e[2], env), self.ev(e[3], env)
            if op in ('==', '!='):
                if a is NULL or b is NULL:
                    other = b if a is NULL else a
                    if other is NULL:
                        same = True
                    elif isinstance(other, (Obj, TypeV, Slots, Fn)):
                        same = False
                    elif other == 0:
                        same = True
                    else:
                        raise Unsupported('comparison of NULL with %r' % (other,))
                    return same if op == '==' else not same
            if isinstance(a, bool):
                a = int(a)
            if isinstance(b, bool):
                b = int(b)
            if isinstance(a, int) and isinstance(b, int):
                return {'==': a == b, '!=': a != b, '<': a < b, '>': a > b, '<=': a <= b, '>=': a >= b}.get(op, None) \
                    if op in ('==', '!=', '<', '>', '<=', '>=') else self._arith(op, a, b)
            if (isinstance(a, CInt) or isinstance(b, CInt)) and op in ('==', '!=', '<', '>', '<=', '>='):
                return self.choose(2, 'C value %s constant' % op) == 1
            raise Unsupported('operator %s on %r, %r' % (op, a, b))
        if k == 'call':
            return self.call(e[1], e[2], env)
        raise Unsupported('expression node %s' % k)

    def _arith(self, op, a, b):
        f = {'+': lambda: a + b, '-': lambda: a - b, '*': lambda: a * b, '|': lambda: a | b, '&': lambda: a & b}.get(op)
        if f is None:
            raise Unsupported('operator ' + op)
        return f()

    def call(self, name, argexprs, env):
        if name in IDENTITY and len(argexprs) == 1:
            return self.ev(argexprs[0], env)
        if name in NOOPS:
            for a in argexprs:
                if name in ('Py_DECREF', 'Py_INCREF', '__Pyx_DECREF', '__Pyx_INCREF') and self.ev(a, env) is NULL:
                    raise Undefined('%s(NULL)' % name)
            return None
        if name.startswith('__sa_member_') and len(argexprs) == 1:
            return self.member(self.ev(argexprs[0], env), name[len('__sa_member_'):])
        if '->' in name or '.' in name:
            fn = self.ev(('id', name), env)
            return self.call_slot(fn, [self.ev(a, env) for a in argexprs])
        if name == 'Py_TYPE' and len(argexprs) == 1:
            o = self.ev(argexprs[0], env)
            if not isinstance(o, Obj):
                raise Undefined('Py_TYPE(NULL)') if o is NULL else Unsupported('Py_TYPE(%r)' % (o,))
            return TypeV(o.kind)
        if name in TYPE_CHECKS and len(argexprs) == 1:
            o = self.ev(argexprs[0], env)
            if not isinstance(o, Obj):
                raise Undefined('%s(NULL)' % name) if o is NULL else Unsupported('%s(%r)' % (name, o))
            return bool(TYPE_CHECKS[name](o.kind))
        if name in PYLONG_PREDICATES + PYLONG_VALUES and len(argexprs) == 1 and name not in self.funcs:
            o = self.ev(argexprs[0], env)
            if not (isinstance(o, Obj) and o.kind.long):
                raise Undefined('%s() is applied to %r, which is not a PyLong' % (name, o))
            return CInt(o.prov) if name in PYLONG_VALUES else self.choose(2, name) == 1
        if name == 'PyErr_Occurred' and not argexprs:
            return self.err is not None
        if name == 'PyErr_Clear' and not argexprs:
            self.err = None
            return None
        if name in ('PyErr_SetString', 'PyErr_Format', 'PyErr_SetNone', 'PyErr_SetObject') and argexprs:
            exc = self.ev(argexprs[0], env)
            if not (isinstance(exc, tuple) and exc[0] == 'exc'):
                raise Unsupported('%s with an exception that is not a PyExc_ constant' % name)
            self.err = exc[1]
            return NULL if name == 'PyErr_Format' else None
        if name == 'PyErr_ExceptionMatches' and len(argexprs) == 1:
            exc = self.ev(argexprs[0], env)
            if not (isinstance(exc, tuple) and exc[0] == 'exc') or self.err is None or self.err.startswith('exception from'):
                raise Unsupported('PyErr_ExceptionMatches on an unknown exception')
            return self.err == exc[1]
        if name in ('PyNumber_Index', '_PyNumber_Index', '__Pyx_PyNumber_Index') and len(argexprs) == 1 and name not in self.funcs:
            o = self.ev(argexprs[0], env)
            k = o.kind if isinstance(o, Obj) else None
            return self.protocol('PyNumber_Index', o, [('index', k and k.nb_index)])
        if name == 'PyNumber_Long' and len(argexprs) == 1:
            o = self.ev(argexprs[0], env)
            k = o.kind if isinstance(o, Obj) else None
            return self.protocol('PyNumber_Long', o, [('int', k and k.nb_int), ('index', k and k.nb_index), ('parse', k and k.parses)])
        if name in PYLONG_AS and len(argexprs) >= 1 and name not in self.funcs:
            o = self.ev(argexprs[0], env)
            for a in argexprs[1:]:
                self.ev(a, env)
            if o is NULL:
                self.err = self.err or 'SystemError'          # PyErr_BadInternalCall()
                return -1
            if not isinstance(o, Obj):
                raise Unsupported('%s(%r)' % (name, o))
            if o.kind.long:
                return CInt(o.prov)
            if PYLONG_AS[name]:
                v = self.protocol(name, o, [('index', o.kind.nb_index)])
                return CInt(v.prov) if isinstance(v, Obj) else -1
            self.events.append((name, 'TypeError'))
            self.err = self.err or 'TypeError'
            return -1
        if name in self.funcs:
            f = self.funcs[name]
            args = [self.ev(a, env) for a in argexprs]
            if len(args) != len(f.params):
                raise Unsupported('%s called with %d arguments' % (name, len(args)))
            objs = [a for a in args if isinstance(a, (Obj, Null))]
            if f.reads_pylong and len(f.params) == 1 and args[0] is NULL:
                raise Undefined('%s(), which reads its argument as a PyLong, is called with NULL' % name)
            if f.returns_c_integer and f.reads_pylong and len(objs) == 1 and isinstance(objs[0], Obj) and objs[0].kind.long \
                    and all(fr[0] != name for fr in self.stack):
                # digit-level conversion of a PyLong (the body applies PyLong accessors / C-API PyLong converters itself): C05-MODEL's
                # business; here: "the value of that int".  Dispatchers and coercion helpers (no accessor of their own) are walked, and so
                # is a function that is being walked already (the entry called again with the coerced object).
                return CInt(objs[0].prov)
            return self.call_func(f, args)
        raise Unsupported('call of %s()' % name)

    # -- statements
    def call_func(self, f, args, depth=0):
        frame = (f.name, tuple(repr(a) for a in args), self.err)
        if frame in self.stack:
            # same function, same abstract arguments, same error state: what the callee does depends on nothing else but the outcomes of
            # the slot calls it makes, and those may repeat (an __index__ that succeeded once succeeds again) - so there is an execution
            # on which the C code recurses without end
            raise Undefined('%s calls itself again with the same argument (%s): unbounded recursion' % (f.name, ', '.join(frame[1])))
        if len(self.stack) > MAX_DEPTH:
            raise Unsupported('call depth through %s' % f.name)
        self.stack.append(frame)
        try:
            return self._call_func(f, args)
        finally:
            self.stack.pop()

    def _call_func(self, f, args):
        self.walked.append(f.name)
        body = select(f.body, self.atom)
        try:
            stmts = pC17.parse_body(body)
        except Exception as e:
            raise Unsupported('cannot parse the body of %s: %s' % (f.name, e))
        env = [{p[0]: a for p, a in zip(f.params, args)}]
        try:
            try:
                self.block(stmts, env)
            except _Goto as g:
                for _ in range(20):
                    idx = [i for i, st in enumerate(stmts) if st.kind == 'label' and st.text.strip().rstrip(':').strip() == g.label]
                    if not idx:
                        raise Unsupported('goto %s: label is not at the top level of %s' % (g.label, f.name))
                    try:
                        self.block(stmts[idx[0] + 1:], env)
                        break
                    except _Goto as g2:
                        g = g2
                else:
                    raise Unsupported('goto loop in %s' % f.name)
        except _Return as r:
            return r.v
        if f.ret.split()[-1:] == ['void']:
            return None
        raise Undefined('%s ends without returning a value' % f.name)

    def block(self, stmts, env):
        for st in stmts:
            self.stmt(st, env)

    def stmt(self, st, env):
        self.steps += 1
        if self.steps > MAX_STEPS:
            raise Unsupported('evaluation does not terminate')
        k = st.kind
        if k == 'block':
            env.append({})
            try:
                self.block(pC17.as_list(st.body), env)
            finally:
                env.pop()
            return
        if k == 'if':
            if self.truth(self.ev(self.parse(st.text), env)):
                self.block(pC17.as_list(st.body), env)
            elif st.orelse is not None:
                self.block(pC17.as_list(st.orelse), env)
            return
        if k == 'label':
            return
        if k == 'pp':
            raise Unsupported('preprocessor line left in a selected variant: %s' % st.text[:40])
        if k != 'simple':
            raise Unsupported('%s statement' % k)
        t = ' '.join(st.text.split())
        if not t:
            return
        m = re.match(r'^return\b\s*(.*)$', t)
        if m:
            raise _Return(self.ev(self.parse(m.group(1)), env) if m.group(1) else None)
        m = re.match(r'^goto\s+(\w+)$', t)
        if m:
            raise _Goto(m.group(1))
        first = re.match(r'[A-Za-z_]\w*', t)
        m = DECL.match(t) if first and first.group(0) not in KEYWORDS else None
        if m and not re.match(r'^\w+\s*(=[^=]|\(|->|\[|$)', t):
            for d in pC17_split_commas(m.group('decls')):
                mm = re.match(r'^\**\s*(?:const\s+)?(\w+)\s*(?:\[[^\]]*\])?\s*(?:=\s*(.*))?$', d.strip(), re.S)
                if not mm:
                    raise Unsupported('declarator %r' % d)
                env[-1][mm.group(1)] = self.ev(self.parse(mm.group(2)), env) if mm.group(2) else None
            return
        m = re.match(r'^(\w+)\s*=(?!=)\s*(.*)$', t, re.S)
        if m:
            v = self.ev(self.parse(m.group(2)), env)
            for scope in reversed(env):
                if m.group(1) in scope:
                    scope[m.group(1)] = v
                    return
            raise Unsupported('assignment to the unknown variable %s' % m.group(1))
        m = re.match(r'^\*\s*(\w+)\s*=(?!=)\s*(.*)$', t, re.S)
        if m:
            ref = self.ev(('id', m.group(1)), env)
            if ref is NULL:
                raise Undefined('store through the NULL pointer %s' % m.group(1))
            if not isinstance(ref, Ref):
                raise Unsupported('store through %s' % m.group(1))
            ref.scope[ref.name] = self.ev(self.parse(m.group(2)), env)
            return
        m = re.match(r'^(\w+)\s*(\|=|&=|\+=|-=)', t)
        if m:
            raise Unsupported('compound assignment %s' % t[:40])
        self.ev(self.parse(t), env)


def pC17_split_commas(text):
    out, depth, cur = [], 0, ''
    for ch in text:
        if ch in '([{':
            depth += 1
        elif ch in ')]}':
            depth -= 1
        if ch == ',' and depth == 0:
            out.append(cur)
            cur = ''
        else:
            cur += ch
    out.append(cur)
    return out


# ------------------------------------------------------------------------------------------------ exploring one (entry, kind)
class Path:
    def __init__(self, assign, run, outcome, detail):
        self.assign, self.outcome, self.detail = dict(assign), outcome, detail
        self.events = list(run.events)
        self.all_ok = all(not ev[1].endswith('raises') for ev in run.events)
        self.walked = list(run.walked)

    def variant(self):
        return ', '.join('%s%s' % ('' if v else '!', re.sub(r'^(#|C:)', '', a)) for a, v in sorted(self.assign.items())) or 'every configuration'


def explore(funcs, entry, kind):
    """every path of entry(<object of kind>) over all variants -> [Path]; outcome in 'converted' / 'error' / 'silent' / 'undefined'"""
    paths, assigns, runs = [], [{}], 0
    while assigns:
        assign = assigns.pop()
        prefix = []
        while True:
            runs += 1
            if runs > MAX_RUNS:
                raise Unsupported('more than %d paths through %s' % (MAX_RUNS, entry))
            run = Run(funcs, assign, prefix)
            try:
                v = run.call_func(funcs[entry], [Obj(kind)])
            except NeedAtom as n:
                for val in (True, False):
                    a = dict(assign)
                    a[n.atom] = val
                    assigns.append(a)
                break
            except Undefined as u:
                paths.append(Path(assign, run, 'undefined', str(u)))
            else:
                if run.err is not None:
                    paths.append(Path(assign, run, 'error', run.err))
                elif isinstance(v, CInt):
                    paths.append(Path(assign, run, 'converted', v.prov))
                else:
                    paths.append(Path(assign, run, 'silent', 'returns %r without an exception' % (v,)))
            taken = run.taken
            while taken and taken[-1][0] + 1 >= taken[-1][1]:
                taken.pop()
            if not taken:
                break
            prefix = [c for c, _, _ in taken[:-1]] + [taken[-1][0] + 1]
    return paths


# ------------------------------------------------------------------------------------------------ entries
NOT_INT_CONVERSIONS = ('CBIntType', 'CPyUCS4IntType', 'CPyUnicodeIntType')       # truth value / characters: other conversions, other properties


def int_class_converters(ctx):
    """{from_py_function name: [(class, line)]} of the C integer type classes of PyrexTypes that name their converter as a constant"""
    from .fixedconv import class_constants
    tree = ctx.parse('Cython/Compiler/PyrexTypes.py')
    bases = {}
    for c in tree.body:
        if isinstance(c, ast.ClassDef):
            bases[c.name] = [b.id for b in c.bases if isinstance(b, ast.Name)]
    if 'CIntType' not in bases:
        raise AnalysisError('C05-INDEX: PyrexTypes.CIntType vanished')

    def ancestors(name, seen=()):
        out = [name]
        for b in bases.get(name, []):
            if b not in seen:
                out += ancestors(b, seen + (name,))
        return out
    names = {}
    for cname, d in class_constants(ctx).items():
        anc = ancestors(cname)
        if 'CIntType' not in anc or any(s in anc for s in NOT_INT_CONVERSIONS) or 'from_py_function' not in d:
            continue
        names.setdefault(d['from_py_function'][0], []).append((cname, d['from_py_function'][1]))
    return names


def resolve_alias(ctx, name, depth=0):
    """a #define NAME other_name  ->  other_name"""
    for d in ctx.cat.lookup(name):
        if d.kind == 'macro' and depth < 3:
            body = (d.body or '').strip()
            if re.fullmatch(r'[A-Za-z_]\w*', body) and not d.params:
                return resolve_alias(ctx, body, depth + 1)
    return name


def section_raws(ctx):
    out = {}
    for sec in SECTIONS:
        s = P4.section_texts(ctx.cat, TC, sec).get('impl')
        if s is None:
            raise AnalysisError('C05-INDEX: %s::%s has no implementation part' % (TC, sec))
        out[sec] = s.raw
    return out


PROTOCOL_USE = re.compile(r'\b(PyNumber_Index|PyNumber_Long|_PyNumber_Index)\s*\(|->\s*nb_(int|index)\b')


def entries(ctx, funcs):
    """[(entry function, label, used by)]: the template entry, the hand-named converters of PyrexTypes, and every other function of the
    sections that takes one object, returns a C integer and calls a number protocol itself (sibling converters: reaches a converter, a number protocol or a C-API PyLong converter, and nothing else in the sections calls it)"""
    out, infos = {}, []
    if TEMPLATE_ENTRY not in funcs:
        raise AnalysisError('C05-INDEX: the {{FROM_PY_FUNCTION}} entry of %s::CIntFromPy vanished' % TC)
    out[TEMPLATE_ENTRY] = ['CIntFromPy:{{FROM_PY_FUNCTION}}', ['every C integer type without a hand-named converter']]
    for name, users in sorted(int_class_converters(ctx).items()):
        target = resolve_alias(ctx, name)
        who = ', '.join(u[0] for u in users) + (' (as %s)' % name if name != target else '')
        if target in funcs:
            out.setdefault(target, ['TypeConversions:%s' % target, []])[1].append(who)
        elif target in PYLONG_AS:
            # a C-API converter used as it is: walked through a one-line wrapper, i.e. decided by the documented contract of that function
            wrapper = 'sa_capi_' + target
            funcs[wrapper] = CFunc(wrapper, 'sa_t', [('x', 'PyObject *x')], '{\n    return %s(x);\n}' % target, 'PyrexTypes', users[0][1])
            out.setdefault(wrapper, ['C-API:%s' % target, []])[1].append(who)
        else:
            infos.append('%s (%s) is not a function of %s::%s (C-API or another section): not decided' % (name, who, TC, '/'.join(SECTIONS)))
    calls = {f.name: {n for n in re.findall(r'\b(\w+)\s*\(', f.body) if n != f.name} for f in funcs.values()}
    called = set().union(*calls.values()) if calls else set()

    def converts(name, seen=()):
        """does the function (transitively) reach a known converter, a number protocol or a C-API PyLong converter?"""
        f = funcs[name]
        if name in out or PROTOCOL_USE.search(f.body) or any(c in PYLONG_AS for c in calls[name]):
            return True
        return any(c in funcs and c not in seen and converts(c, seen + (name,)) for c in calls[name])
    for name, f in sorted(funcs.items()):
        # a root of the call graph: internal workers (reached only behind a PyLong_Check of their caller) are walked from their callers
        if name not in out and name not in called and f.returns_c_integer and len(f.params) == 1 and 'PyObject' in f.params[0][1] and converts(name):
            out[name] = ['%s:%s' % (f.section, name), ['no type class of PyrexTypes names it']]
    return [(n, v[0], '; '.join(v[1])) for n, v in out.items()], infos


def tables(ctx, texts=None):
    """-> (funcs, [(entry, label, users)], infos, {(label, kind name): [Path]})"""
    funcs = load_functions(texts if texts is not None else section_raws(ctx))
    ents, infos = entries(ctx, funcs)
    table = {}
    for entry, label, _ in ents:
        for kind in KINDS:
            try:
                table[(label, kind.name)] = explore(funcs, entry, kind)
            except Unsupported as e:
                raise AnalysisError('C05-INDEX: %s for an object of class %s: %s' % (label, kind.name, e))
    return funcs, ents, infos, table


def _tables_cached(ctx):
    # The abstract interpreter is recursive (MAX_DEPTH analysed C calls, each a few dozen Python frames deep) and the check driver adds its own
    # frames: give the walk room, so that the bounded-depth test of call_func decides, not Python's default recursion limit.
    import sys
    old = sys.getrecursionlimit()
    sys.setrecursionlimit(max(old, 20000))
    try:
        c = getattr(ctx, '_cache', None)
        if c is None:
            return tables(ctx)
        if 'dD7.tables' not in c:
            c['dD7.tables'] = tables(ctx)
        return c['dD7.tables']
    finally:
        sys.setrecursionlimit(old)


def _line_of(funcs, path, fallback):
    for name in reversed(path.walked):
        f = funcs.get(name)
        if f is not None and f.section in ('TypeConversions', 'PyrexTypes'):
            return name, f.line
    f = funcs.get(fallback)
    return fallback, (f.line if f else 0)


def _file_of(funcs, fname):
    f = funcs.get(fname)
    return 'Cython/Compiler/PyrexTypes.py' if f is not None and f.section == 'PyrexTypes' else REL


def _section_line(ctx, funcs, fname):
    f = funcs.get(fname)
    if f is None:
        return 0
    if f.section == 'PyrexTypes':
        return f.line
    sec = P4.section_texts(ctx.cat, TC, f.section).get('impl')
    return (getattr(sec, "line", 0) or 0) + f.line - 1


# embedded examples (positive controls): the coercion step as it must NOT look
CONTROL = {'TypeConversions': '''
static CYTHON_INLINE PyObject* sa_coerce(PyObject* x) {
  PyNumberMethods *m;
  PyObject *res = NULL;
  if (likely(PyLong_Check(x)))
      return __Pyx_NewRef(x);
  m = Py_TYPE(x)->tp_as_number;
  if (likely(m && m->nb_int)) {
      res = m->nb_int(x);
  }
  if (!res && !PyErr_Occurred()) {
      PyErr_SetString(PyExc_TypeError, "an integer is required");
  }
  return res;
}
static CYTHON_INLINE Py_ssize_t sa_digits(PyObject* b) {
    return PyLong_AsSsize_t(b);
}
''', 'CIntFromPy': '''
static CYTHON_INLINE sa_t TPL_FROM_PY_FUNCTION(PyObject *x) {
    sa_t val;
    PyObject *tmp;
    if (likely(PyLong_Check(x))) {
        return sa_digits(x);
    }
    tmp = sa_coerce(x);
    if (!tmp) return (sa_t) -1;
    val = sa_digits(tmp);
    Py_DECREF(tmp);
    return val;
}
'''}


def _control():
    funcs = load_functions(CONTROL)
    got = {}
    for kn in ('index-only', 'float', 'int', 'no-number-table'):
        ps = explore(funcs, TEMPLATE_ENTRY, KIND[kn])
        got[kn] = sorted({(p.outcome, p.detail) for p in ps if p.all_ok})
    return got


def rule_index(ctx):
    r = Rule('C05-INDEX', 'every from-Python C integer converter, in every preprocessor variant, converts every class of objects that are integers '
                          '(int, int subclasses, bool, objects with __index__) and never executes an undefined operation on any object', floor=45)
    funcs, ents, infos, table = _tables_cached(ctx)
    for i in infos:
        r.info(i)
    for entry, label, users in ents:
        rejected, undefined = [], []
        for kind in KINDS:
            paths = table[(label, kind.name)]
            r.inst('%s:%s' % (label, kind.name), sample='%s(<%s>): %s' % (label, kind.example, sorted({p.outcome + ' ' + p.detail for p in paths})), nontrivial=not kind.long)
            undefined += [(kind, p) for p in paths if p.outcome == 'undefined'][:1]
            if not kind.is_integer:
                continue
            good = [p for p in paths if p.all_ok and p.outcome != 'undefined']
            if not good and not any(p.outcome == 'undefined' for p in paths):
                raise AnalysisError('C05-INDEX: no path of %s for %s on which every slot call succeeds' % (label, kind.name))
            rejected += [(kind, p) for p in good if p.outcome != 'converted'][:1]
        if undefined:
            kind, p = undefined[0]
            fn, _ = _line_of(funcs, p, entry)
            r.violate(label + ':undefined', _file_of(funcs, fn), _section_line(ctx, funcs, fn),
                      '%s (used for %s) applied to %s [%s]: %s - undefined behaviour in the generated module (protocol calls before: %s; functions walked: %s; object classes concerned: %s)'
                      % (label, users, kind.example, p.variant(), p.detail, ' > '.join('%s:%s' % e for e in p.events) or 'none', ' > '.join(p.walked),
                         ', '.join(k.name for k, _ in undefined)))
        if rejected:
            kind, p = rejected[0]
            fn, _ = _line_of(funcs, p, entry)
            variants = []
            for _, q in rejected:
                if q.variant() not in variants:
                    variants.append(q.variant())
            r.violate(label + ':rejects-integers', _file_of(funcs, fn), _section_line(ctx, funcs, fn),
                      '%s (used for %s) does not convert the object classes: %s [in the variants: %s]; e.g. %s: %s %s after %s. These objects are integers by the data model '
                      '(operator.index() accepts them) - the conversion raises where CPython\'s own C integer conversion succeeds; functions walked: %s'
                      % (label, users, ', '.join(k.name for k, _ in rejected), ' | '.join(variants), kind.example, p.outcome, p.detail,
                         ' > '.join('%s:%s' % e for e in p.events) or 'no protocol call', ' > '.join(p.walked)))
    got = _control()
    r.positive_control(got['index-only'] == [('error', 'TypeError')] and got['int'] == [('converted', 'self')] and got['float'] == [('converted', 'int')]
                       and got['no-number-table'] == [('error', 'TypeError')], 'a coercion helper that only looks at nb_int rejects an __index__-only object: %r' % (got,))
    return r


WITNESS = {'int': 'e.g. 2.5 is truncated to 2 silently', 'parse': 'e.g. an instance of a str subclass "12" becomes 12', 'float': 'e.g. a float-like object is truncated'}
NONINT_PROTOCOLS = {'int': '__int__ (nb_int)', 'parse': 'string parsing by PyNumber_Long()', 'float': '__float__'}


def rule_nonint(ctx):
    r = Rule('C05-NONINT', 'no from-Python C integer converter, in any preprocessor variant, delivers a value for an object that is not an integer '
                           '(float, Decimal, objects with only __int__, strings): the value never comes from __int__ or from parsing', floor=45)
    funcs, ents, infos, table = _tables_cached(ctx)
    for entry, label, users in ents:
        offenders = {}        # protocol -> [(kind, path)]
        for kind in KINDS:
            paths = table[(label, kind.name)]
            r.inst('%s:%s' % (label, kind.name), sample='%s(<%s>)' % (label, kind.example), nontrivial=not kind.long)
            for p in paths:
                if p.outcome == 'converted' and p.detail in NONINT_PROTOCOLS and not kind.long:
                    offenders.setdefault(p.detail, []).append((kind, p))
                elif p.outcome == 'silent' and not kind.long:
                    offenders.setdefault('nothing', []).append((kind, p))
        for proto, lst in sorted(offenders.items()):
            key = '%s:%s' % (label, proto)
            kinds = []
            for k, _ in lst:
                if k.name not in kinds:
                    kinds.append(k.name)
            nonint = [k for k in kinds if not KIND[k].is_integer]
            p = lst[0][1]
            fn, _ = _line_of(funcs, p, entry)
            variants = []
            for _, q in lst:
                if q.variant() not in variants:
                    variants.append(q.variant())
            where = ' | '.join(variants)
            if proto == 'nothing':
                msg = '%s (used for %s) returns without a value from a PyLong and without an exception for: %s [%s]: %s' % (label, users, ', '.join(kinds), where, p.detail)
            else:
                msg = ('%s (used for %s) takes the C value from %s [in the variants: %s] for the object classes: %s. %s'
                       % (label, users, NONINT_PROTOCOLS[proto], where, ', '.join(kinds),
                          ('Not integers: %s - %s where CPython\'s C integer conversion raises TypeError' % (', '.join(nonint), WITNESS[proto])) if nonint
                          else 'For objects that have __index__ the value must come from __index__'))
            r.violate(key, _file_of(funcs, fn), _section_line(ctx, funcs, fn), msg + '; functions walked: ' + ' > '.join(p.walked))
    got = _control()
    r.positive_control(got['float'] == [('converted', 'int')], 'a coercion helper that calls nb_int converts a float: %r' % (got['float'],))
    return r
