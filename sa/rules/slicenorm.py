"""C16-SLICE: the slice normalisation of memoryview slicing (__pyx_memoryview_slice_memviewslice) is PySlice_AdjustIndices.

Decided symbolically, nothing is executed:
  CLAMP  start/stop are classified relative to the axis length L into the complete partition
             (-inf, -L-2] {-L-1} {-L} [-L+1, -2] {-1} {0} [1, L-2] {L-1} {L} {L+1} [L+2, +inf)      (L >= 4 symbolic; L = 0..3 as constants)
         each class is a linear form `c0 + c1*L + t` with a bounded parameter t.  The clamping statements of the C function are evaluated
         on these forms (comparisons are decided by the sign of a linear form over the parameter box) for both step signs and for
         present/absent bounds; the resulting form must equal the reference (CPython's PySlice_AdjustIndices, Objects/sliceobject.c).
  LEN    with the normalised bounds related by d = stop - start in {<= -1, 0, >= 1} and step = +-k (k >= 1): the new extent is the
         constant 0 when stop does not lie in the direction of the step, and (|d| - 1) / k + 1 (or the equivalent (|d| + k - 1) / k) otherwise —
         compared as linear forms of numerator and denominator.  A formula that cannot be shown to be 0 symbolically is reported only
         with a concrete counterexample (d, k) found in a small box; without one the rule stays silent (and says so)."""
import re

from ..core import Rule, AnalysisError
from ..engine import cexpr
from ..engine.cutil import strip_c_comments
from ..engine.cguard import function_at
from . import pC17

REL = 'Cython/Utility/MemoryView_C.c'
FUNC = '__pyx_memoryview_slice_memviewslice'
INF = None


class Unproven(Exception):
    pass


class Lin:
    """c + sum(coef[s] * s) over symbols"""
    __slots__ = ('c', 'k')

    def __init__(self, c=0, k=None):
        self.c = c
        self.k = {s: v for s, v in (k or {}).items() if v != 0}

    def __add__(self, o):
        o = lin(o)
        k = dict(self.k)
        for s, v in o.k.items():
            k[s] = k.get(s, 0) + v
        return Lin(self.c + o.c, k)

    def __neg__(self):
        return Lin(-self.c, {s: -v for s, v in self.k.items()})

    def __sub__(self, o):
        return self + (-lin(o))

    def scale(self, n):
        return Lin(self.c * n, {s: v * n for s, v in self.k.items()})

    @property
    def const(self):
        return not self.k

    def __eq__(self, o):
        o = lin(o)
        return self.c == o.c and self.k == o.k

    def __hash__(self):
        return hash((self.c, tuple(sorted(self.k.items()))))

    def __repr__(self):
        parts = [('%+d*%s' % (v, s)).replace('+1*', '+').replace('-1*', '-') for s, v in sorted(self.k.items())]
        if self.c or not parts:
            parts.append('%+d' % self.c)
        return ''.join(parts).lstrip('+')


def lin(x):
    return x if isinstance(x, Lin) else Lin(x)


class Div:
    """trunc(N / D) + add"""
    def __init__(self, n, d, add=0):
        self.n, self.d, self.add = n, d, add

    def __repr__(self):
        return '(%r)/(%r)%+d' % (self.n, self.d, self.add)


class Region:
    """box: symbol -> (lo, hi) with lo/hi Lin over 'L' only (or INF); 'L' itself has (Lmin, INF) or a constant"""
    def __init__(self, box):
        self.box = box

    def extreme(self, f, want_max):
        """max/min of the linear form over the box -> number or INF (unbounded)"""
        f = lin(f)
        acc = Lin(f.c, {'L': f.k.get('L', 0)})
        for s, v in f.k.items():
            if s == 'L':
                continue
            lo, hi = self.box[s]
            b = (hi if v > 0 else lo) if want_max else (lo if v > 0 else hi)
            if b is INF:
                return INF
            acc = acc + lin(b).scale(v)
        cl = acc.k.get('L', 0)
        llo, lhi = self.box['L']
        if cl == 0:
            return acc.c
        b = (lhi if cl > 0 else llo) if want_max else (llo if cl > 0 else lhi)
        if b is INF:
            return INF
        return acc.c + cl * b

    def decide(self, op, f):
        """truth of `f op 0` over the whole region: True / False / None (depends on the point)"""
        mx, mn = self.extreme(f, True), self.extreme(f, False)
        def lt0():      # f < 0
            if mx is not INF and mx < 0:
                return True
            if mn is not INF and mn >= 0:
                return False
            return None
        def le0():
            if mx is not INF and mx <= 0:
                return True
            if mn is not INF and mn > 0:
                return False
            return None
        if op == '<':
            return lt0()
        if op == '<=':
            return le0()
        if op == '>':
            r = le0()
            return None if r is None else not r
        if op == '>=':
            r = lt0()
            return None if r is None else not r
        if op in ('==', '!='):
            if mx is not INF and mn is not INF and mx == mn == 0:
                r = True
            elif (mx is not INF and mx < 0) or (mn is not INF and mn > 0):
                r = False
            else:
                return None
            return r if op == '==' else not r
        raise Unproven('comparison ' + op)


class Sym:
    """symbolic evaluation of the C statements on linear forms"""

    def __init__(self, region, env):
        self.r, self.env = region, dict(env)

    def ev(self, e):
        k = e[0]
        if k == 'num':
            return Lin(e[1])
        if k == 'id':
            if e[1] not in self.env:
                raise Unproven('free variable %s' % e[1])
            return self.env[e[1]]
        if k == 'cast':
            return self.ev(e[2])
        if k == 'call' and e[1] in ('likely', 'unlikely') and len(e[2]) == 1:
            return self.ev(e[2][0])
        if k == 'un':
            v = self.ev(e[2])
            if e[1] == '-':
                if isinstance(v, Lin):
                    return -v
                raise Unproven('negation of a quotient')
            if e[1] == '!':
                return not self.truth(e[2])
            raise Unproven('unary ' + e[1])
        if k == 'tern':
            return self.ev(e[2]) if self.truth(e[1]) else self.ev(e[3])
        if k == 'bin':
            op = e[1]
            if op in ('<', '>', '<=', '>=', '==', '!=', '&&', '||'):
                return self.truth(e)
            a, b = self.ev(e[2]), self.ev(e[3])
            if op in ('+', '-'):
                if isinstance(a, Div) and isinstance(b, Lin) and b.const:
                    return Div(a.n, a.d, a.add + (b.c if op == '+' else -b.c))
                if isinstance(b, Div) and isinstance(a, Lin) and a.const and op == '+':
                    return Div(b.n, b.d, b.add + a.c)
                if isinstance(a, Lin) and isinstance(b, Lin):
                    return a + b if op == '+' else a - b
                raise Unproven('arithmetic on a quotient')
            if op == '*':
                if isinstance(a, Lin) and isinstance(b, Lin):
                    if a.const:
                        return b.scale(a.c)
                    if b.const:
                        return a.scale(b.c)
                raise Unproven('non-linear product')
            if op == '/':
                if isinstance(a, Lin) and isinstance(b, Lin):
                    if a.const and b.const and b.c != 0:
                        return Lin(trunc_div(a.c, b.c))       # constant operands (counterexample search only)
                    return Div(a, b)
                raise Unproven('nested quotient')
            raise Unproven('operator ' + op)
        raise Unproven('expression ' + k)

    def truth(self, e):
        k = e[0]
        if k == 'call' and e[1] in ('likely', 'unlikely') and len(e[2]) == 1:
            return self.truth(e[2][0])
        if k == 'un' and e[1] == '!':
            return not self.truth(e[2])
        if k == 'bin' and e[1] == '&&':
            return self.truth(e[2]) and self.truth(e[3])
        if k == 'bin' and e[1] == '||':
            return self.truth(e[2]) or self.truth(e[3])
        if k == 'bin' and e[1] in ('<', '>', '<=', '>=', '==', '!='):
            a, b = self.ev(e[2]), self.ev(e[3])
            if isinstance(a, bool) or isinstance(b, bool):
                raise Unproven('comparison of a flag')
            if not (isinstance(a, Lin) and isinstance(b, Lin)):
                raise Unproven('comparison of a quotient: %r %s %r' % (a, e[1], b))
            r = self.r.decide(e[1], a - b)
            if r is None:
                raise Unproven('`%r %s %r` is not decided by the class' % (a, e[1], b))
            return r
        v = self.ev(e)
        if isinstance(v, bool):
            return v
        if isinstance(v, Lin):
            r = self.r.decide('!=', v)
            if r is None:
                raise Unproven('truth of %r' % v)
            return r
        raise Unproven('truth of a quotient')

    def run(self, stmts):
        for st in stmts:
            if st.kind == 'block':
                self.run(st.body)
            elif st.kind == 'if':
                if self.truth(cexpr.parse(st.text)):
                    self.run(_as_list(st.body))
                elif st.orelse is not None:
                    self.run(_as_list(st.orelse))
            elif st.kind == 'simple':
                self.simple(st.text)
            elif st.kind == 'pp':
                continue
            else:
                raise Unproven('statement kind %s' % st.kind)

    def simple(self, text):
        t = text.strip().rstrip(';').strip()
        if not t:
            return
        m = re.match(r'^(?:(?:const\s+)?(?:Py_ssize_t|int|long|size_t)\s+)?([A-Za-z_]\w*)\s*(\+=|-=|=)(?!=)\s*(.+)$', t, re.S)
        if m:
            name, op, rhs = m.groups()
            v = self.ev(cexpr.parse(' '.join(rhs.split())))
            if op != '=':
                cur = self.env[name]
                if not (isinstance(cur, Lin) and isinstance(v, Lin)):
                    raise Unproven('compound assignment on a quotient')
                v = cur + v if op == '+=' else cur - v
            self.env[name] = v
            return
        m = re.match(r'^(\+\+|--)\s*([A-Za-z_]\w*)$|^([A-Za-z_]\w*)\s*(\+\+|--)$', t)
        if m:
            name = m.group(2) or m.group(3)
            op = m.group(1) or m.group(4)
            cur = self.env[name]
            if isinstance(cur, Div):
                self.env[name] = Div(cur.n, cur.d, cur.add + (1 if op == '++' else -1))
            else:
                self.env[name] = cur + (1 if op == '++' else -1)
            return
        if re.match(r'^(?:Py_ssize_t|int|long)\s+[A-Za-z_]\w*(\s*,\s*[A-Za-z_]\w*)*$', t):
            return
        raise Unproven('statement `%s`' % t[:60])


def _as_list(st):
    if st is None:
        return []
    if isinstance(st, list):
        return st
    return [st]


# ------------------------------------------------------------------------------------------------- the C function
def slice_block(ctx):
    text = strip_c_comments(ctx.read(REL))
    m = re.search(r'\bif\s*\(\s*have_start\s*\)', text)
    if m is None:
        raise AnalysisError('%s: the `if (have_start)` clamping block was not found' % REL)
    f = function_at(text, m.start())
    if f is None or FUNC not in f[0]:
        raise AnalysisError('%s: `if (have_start)` is not inside %s' % (REL, FUNC))
    stmts = pC17.parse_body(text[f[1]:f[2] + 1])
    target = None

    def walk_lists(lst):
        nonlocal target
        if any(st.kind == 'if' and re.sub(r'\s', '', st.text) == 'have_start' for st in lst):
            target = lst
            return
        for st in lst:
            for sub in (st.body, st.orelse):
                if sub is None:
                    continue
                walk_lists(sub if isinstance(sub, list) else [sub])
    walk_lists(stmts)
    if target is None:
        raise AnalysisError('%s: the `if (have_start)` clamping block of %s was not found in the parsed body' % (REL, FUNC))
    return target, text.count('\n', 0, m.start()) + 1


def split_block(stmts):
    """-> (clamp statements [have_start / have_stop ifs], length statements [from the new_shape declaration to before the strides store])"""
    i0 = next(i for i, st in enumerate(stmts) if st.kind == 'if' and re.sub(r'\s', '', st.text) == 'have_start')
    i1 = next((i for i, st in enumerate(stmts) if st.kind == 'if' and re.sub(r'\s', '', st.text) == 'have_stop'), None)
    if i1 is None or i1 < i0:
        raise AnalysisError('have_stop clamping not found after have_start')
    j = next((i for i, st in enumerate(stmts) if st.kind == 'simple' and re.search(r'\bnew_shape\b', st.text) and i > i1), None)
    if j is None:
        raise AnalysisError('new_shape computation not found')
    k = next((i for i, st in enumerate(stmts) if i > j and st.kind == 'simple' and '->' in st.text), len(stmts))

    def mentions(st):
        if st is None:
            return False
        if isinstance(st, list):
            return any(mentions(x) for x in st)
        return bool(re.search(r'\bnew_shape\b', st.text or '')) or mentions(st.body) or mentions(st.orelse)
    while k > j + 1 and not mentions(stmts[k - 1]):
        k -= 1          # trailing statements that do not take part in the extent computation
    return stmts[i0:i1 + 1], stmts[j:k]


# ------------------------------------------------------------------------------------------------- CLAMP
def classes(L):
    """complete partition of the integers relative to the length L (a number, or None for symbolic L >= 4):
    [(label, value form, parameter bounds (lo, hi) or None)]"""
    Lf = Lin(0, {'L': 1}) if L is None else Lin(L)
    out = [('<=-L-2', Lf.scale(-1) - 2 - Lin(0, {'t': 1}), (Lin(0), INF))]
    for off in (-1, 0):
        out.append(('-L%+d' % off if off else '-L', Lf.scale(-1) + off, None))
    # [-L+1, -2]
    out.append(('[-L+1,-2]', Lin(-2) - Lin(0, {'t': 1}), (Lin(0), Lf - 3)))
    out.append(('-1', Lin(-1), None))
    out.append(('0', Lin(0), None))
    out.append(('[1,L-2]', Lin(1) + Lin(0, {'t': 1}), (Lin(0), Lf - 3)))
    out.append(('L-1', Lf - 1, None))
    out.append(('L', Lf, None))
    out.append(('L+1', Lf + 1, None))
    out.append(('>=L+2', Lf + 2 + Lin(0, {'t': 1}), (Lin(0), INF)))
    return out


def reference_clamp(value_class_index, v, Lf, negative):
    """PySlice_AdjustIndices for one bound (same rule for start and stop):
       v < 0: v += L; if v < 0: v = -1 if step < 0 else 0      v >= L: v = L-1 if step < 0 else L"""
    # class indices: 0 '<=-L-2', 1 '-L-1', 2 '-L', 3 '[-L+1,-2]', 4 '-1', 5 '0', 6 '[1,L-2]', 7 'L-1', 8 'L', 9 'L+1', 10 '>=L+2'
    if value_class_index in (0, 1):
        return Lin(-1) if negative else Lin(0)
    if value_class_index in (2, 3, 4):
        return v + Lf
    if value_class_index in (5, 6, 7):
        return v
    return (Lf - 1) if negative else Lf


def check_clamp(clamp_stmts):
    """-> (number of cases evaluated, [(case text, got, want)], [unproven texts])"""
    bad, unproven, n = [], [], 0
    for L in (None, 0, 1, 2, 3):
        Lf = Lin(0, {'L': 1}) if L is None else Lin(L)
        lbox = (4, INF) if L is None else (L, L)
        cls = classes(L)
        for negative in (False, True):
            for var, have in (('start', 'have_start'), ('stop', 'have_stop')):
                other, other_have = ('stop', 'have_stop') if var == 'start' else ('start', 'have_start')
                for ci, (label, form, bounds) in enumerate(cls):
                    box = {'L': lbox}
                    if bounds is not None:
                        lo, hi = bounds
                        # empty class for this L?
                        reg0 = Region({'L': lbox})
                        if hi is not INF and reg0.extreme(lin(hi) - lin(lo), True) is not INF and reg0.extreme(lin(hi) - lin(lo), True) < 0:
                            continue
                        box['t'] = (lo, hi)
                    if L is not None:
                        # for constant small L some singleton classes coincide or the ranges are empty: keep each class whose value set is non-empty
                        pass
                    env = {'shape': Lf, var: form, other: Lin(0), have: True, other_have: False, 'negative_step': negative,
                           'have_step': True, 'step': Lin(-1) if negative else Lin(1)}
                    want = reference_clamp(ci, form, Lf, negative)
                    # classes overlap for small constant L (e.g. L = 0: -L == 0): recompute the reference from the value itself
                    if L is not None:
                        reg = Region(box)
                        want = None
                        try:
                            if reg.decide('<', form) is True:
                                w = form + Lf
                                want = (Lin(-1) if negative else Lin(0)) if reg.decide('<', w) is True else (w if reg.decide('<', w) is False else None)
                            elif reg.decide('<', form) is False:
                                ge = reg.decide('>=', form - Lf)
                                want = ((Lf - 1) if negative else Lf) if ge is True else (form if ge is False else None)
                        except Unproven:
                            want = None
                        if want is None:
                            continue
                    n += 1
                    case = '%s in class %s, L %s, %s step' % (var, label, 'symbolic (>= 4)' if L is None else '= %d' % L, 'negative' if negative else 'positive')
                    try:
                        s = Sym(Region(box), env)
                        s.run(clamp_stmts)
                        got = s.env[var]
                    except Unproven as e:
                        unproven.append('%s: %s' % (case, e))
                        continue
                    if not (isinstance(got, Lin) and got == want):
                        bad.append((case, got, want))
                # absent bound: the defaults
                env = {'shape': Lf, 'start': Lin(0), 'stop': Lin(0), 'have_start': False, 'have_stop': False, 'negative_step': negative,
                       'have_step': True, 'step': Lin(-1) if negative else Lin(1)}
                n += 1
                try:
                    s = Sym(Region({'L': lbox}), env)
                    s.run(clamp_stmts)
                    got = s.env[var]
                except Unproven as e:
                    unproven.append('%s absent: %s' % (var, e))
                    continue
                want = ((Lf - 1) if negative else Lin(0)) if var == 'start' else (Lin(-1) if negative else Lf)
                if not (isinstance(got, Lin) and got == want):
                    bad.append(('%s absent, L %s, %s step' % (var, 'symbolic' if L is None else L, 'negative' if negative else 'positive'), got, want))
    return n, bad, unproven


# ------------------------------------------------------------------------------------------------- LEN
def trunc_div(a, b):
    q = abs(a) // abs(b)
    return q if (a < 0) == (b < 0) else -q


def check_len(len_stmts):
    """-> (cases, [(case, problem)], [notes])"""
    bad, notes, n = [], [], 0
    K = Lin(0, {'k': 1})
    for negative in (False, True):
        for dlabel, dform, dbox in (('stop - start <= -1', Lin(-1) - Lin(0, {'u': 1}), (Lin(0), INF)), ('stop == start', Lin(0), None),
                                    ('stop - start >= 1', Lin(1) + Lin(0, {'u': 1}), (Lin(0), INF))):
            box = {'L': (0, INF), 'k': (Lin(1), INF), 'x': (INF, INF)}
            if dbox:
                box['u'] = dbox
            X = Lin(0, {'x': 1})
            env = {'start': X, 'stop': X + dform, 'step': -K if negative else K, 'negative_step': negative, 'shape': Lin(0, {'L': 1})}
            n += 1
            case = '%s, %s step' % (dlabel, 'negative' if negative else 'positive')
            nonempty = (dlabel.endswith('>= 1') and not negative) or (dlabel.endswith('<= -1') and negative)
            try:
                s = Sym(Region(box), env)
                s.run(len_stmts)
                got = s.env.get('new_shape')
            except Unproven as e:
                got = ('unproven', str(e))
            mag = dform if not negative else -dform        # |d| on the non-empty side
            if nonempty:
                ok = isinstance(got, Div) and got.d == K and ((got.n == mag - 1 and got.add == 1) or (got.n == mag + K - 1 and got.add == 0))
                if ok:
                    continue
                wit = _witness(len_stmts, negative, nonempty=True)
                if wit:
                    bad.append((case, 'the extent is %r; expected (|stop - start| - 1) / |step| + 1. Counterexample: %s' % (got, wit)))
                else:
                    notes.append('%s: extent formula %r not recognised as a ceil-division idiom, no counterexample in the search box' % (case, got))
            else:
                if isinstance(got, Lin) and got == Lin(0):
                    continue
                wit = _witness(len_stmts, negative, nonempty=False, sign=0 if dlabel == 'stop == start' else (-1 if dlabel.endswith('<= -1') else 1))
                if wit:
                    bad.append((case, 'the slice must be empty but the extent is %r. Counterexample: %s' % (got, wit)))
                else:
                    notes.append('%s: extent %r not shown to be 0 symbolically, no counterexample in the search box' % (case, got))
    return n, bad, notes


def _witness(len_stmts, negative, nonempty, sign=None):
    """A concrete (start, stop, step) inside the scenario on which the statements give an extent different from len(range(start, stop, step)).
    Only used to substantiate a report — never to pass a check."""
    for k in (1, 2, 3, 5):
        step = -k if negative else k
        for d in range(-7, 8):
            if nonempty and not ((d >= 1 and not negative) or (d <= -1 and negative)):
                continue
            if not nonempty:
                if sign == 0 and d != 0:
                    continue
                if sign == -1 and d > -1:
                    continue
                if sign == 1 and d < 1:
                    continue
            start, stop = 10, 10 + d
            env = {'start': Lin(start), 'stop': Lin(stop), 'step': Lin(step), 'negative_step': negative, 'shape': Lin(40)}
            try:
                s = Sym(Region({'L': (40, 40)}), env)
                s.run(len_stmts)
                got = s.env.get('new_shape')
            except Unproven:
                continue
            if isinstance(got, Div) and got.n.const and got.d.const and got.d.c != 0:
                val = trunc_div(got.n.c, got.d.c) + got.add
            elif isinstance(got, Lin) and got.const:
                val = got.c
            else:
                continue
            want = len(range(start, stop, step))
            if val != want:
                return 'start=%d stop=%d step=%d gives extent %d, Python gives %d' % (start, stop, step, val, want)
    return None


def rule_slice(ctx, floor=60):
    r = Rule('C16-SLICE', 'memoryview slicing normalises start/stop exactly like PySlice_AdjustIndices on the complete class partition relative to the axis length, '
             'and computes the extent as 0 / (|stop-start|-1)/|step|+1 (symbolic evaluation on linear forms)', floor)
    block, line = slice_block(ctx)
    clamp_stmts, len_stmts = split_block(block)
    n, bad, unproven = check_clamp(clamp_stmts)
    for i in range(n):
        r.inst('clamp#%d' % i, sample='clamp case %d' % i if i < 3 else None)
    seen = set()
    for case, got, want in bad:
        key = 'MemoryView_C.c:%s:clamp:%s' % (FUNC, re.sub(r', L .*?, ', ', ', case))
        if key in seen:
            continue
        seen.add(key)
        r.violate(key, REL, line, 'slice bound normalisation differs from Python: %s -> %r, PySlice_AdjustIndices gives %r' % (case, got, want))
    if unproven:
        raise AnalysisError('C16-SLICE: %d clamp cases could not be decided symbolically, e.g. %s' % (len(unproven), unproven[0]))
    n2, bad2, notes = check_len(len_stmts)
    for i in range(n2):
        r.inst('len#%d' % i, sample='extent case %d' % i if i < 2 else None)
    for case, msg in bad2:
        r.violate('MemoryView_C.c:%s:extent:%s' % (FUNC, case), REL, line, 'slice extent: %s: %s' % (case, msg))
    for x in notes:
        r.info(x)
    # positive control: the pre-fix clamping/extent code
    old = pC17.parse_body('{ if (have_start) { if (start < 0) { start += shape; if (start < 0) { start = 0; } } else if (start >= shape) { start = negative_step ? (shape - 1) : shape; } } '
                          'else { start = negative_step ? (shape - 1) : 0; } if (have_stop) { if (stop < 0) { stop += shape; if (stop < 0) { stop = 0; } } else if (stop > shape) { stop = shape; } } '
                          'else { stop = negative_step ? -1 : shape; } Py_ssize_t new_shape = (stop - start) / step; if ((stop - start) - step * new_shape) { ++new_shape; } if (new_shape < 0) { new_shape = 0; } }')
    c_old, l_old = split_block(old)
    _, b1, u1 = check_clamp(c_old)
    try:
        _, b2, _n = check_len(l_old)
    except Unproven:
        b2 = []
    r.positive_control(bool(b1) and any('negative' in c for c, g, w in b1), 'the clamping of the unrepaired helper (negative start/stop clamped to 0 for negative steps) is reported')
    return r
