"""C20-FLAT: flatten_parallel_assignments emits the partial assignments of `a, *b, c = x, y, z, w` in the order of their right-hand side values.

The function distributes the RHS items over per-position target lists and a separate list of starred assignments, then emits assignments
into `output`; ParallelAssignmentNode evaluates the right-hand sides in that order.  The starred entries cover RHS positions in the middle, so they
must be emitted from inside the loop over the RHS positions (merged by position), not by a second loop after it."""
import ast

from ..core import Rule, AnalysisError
from ..engine import tables
from ..engine.pyindex import walk_no_nested


def _names(n):
    return {x.id for x in ast.walk(n) if isinstance(x, ast.Name)}


def analyse(fn):
    """-> (positional loop found, starred emissions inside it, starred emissions after it)"""
    out_name = fn.args.args[1].arg if len(fn.args.args) > 1 else 'output'
    pos_loop = None
    for s in fn.body:
        if isinstance(s, ast.For) and 'rhs_args' in _names(s.iter) and 'lhs_targets' in _names(s.iter):
            pos_loop = s

    def emissions(node):
        n = 0
        for x in ast.walk(node):
            if isinstance(x, ast.Call) and out_name in _names(x) and 'starred_assignments' in (_names(x) | _names(node if isinstance(node, (ast.For, ast.While)) and hasattr(node, 'iter') else x)):
                n += 1
        return n
    if pos_loop is None:
        return None
    inside = sum(1 for x in ast.walk(pos_loop) if isinstance(x, ast.Call) and out_name in _names(x) and 'starred_assignments' in _names(x))
    after = 0
    seen = False
    for s in fn.body:
        if s is pos_loop:
            seen = True
            continue
        if seen and isinstance(s, (ast.For, ast.While)) and 'starred_assignments' in _names(s.iter if isinstance(s, ast.For) else s.test):
            after += sum(1 for x in ast.walk(s) if isinstance(x, ast.Call) and out_name in _names(x))
    return inside, after


def rule_flat(ctx, floor=1):
    r = Rule('C20-FLAT', 'flatten_parallel_assignments emits starred partial assignments merged by RHS position (from inside the loop over the RHS positions)', floor)
    rel = 'Cython/Compiler/ParseTreeTransforms.py'
    fn = tables.find_function(ctx.parse(rel), 'flatten_parallel_assignments')
    if fn is None:
        raise AnalysisError('%s: flatten_parallel_assignments not found' % rel)
    res = analyse(fn)
    if res is None:
        raise AnalysisError('flatten_parallel_assignments: the loop over zip(lhs_targets, rhs_args) was not found — the algorithm changed, re-derive the rule')
    inside, after = res
    key = 'ParseTreeTransforms.flatten_parallel_assignments:starred-order'
    r.inst(key, sample='starred emissions inside the positional loop: %d, in a later loop: %d' % (inside, after))
    if after and not inside:
        r.violate(key, rel, fn.lineno, 'the assignments to starred targets are emitted by a separate loop after the loop over the RHS positions: the values of a starred target in the middle '
                  '(a, *b, c = f(), g(), h(), k()) are evaluated after those of the targets to its right (f, k, g, h)')
    old = ast.parse("def flatten_parallel_assignments(input, output):\n    for cascade, rhs in zip(lhs_targets, rhs_args):\n        if cascade:\n            flatten_parallel_assignments(cascade, output)\n"
                    "    for cascade in starred_assignments:\n        output.append(cascade)\n").body[0]
    r.positive_control(analyse(old) == (0, 1), 'starred assignments emitted after the positional loop recognised')
    return r
