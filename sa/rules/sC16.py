"""C16 (strengthening) — C16-ELL: the compile-time expansion of `...` / None / missing dimensions in the index list of a
typed memoryview (Cython/Compiler/MemoryView.py: unellipsify).

unellipsify(indices, ndim) only looks at the *kind* of each index (Ellipsis node / None = newaxis / slice / anything
else = integer index): the model nodes below offer exactly `is_none`, `is_slice`, `pos` and the EllipsisNode class
test, any other read makes the rule stop with an analysis error.  Over that exact abstraction the function is folded by the
checker (sa/rules/pC10.Folder on model nodes - nothing of /repo is imported or run) for EVERY kind sequence of length <= 4
with at most one Ellipsis that is valid for ndim 1..3 (the dimensionalities property C16 quantifies over), and the
expansion is compared with NumPy's rule for basic indexing:

    the first Ellipsis stands for  ndim - #(indices that consume a dimension)  full slices, in its place;
    without an Ellipsis the missing dimensions are full slices appended at the end;
    every written index (None included) keeps its place relative to the others;  newaxes == the None entries.

A None counted on the wrong side, an off-by-one in the number of slices, padding in the wrong place or a reordered
result all change shape/strides (and the selected elements when another index follows).
Not decided: index lists longer than 4 / ndim > 3, several Ellipsis entries (NumPy rejects them; Cython accepts them).
"""
import ast, itertools

from ..core import Rule, AnalysisError
from .pC10 import Unfoldable, Closure, Env
from .sC15 import NodeFolder, MNode

MVPY = 'Cython/Compiler/MemoryView.py'
EXN = 'Cython/Compiler/ExprNodes.py'
ELL = MNode('class EllipsisNode')
POS = ('model', 1, 1)
MAX_LEN, MAX_NDIM = 4, 3
SHOW = {'E': '...', 'N': 'None', 'S': 'a:b', 'I': 'i', 'F': ':'}


def _index(kind):
    if kind == 'E':
        return MNode('Ellipsis index', __kind__='E', is_none=False, is_slice=False, pos=POS, __isa__=(ELL,))
    return MNode({'N': 'None index', 'S': 'slice index', 'I': 'integer index'}[kind], __kind__=kind,
                 is_none=kind == 'N', is_slice=kind == 'S', pos=POS, __isa__=())


def _none_node(pos, **kw):
    return MNode('NoneNode()', __kind__='N', is_none=True, is_slice=False, pos=pos, __isa__=())


def _slice_node(pos, start=None, stop=None, step=None, **kw):
    full = all(isinstance(x, MNode) and x.attrs.get('is_none') for x in (start, stop, step))
    return MNode('SliceNode()', __kind__='F' if full else 'S', is_none=False, is_slice=True, pos=pos, start=start, stop=stop, step=step, __isa__=())


def domain():
    for n in range(1, MAX_LEN + 1):
        for seq in itertools.product('ENSI', repeat=n):
            if seq.count('E') > 1:
                continue
            consuming = sum(1 for k in seq if k in 'SI')
            for ndim in range(1, MAX_NDIM + 1):
                if consuming <= ndim:
                    yield seq, ndim


def reference(seq, ndim):
    consuming = sum(1 for k in seq if k in 'SI')
    fill = ['F'] * (ndim - consuming)
    if 'E' in seq:
        k = seq.index('E')
        return list(seq[:k]) + fill + list(seq[k + 1:])
    return list(seq) + fill


def category(seq):
    if 'E' not in seq:
        return 'no-ellipsis+newaxis' if 'N' in seq else 'no-ellipsis'
    k = seq.index('E')
    after, before = 'N' in seq[k + 1:], 'N' in seq[:k]
    if after and before:
        return 'newaxis-on-both-sides-of-ellipsis'
    if after:
        return 'newaxis-after-ellipsis'
    if before:
        return 'newaxis-before-ellipsis'
    return 'ellipsis'


def show(kinds):
    return 'm[%s]' % ', '.join(SHOW[k] for k in kinds)


def expansion_table(folder, clo, report):
    """fold unellipsify on every kind sequence; report(category, message); -> number of evaluations"""
    n = 0
    for seq, ndim in sorted(domain(), key=lambda t: (len(t[0]), t[1], t[0])):
        idx = [_index(k) for k in seq]
        folder.steps = 0
        n += 1
        what = 'unellipsify(%s, ndim=%d)' % (show(seq), ndim)
        try:
            res = clo(list(idx), ndim)
        except Unfoldable as x:
            raise AnalysisError('C16-ELL cannot fold %s: %s' % (what, x))
        except AnalysisError:
            raise
        except Exception as x:
            report(category(seq) + ':crash', '%s raises %s: %s' % (what, type(x).__name__, x))
            continue
        if not (isinstance(res, tuple) and len(res) == 3 and isinstance(res[1], list) and isinstance(res[2], list)):
            raise AnalysisError('C16-ELL: unellipsify no longer returns (have_slices, indices, newaxes): %r' % (res,))
        have_slices, result, newaxes = res
        if not all(isinstance(x, MNode) and '__kind__' in x.attrs for x in result + newaxes):
            raise AnalysisError('C16-ELL: %s returns something that is not an index node' % what)
        want = reference(seq, ndim)
        got = [x.attrs['__kind__'] for x in result]
        cat = category(seq)
        if got != want:
            report(cat, '%s expands to %s, NumPy semantics is %s: the result has the wrong shape/strides (and elements, when an index follows the misplaced axis)'
                   % (what, show(got), show(want)))
            continue
        # written indices keep their identity and order
        kept = [x for x in result if any(x is y for y in idx)]
        if [id(x) for x in kept] != [id(y) for y in idx if y.attrs['__kind__'] != 'E']:
            report(cat + ':order', '%s: the written indices do not appear in their original order in the result' % what)
        if [id(x) for x in newaxes] != [id(y) for y in idx if y.attrs['__kind__'] == 'N']:
            report(cat + ':newaxes', '%s: the returned newaxes are not the None entries of the index list' % what)
        if any(k != 'I' for k in want) and not have_slices:
            report(cat + ':have_slices', '%s: have_slices is false although the expansion %s contains a slice/newaxis: the access is compiled as element indexing' % (what, show(want)))
    return n


_PC_SOURCE = '''
def unellipsify(indices, ndim):
    result = []
    seen_ellipsis = False
    have_slices = False
    newaxes = []
    for index in indices:
        if isinstance(index, ExprNodes.EllipsisNode):
            have_slices = True
            full_slice = empty_slice(index.pos)
            if seen_ellipsis:
                result.append(full_slice)
            else:
                n_indices = len(indices) - len(newaxes)
                nslices = ndim - n_indices + 1
                result.extend([full_slice] * nslices)
                seen_ellipsis = True
        else:
            if index.is_none:
                newaxes.append(index)
            have_slices = have_slices or index.is_slice or index.is_none
            result.append(index)
    result_length = len(result) - len(newaxes)
    if result_length < ndim:
        have_slices = True
        nslices = ndim - result_length
        result.extend([empty_slice(indices[-1].pos)] * nslices)
    return have_slices, result, newaxes
'''


def _folder(ctx):
    f = NodeFolder(ctx)
    f._globals[(EXN, 'EllipsisNode')] = ELL
    f._globals[(EXN, 'NoneNode')] = _none_node
    f._globals[(EXN, 'SliceNode')] = _slice_node
    return f


def rule_ellipsis(ctx):
    r = Rule('C16-ELL', 'MemoryView.unellipsify expands Ellipsis / None / missing dimensions like NumPy: expansion table over every index-kind sequence '
             '(Ellipsis, None, slice, integer; length <= 4, at most one Ellipsis) valid for ndim 1..3, folded on model nodes', floor=420)
    from ..engine import tables
    fdef = tables.find_function(ctx.parse(MVPY), 'unellipsify')
    if [a.arg for a in fdef.args.args] != ['indices', 'ndim']:
        raise AnalysisError('unellipsify no longer takes (indices, ndim)')
    f = _folder(ctx)
    clo = Closure(f, fdef, Env({}, None, MVPY))
    seen = set()

    def report(cat, msg):
        if cat not in seen:
            seen.add(cat)
            r.violate('MemoryView.unellipsify:%s' % cat, MVPY, fdef.lineno, msg)

    n = expansion_table(f, clo, report)
    for i in range(n):
        r.inst(i, nontrivial=i < 64)
    r.samples.append('%d (index-kind sequence, ndim) pairs, e.g. %s' % (n, show('IEN')))
    # positive control: a single-pass variant that has only seen the None entries in front of the Ellipsis when it sizes the expansion
    hits = []
    pf = _folder(ctx)
    env = Env({'ExprNodes': MNode('module ExprNodes', EllipsisNode=ELL),
               'empty_slice': lambda pos: _slice_node(pos, _none_node(pos), _none_node(pos), _none_node(pos))}, None, MVPY)
    expansion_table(pf, Closure(pf, ast.parse(_PC_SOURCE).body[0], env), lambda cat, msg: hits.append(cat))
    r.positive_control('newaxis-after-ellipsis' in hits and 'newaxis-before-ellipsis' not in hits and 'ellipsis' not in hits,
                       'None entries counted only up to the Ellipsis: m[..., None] gets its new axis in the wrong place')
    return r
