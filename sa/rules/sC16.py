"""C16 (strengthening) — C16-ELL: the compile-time expansion of `...` / None / missing dimensions in the index list of a
typed memoryview (Cython/Compiler/MemoryView.py: unellipsify).

unellipsify(indices, ndim) only looks at the *kind* of each index (Ellipsis node / None = newaxis / slice / anything
else = integer index): the model nodes below offer exactly `is_none`, `is_slice`, `pos` and the EllipsisNode class
test, any other read makes the rule stop with an analysis error.  Over that exact abstraction the function is folded by the
checker (sa/rules/pC10.Folder on model nodes - nothing of /repo is imported or run) for EVERY kind sequence of length <= 4
with at most one Ellipsis that is valid for ndim 1..3 (the dimensionalities property C16 quantifies over), and the
expansion is compared with NumPy's rule for basic indexing:

    the first Ellipsis stands for  ndim - #(indices that consume a dimension)  full slices, in its place;
    without an Ellipsis the missing dimensions are full slices appended at the end;
    every written index (None included) keeps its place relative to the others;  newaxes == the None entries.

A None counted on the wrong side, an off-by-one in the number of slices, padding in the wrong place or a reordered
result all change shape/strides (and the selected elements when another index follows).
Not decided: index lists longer than 4 / ndim > 3, several Ellipsis entries (NumPy rejects them; Cython accepts them).
"""
import ast, itertools

from ..core import Rule, AnalysisError
from .pC10 import Unfoldable, Closure, Env
from .sC15 import NodeFolder, MNode

MVPY = 'Cython/Compiler/MemoryView.py'
EXN = 'Cython/Compiler/ExprNodes.py'
ELL = MNode('class EllipsisNode')
POS = ('model', 1, 1)
MAX_LEN, MAX_NDIM = 4, 3
SHOW = {'E': '...', 'N': 'None', 'S': 'a:b', 'I': 'i', 'F': ':'}


def _index(kind):
    if kind == 'E':
        return MNode('Ellipsis index', __kind__='E', is_none=False, is_slice=False, pos=POS, __isa__=(ELL,))
    return MNode({'N': 'None index', 'S': 'slice index', 'I': 'integer index'}[kind], __kind__=kind,
                 is_none=kind == 'N', is_slice=kind == 'S', pos=POS, __isa__=())


def _none_node(pos, **kw):
    return MNode('NoneNode()', __kind__='N', is_none=True, is_slice=False, pos=pos, __isa__=())


def _slice_node(pos, start=None, stop=None, step=None, **kw):
    full = all(isinstance(x, MNode) and x.attrs.get('is_none') for x in (start, stop, step))
    return MNode('SliceNode()', __kind__='F' if full else 'S', is_none=False, is_slice=True, pos=pos, start=start, stop=stop, step=step, __isa__=())


def domain():
    for n in range(1, MAX_LEN + 1):
        for seq in itertools.product('ENSI', repeat=n):
            if seq.count('E') > 1:
                continue
            consuming = sum(1 for k in seq if k in 'SI')
            for ndim in range(1, MAX_NDIM + 1):
                if consuming <= ndim:
                    yield seq, ndim


def reference(seq, ndim):
    consuming = sum(1 for k in seq if k in 'SI')
    fill = ['F'] * (ndim - consuming)
    if 'E' in seq:
        k = seq.index('E')
        return list(seq[:k]) + fill + list(seq[k + 1:])
    return list(seq) + fill


def category(seq):
    if 'E' not in seq:
        return 'no-ellipsis+newaxis' if 'N' in seq else 'no-ellipsis'
    k = seq.index('E')
    after, before = 'N' in seq[k + 1:], 'N' in seq[:k]
    if after and before:
        return 'newaxis-on-both-sides-of-ellipsis'
    if after:
        return 'newaxis-after-ellipsis'
    if before:
        return 'newaxis-before-ellipsis'
    return 'ellipsis'


def show(kinds):
    return 'm[%s]' % ', '.join(SHOW[k] for k in kinds)


def expansion_table(folder, clo, report):
    """fold unellipsify on every kind sequence; report(category, message); -> number of evaluations"""
    n = 0
    for seq, ndim in sorted(domain(), key=lambda t: (len(t[0]), t[1], t[0])):
        idx = [_index(k) for k in seq]
        folder.steps = 0
        n += 1
        what = 'unellipsify(%s, ndim=%d)' % (show(seq), ndim)
        try:
            res = clo(list(idx), ndim)
        except Unfoldable as x:
            raise AnalysisError('C16-ELL cannot fold %s: %s' % (what, x))
        except AnalysisError:
            raise
        except Exception as x:
            report(category(seq) + ':crash', '%s raises %s: %s' % (what, type(x).__name__, x))
            continue
        if not (isinstance(res, tuple) and len(res) == 3 and isinstance(res[1], list) and isinstance(res[2], list)):
            raise AnalysisError('C16-ELL: unellipsify no longer returns (have_slices, indices, newaxes): %r' % (res,))
        have_slices, result, newaxes = res
        if not all(isinstance(x, MNode) and '__kind__' in x.attrs for x in result + newaxes):
            raise AnalysisError('C16-ELL: %s returns something that is not an index node' % what)
        want = reference(seq, ndim)
        got = [x.attrs['__kind__'] for x in result]
        cat = category(seq)
        if got != want:
            report(cat, '%s expands to %s, NumPy semantics is %s: the result has the wrong shape/strides (and elements, when an index follows the misplaced axis)'
                   % (what, show(got), show(want)))
            continue
        # written indices keep their identity and order
        kept = [x for x in result if any(x is y for y in idx)]
        if [id(x) for x in kept] != [id(y) for y in idx if y.attrs['__kind__'] != 'E']:
            report(cat + ':order', '%s: the written indices do not appear in their original order in the result' % what)
        if [id(x) for x in newaxes] != [id(y) for y in idx if y.attrs['__kind__'] == 'N']:
            report(cat + ':newaxes', '%s: the returned newaxes are not the None entries of the index list' % what)
        if any(k != 'I' for k in want) and not have_slices:
            report(cat + ':have_slices', '%s: have_slices is false although the expansion %s contains a slice/newaxis: the access is compiled as element indexing' % (what, show(want)))
    return n


_PC_SOURCE = '''
def unellipsify(indices, ndim):
    result = []
    seen_ellipsis = False
    have_slices = False
    newaxes = []
    for index in indices:
        if isinstance(index, ExprNodes.EllipsisNode):
            have_slices = True
            full_slice = empty_slice(index.pos)
            if seen_ellipsis:
                result.append(full_slice)
            else:
                n_indices = len(indices) - len(newaxes)
                nslices = ndim - n_indices + 1
                result.extend([full_slice] * nslices)
                seen_ellipsis = True
        else:
            if index.is_none:
                newaxes.append(index)
            have_slices = have_slices or index.is_slice or index.is_none
            result.append(index)
    result_length = len(result) - len(newaxes)
    if result_length < ndim:
        have_slices = True
        nslices = ndim - result_length
        result.extend([empty_slice(indices[-1].pos)] * nslices)
    return have_slices, result, newaxes
'''


def _folder(ctx):
    f = NodeFolder(ctx)
    f._globals[(EXN, 'EllipsisNode')] = ELL
    f._globals[(EXN, 'NoneNode')] = _none_node
    f._globals[(EXN, 'SliceNode')] = _slice_node
    return f


def rule_ellipsis(ctx):
    r = Rule('C16-ELL', 'MemoryView.unellipsify expands Ellipsis / None / missing dimensions like NumPy: expansion table over every index-kind sequence '
             '(Ellipsis, None, slice, integer; length <= 4, at most one Ellipsis) valid for ndim 1..3, folded on model nodes', floor=420)
    from ..engine import tables
    fdef = tables.find_function(ctx.parse(MVPY), 'unellipsify')
    if [a.arg for a in fdef.args.args] != ['indices', 'ndim']:
        raise AnalysisError('unellipsify no longer takes (indices, ndim)')
    f = _folder(ctx)
    clo = Closure(f, fdef, Env({}, None, MVPY))
    seen = set()

    def report(cat, msg):
        if cat not in seen:
            seen.add(cat)
            r.violate('MemoryView.unellipsify:%s' % cat, MVPY, fdef.lineno, msg)

    n = expansion_table(f, clo, report)
    for i in range(n):
        r.inst(i, nontrivial=i < 64)
    r.samples.append('%d (index-kind sequence, ndim) pairs, e.g. %s' % (n, show('IEN')))
    # positive control: a single-pass variant that has only seen the None entries in front of the Ellipsis when it sizes the expansion
    hits = []
    pf = _folder(ctx)
    env = Env({'ExprNodes': MNode('module ExprNodes', EllipsisNode=ELL),
               'empty_slice': lambda pos: _slice_node(pos, _none_node(pos), _none_node(pos), _none_node(pos))}, None, MVPY)
    expansion_table(pf, Closure(pf, ast.parse(_PC_SOURCE).body[0], env), lambda cat, msg: hits.append(cat))
    r.positive_control('newaxis-after-ellipsis' in hits and 'newaxis-before-ellipsis' not in hits and 'ellipsis' not in hits,
                       'None entries counted only up to the Ellipsis: m[..., None] gets its new axis in the wrong place')
    return r


# ==============================================================================================================
# Fourth round (mutation brainstorming)
# ==============================================================================================================
import re

from . import pC15 as P
from . import pC16 as Q
from .sC15 import AmountScan
from ..engine.cutil import strip_c_comments

MVC = 'Cython/Utility/MemoryView_C.c'
MVP = 'Cython/Utility/MemoryView.pyx'
CNAME = '__pyx_memoryview_slice_memviewslice'


def _expand_template(text, wraparound, boundscheck, others=()):
    """one expansion of a MemoryView_C.c index template with upper-case stand-ins for the substituted values"""
    reads = Q.template_reads(text)
    substs = sorted({v for v, g, k, e in reads if k == 'subst'})
    env = {v: v.upper() for v in substs}
    env['error_goto'] = 'return -1;'
    for v in substs:
        if re.search(r'\{\{\s*%s\s*\(\s*\)' % re.escape(v), text):
            env[v] = (lambda name: (lambda: name.upper()))(v)
    env.update(dict(others))
    env['wraparound'], env['boundscheck'] = wraparound, boundscheck
    return P.tempita_expand(text, env).strip(), env


# ---------------------------------------------------------------------------------------------- C16-AMOUNT
def rule_amount(ctx, M):
    """M: the Model of sa/props/C16.py"""
    r = Rule('C16-AMOUNT', 'integer indexing of a memoryview axis: what is added to a negative index is exactly the extent of that axis (SliceIndex template: the value read '
             'from <src>.shape[<dim>]; integer branch of the slice helper: its `shape` parameter) - linear forms over IDX and LEN', floor=2)
    # (i) the !is_slice branch of the helper
    sc = AmountScan(CNAME, M.cparams, M.body, is_len=lambda e: e == ('id', 'shape'), index='start', flags={'is_slice': 0}).run()
    r.inst('helper:!is_slice', sample='%s: %s' % (CNAME, [w for _, w in sc.adds]))
    for k, msg in sorted(sc.problems.items()):
        r.violate('helper:%s' % k, M.func.file, M.func.line, 'integer index branch of ' + msg)
    if not sc.adds:
        r.violate('helper:no-wraparound', M.func.file, M.func.line, 'the integer-index branch of %s never adds the extent to a negative index' % CNAME)
    # (ii) the SliceIndex template
    sec, text = M.section('SliceIndex')
    conds = sorted({v for v, g, k, e in Q.template_reads(text) if k == 'cond'} - {'wraparound', 'boundscheck'})
    adds, probs = [], {}
    for bits in itertools.product((False, True), repeat=len(conds)):
        body, env = _expand_template(text, 1, 1, zip(conds, bits))
        src, dim, idx = env.get('src'), env.get('dim'), env.get('idx')
        if not all(isinstance(x, str) for x in (src, dim, idx)):
            raise AnalysisError('C16-AMOUNT: SliceIndex no longer substitutes {{src}} / {{dim}} / {{idx}}')

        def is_len(e, src=src, dim=dim):
            return e[0] == 'idx' and e[1][0] == 'mem' and e[1][2] == ('id', src) and e[1][3] == 'shape' and P.strip_wrappers(e[2]) == ('id', dim)
        sc = AmountScan('SliceIndex', [('Py_ssize_t', idx)], P.parse_c_function_body(body), is_len=is_len).run()
        adds += sc.adds
        for k, v in sc.problems.items():
            probs.setdefault(k, v)
    r.inst('SliceIndex:expansions', sample='SliceIndex: %s' % sorted({w for _, w in adds}))
    for k, msg in sorted(probs.items()):
        r.violate('SliceIndex:%s' % k, MVC, sec.line, 'template ' + msg)
    if not adds:
        r.violate('SliceIndex:no-wraparound', MVC, sec.line, 'with wraparound on the SliceIndex template never adds the extent of the axis to a negative index')
    pc = AmountScan('pc', [('Py_ssize_t', 'IDX')], P.parse_c_function_body('{ Py_ssize_t t = IDX; Py_ssize_t s = SRC.strides[DIM]; if (t < 0) t += s; DST.data += t * s; }'),
                    is_len=lambda e: P.c_text(e) == 'SRC.shape[DIM]').run()
    r.positive_control(bool(pc.problems), 'the stride added instead of the extent')
    return r


# ---------------------------------------------------------------------------------------------- C16-STEP
def _as_bool(v):
    from .slicenorm import Lin
    if isinstance(v, bool):
        return v
    if isinstance(v, Lin) and v.const:
        return v.c != 0
    return None


def rule_step(ctx):
    from . import slicenorm as SN
    from . import pC17
    from ..engine.cguard import function_at
    r = Rule('C16-STEP', 'slice helper: an absent step means step 1 walking upwards (negative_step false); a given step sets negative_step exactly when it is negative '
             '(the `if (have_step)` block evaluated on the sign classes of the step)', floor=3)
    text = strip_c_comments(ctx.read(MVC))
    m = re.search(r'\bif\s*\(\s*have_step\s*\)', text)
    if m is None:
        raise AnalysisError('C16-STEP: `if (have_step)` not found in %s' % MVC)
    f = function_at(text, m.start())
    if f is None or CNAME not in f[0]:
        raise AnalysisError('C16-STEP: `if (have_step)` is not inside %s' % CNAME)
    line = text.count('\n', 0, m.start()) + 1
    stmts = pC17.parse_body(text[f[1]:f[2] + 1])
    target = []

    def find(lst):
        for st in lst:
            if st.kind == 'if' and re.sub(r'\s', '', st.text) == 'have_step':
                target.append(st)
            for sub in (st.body, st.orelse):
                if sub is not None:
                    find(sub if isinstance(sub, list) else [sub])
    find(stmts)
    if len(target) != 1:
        raise AnalysisError('C16-STEP: expected one `if (have_step)` statement, found %d' % len(target))
    K = SN.Lin(0, {'k': 1})
    cases = [('absent', False, SN.Lin(0), {'k': (SN.Lin(1), SN.INF)}, SN.Lin(1), False),
             ('positive', True, K, {'k': (SN.Lin(1), SN.INF)}, K, False),
             ('negative', True, -K, {'k': (SN.Lin(1), SN.INF)}, -K, True)]
    for label, have, step, box, want_step, want_neg in cases:
        key = 'have_step:%s' % label
        r.inst(key, sample='step %s -> step %r, negative_step %s' % (label, want_step, want_neg))
        box = dict(box)
        box['L'] = (0, SN.INF)
        s = SN.Sym(SN.Region(box), {'have_step': have, 'step': step})
        try:
            s.run(target)
        except SN.Unproven as x:
            raise AnalysisError('C16-STEP: the have_step block cannot be evaluated for a %s step: %s' % (label, x))
        got_step, got_neg = s.env.get('step'), _as_bool(s.env.get('negative_step'))
        if not (isinstance(got_step, SN.Lin) and got_step == want_step):
            r.violate(key + ':step', MVC, line, 'for %s the slice helper walks with step %r instead of %r%s' % (
                'an absent step' if not have else 'a %s step' % label, got_step, want_step, ' (the caller passes the dummy value 0: division by zero)' if not have else ''))
        if got_neg is not want_neg:
            r.violate(key + ':negative_step', MVC, line, 'for %s negative_step is %r instead of %r: the bounds are clamped for the wrong direction' % (
                'an absent step' if not have else 'a %s step' % label, got_neg, want_neg))
    pc = pC17.parse_body('{ if (have_step) { negative_step = step < 0; } else { negative_step = 1; step = 1; } }')
    s = SN.Sym(SN.Region({'L': (0, SN.INF)}), {'have_step': False, 'step': SN.Lin(0)})
    s.run(pc)
    r.positive_control(_as_bool(s.env.get('negative_step')) is True, 'an absent step that sets negative_step')
    return r


# ---------------------------------------------------------------------------------------------- C16-STORE
def _mono(e, defs=None, depth=0):
    """sorted identifiers of a pure product (single-assignment locals in `defs` expanded), or None"""
    e = P.strip_wrappers(e)
    if e[0] == 'id':
        if defs and e[1] in defs and depth < 4:
            inner = _mono(defs[e[1]], defs, depth + 1)
            if inner is not None:
                return inner
        return (e[1],)
    if e[0] == 'bin' and e[1] == '*':
        a, b = _mono(e[2], defs, depth), _mono(e[3], defs, depth)
        if a is not None and b is not None:
            return tuple(sorted(a + b))
    return None


def _single_defs(body, params):
    """locals that are assigned exactly once (declaration initialiser or assignment): name -> expression"""
    count, val = {}, {}
    for s in P.c_walk_stmts(body):
        if s[0] == 'decl':
            for name, init, typ in s[1]:
                count[name] = count.get(name, 0) + (1 if init is not None else 0)
                if init is not None:
                    val[name] = init
        elif s[0] == 'expr' and s[1][0] == 'assign' and s[1][2][0] == 'id':
            n = s[1][2][1]
            count[n] = count.get(n, 0) + 1
            val[n] = s[1][3]
    return {n: v for n, v in val.items() if count.get(n) == 1 and n not in params}


def _field_store(l):
    """(object, field, index expr) for obj->field[idx] / obj.field[idx]; (object, field, None) for obj->field"""
    l = P.strip_wrappers(l)
    if l[0] == 'idx' and l[1][0] == 'mem' and l[1][2][0] == 'id':
        return l[1][2][1], l[1][3], l[2]
    if l[0] == 'mem' and l[2][0] == 'id':
        return l[2][1], l[3], None
    return None


def _norm_assign(a):
    """`x = x + e` / `x = e + x` is `x += e`"""
    if a[0] == 'assign' and a[1] == '=':
        r_ = P.strip_wrappers(a[3])
        if r_[0] == 'bin' and r_[1] == '+':
            lt = P.c_text(P.strip_wrappers(a[2]))
            if P.c_text(P.strip_wrappers(r_[2])) == lt:
                return ('assign', '+=', a[2], r_[3])
            if P.c_text(P.strip_wrappers(r_[3])) == lt:
                return ('assign', '+=', a[2], r_[2])
    return a


def _assigns(stmt):
    for s in P.c_walk_stmts(stmt):
        if s[0] == 'expr' and s[1][0] == 'assign':
            yield _norm_assign(s[1])


def rule_store(ctx, M):
    r = Rule('C16-STORE', 'what a sliced axis becomes: stride * step, the computed extent and the source suboffset are stored at destination axis new_ndim, the data pointer moves by '
             'start * stride; the SimpleSlice template copies field F of source axis <dim> to field F of destination axis <new_ndim>; every caller reads shape / strides / '
             'suboffsets of the source at the axis it passes as `dim`', floor=17)
    f = M.func
    dst = M.cnames[0]
    params = set(M.cnames)
    for need in ('stride', 'step', 'start', 'suboffset', 'new_ndim', 'dim'):
        if need not in params:
            raise AnalysisError('C16-STORE: %s lost its parameter %s' % (CNAME, need))
    divided = set()
    for a in _assigns(M.body):
        if a[2][0] == 'id' and any(isinstance(x, tuple) and x[0] == 'bin' and x[1] == '/' for x in _walk_expr(a[3])):
            divided.add(a[2][1])
    for s in P.c_walk_stmts(M.body):
        if s[0] == 'decl':
            for name, init, typ in s[1]:
                if init is not None and any(isinstance(x, tuple) and x[0] == 'bin' and x[1] == '/' for x in _walk_expr(init)):
                    divided.add(name)
    defs = _single_defs(M.body, params)
    want_rhs = {'strides': ('product', ('step', 'stride'), 'stride * step'), 'shape': ('extent', None, 'the computed extent'), 'suboffsets': ('mono', ('suboffset',), 'suboffset')}
    seen_fields, offsets = set(), 0
    for a in _assigns(M.body):
        fs = _field_store(a[2])
        if fs is None or fs[0] != dst:
            continue
        obj, field, idx = fs
        if a[1] == '=' and field in want_rhs and idx is not None:
            key = 'helper:dst.%s' % field
            seen_fields.add(field)
            r.inst(key, sample='%s' % P.c_text(a))
            if P.strip_wrappers(idx) != ('id', 'new_ndim'):
                r.violate(key + ':axis', f.file, f.line, '%s stores the new %s at axis [%s] instead of [new_ndim]: once an integer index has dropped a dimension the value lands on the wrong axis'
                          % (CNAME, field, P.c_text(idx)))
            kind, mono, text = want_rhs[field]
            got = _mono(a[3], defs) if kind != 'extent' else _mono(a[3])
            ok = (got == mono) if kind != 'extent' else (got is not None and len(got) == 1 and got[0] in divided and got[0] not in params)
            if not ok:
                r.violate(key + ':value', f.file, f.line, '%s stores `%s` as the %s of the sliced axis; slicing with a step needs %s' % (CNAME, P.c_text(a[3]), field, text))
        elif a[1] == '+=' and (field == 'data' or field == 'suboffsets'):
            offsets += 1
            key = 'helper:offset:%s' % field
            r.inst(key, sample=P.c_text(a))
            if _mono(a[3], defs) != ('start', 'stride'):
                r.violate(key, f.file, f.line, '%s advances %s by `%s`; the first selected element lies start * stride bytes into the axis' % (CNAME, P.c_text(a[2]), P.c_text(a[3])))
    if seen_fields != set(want_rhs) or offsets < 2:
        raise AnalysisError('C16-STORE: the stores of %s into %s were not all found (%s, %d offsets)' % (CNAME, dst, sorted(seen_fields), offsets))
    # SimpleSlice
    sec, text = M.section('SimpleSlice')
    n_copy = 0
    for access in ('direct', 'full'):
        body, env = _expand_template(text, 1, 1, [('access', access)])
        tree = P.parse_c_function_body('{' + body + '}')
        D, S_, DIM, ND = env.get('dst'), env.get('src'), env.get('dim'), env.get('new_ndim')
        for a in _assigns(tree):
            l = _field_store(a[2])
            if l is None or l[0] != D or l[2] is None:
                continue
            key = 'SimpleSlice:dst.%s' % l[1]
            n_copy += 1
            r.inst(key, sample=P.c_text(a))
            if P.strip_wrappers(l[2]) != ('id', ND):
                r.violate(key + ':axis', MVC, sec.line, 'SimpleSlice writes %s of destination axis [%s] instead of [{{new_ndim}}]' % (l[1], P.c_text(l[2])))
            rr = _field_store(a[3])
            if rr is not None and rr[0] == S_:
                if rr[1] != l[1]:
                    r.violate(key + ':field', MVC, sec.line, 'SimpleSlice copies the source %s into the destination %s' % (rr[1], l[1]))
                if rr[2] is None or P.strip_wrappers(rr[2]) != ('id', DIM):
                    r.violate(key + ':source-axis', MVC, sec.line, 'SimpleSlice reads %s of source axis [%s] instead of [{{dim}}]: wrong once an earlier integer index dropped a dimension'
                              % (rr[1], P.c_text(rr[2]) if rr[2] is not None else ''))
            elif not (l[1] == 'suboffsets' and P.c_text(P.strip_wrappers(a[3])) == '-1'):
                r.violate(key + ':value', MVC, sec.line, 'SimpleSlice stores `%s` into the destination %s instead of copying the source axis' % (P.c_text(a[3]), l[1]))
    if n_copy < 5:
        raise AnalysisError('C16-STORE: only %d field copies found in SimpleSlice' % n_copy)
    # ToughSlice and the pyx call sites: the axis read == the axis passed as `dim`
    k_dim = M.cnames.index('dim')

    def axis_args(args, where, rel, line, render=lambda s: s):
        if len(args) != len(M.cnames):
            return
        dim_arg = re.sub(r'\s', '', args[k_dim])
        for a, p in zip(args, M.cnames):
            m = re.fullmatch(r'(.+?)(?:\.|->)(\w+)\[(.+)\]', re.sub(r'\s', '', a))
            if not m:
                continue
            key = '%s:%s[axis]' % (where, p)
            r.inst(key, sample='%s <- %s' % (p, a.strip()))
            if m.group(3) != dim_arg:
                r.violate(key, rel, line, '%s passes %s as `%s` but %s as `dim`: the extent/stride of another axis is used' % (where, a.strip(), p, args[k_dim].strip()))
    tsec, ttext = M.section('ToughSlice')
    calls = [c for c in P.c_calls_in_text(ttext) if c[0] == CNAME]
    if len(calls) != 1:
        raise AnalysisError('C16-STORE: ToughSlice does not contain exactly one call of %s' % CNAME)
    axis_args(calls[0][1], 'ToughSlice', MVC, tsec.line)
    ptext = ctx.read(MVP)
    d = Q.pyx_extern_decl(ptext, CNAME)
    if d is None:
        raise AnalysisError('C16-STORE: no extern declaration of %s' % CNAME)
    pcalls = [c for c in Q.pyx_calls(ptext, d['pyname']) if c[1] != d['line']]
    if len(pcalls) < 2:
        raise AnalysisError('C16-STORE: only %d pyx call sites' % len(pcalls))
    k_slice = M.cnames.index('is_slice') if 'is_slice' in M.cnames else None
    for args, line, indent, off in pcalls:
        kind = 'call'
        if k_slice is not None and len(args) == len(M.cnames):
            kind = 'slice-call' if args[k_slice].strip() in ('True', '1') else 'index-call'
        axis_args(args, 'memview_slice:%s' % kind, MVP, line)
    pc = P.parse_c_function_body('{ dst->strides[new_ndim] = stride; }')
    r.positive_control(_mono(next(_assigns(pc))[3]) != ('step', 'stride'), 'a stride store without the step')
    return r


def _walk_expr(e):
    if not isinstance(e, tuple):
        return
    yield e
    for x in e[1:]:
        if isinstance(x, tuple):
            yield from _walk_expr(x)
        elif isinstance(x, list):
            for y in x:
                yield from _walk_expr(y)


# ---------------------------------------------------------------------------------------------- C16-GEN
MVPY_ = MVPY
SLICE_KINDS = {'F': (0, 0, 0), 'A': (1, 0, 0), 'O': (0, 1, 0), 'P': (0, 0, 1), 'B': (1, 1, 0), 'C': (1, 0, 1), 'D': (0, 1, 1), 'X': (1, 1, 1)}
BOUND_NAMES = ('start', 'stop', 'step')


def _gen_index(kind):
    if kind == 'N':
        return MNode('None index', is_none=True, is_slice=False, pos=POS)
    if kind == 'I':
        m = MNode('integer index', is_none=False, is_slice=False, pos=POS)
        m.attrs['result'] = lambda: 'IDX'
        return m
    pres = SLICE_KINDS[kind]
    bounds = {}
    for b, p in zip(BOUND_NAMES, pres):
        bm = MNode('%s bound' % b, is_none=not p, pos=POS)
        bm.attrs['result'] = (lambda name: (lambda: name.upper()))(b)
        bounds[b] = bm
    return MNode('slice index', is_none=False, is_slice=True, pos=POS, **bounds)


def _gen_show(seq):
    def one(k):
        if k in SLICE_KINDS:
            p = SLICE_KINDS[k]
            return '%s:%s%s' % ('a' if p[0] else '', 'b' if p[1] else '', ':c' if p[2] else '')
        return {'N': 'None', 'I': 'i'}[k]
    return 'm[%s]' % ', '.join(one(k) for k in seq)


def gen_domain():
    kinds = 'NI' + ''.join(SLICE_KINDS)
    for n in (1, 2):
        for seq in itertools.product(kinds, repeat=n):
            yield seq
    for seq in itertools.product('NIFX', repeat=3):
        yield seq


def gen_table(folder, clo, selfm, report):
    """fold generate_buffer_slice_code on every index-kind sequence and compare the emitted events with the reference bookkeeping"""
    n = 0
    for seq in gen_domain():
        n += 1
        events = []          # ('load', name, context) / ('line', text)
        tu = MNode('TempitaUtilityCode', load_as_string=lambda name, file, context=None: (events.append(('load', name, dict(context or {}))), (None, '<<%s>>' % name))[1])
        tu.attrs['load'] = tu.attrs['load_cached'] = tu.attrs['load_as_string']
        folder._globals[(MVPY_, 'TempitaUtilityCode')] = tu
        code = MNode('code', putln=lambda *a, **k: events.append(('line', str(a[0]) if a else '')), put=lambda *a, **k: events.append(('line', str(a[0]) if a else '')),
                     error_goto=lambda pos: 'GOTO;', put_incref_memoryviewslice=lambda *a, **k: None,
                     globalstate=MNode('globalstate', use_utility_code=lambda u: None),
                     funcstate=MNode('funcstate', allocate_temp=lambda *a, **k: 'TMP', release_temp=lambda *a: None))
        folder.steps = 0
        what = 'generate_buffer_slice_code for %s' % _gen_show(seq)
        try:
            clo(selfm, code, [_gen_index(k) for k in seq], 'DST', None, True, True, {'boundscheck': True, 'wraparound': True}, False)
        except Unfoldable as x:
            raise AnalysisError('C16-GEN cannot fold %s: %s' % (what, x))
        except AnalysisError:
            raise
        except Exception as x:
            report('crash', '%s raises %s: %s' % (what, type(x).__name__, x))
            continue
        # what was emitted, in order
        got = []
        pending_axis = {}
        for ev in events:
            if ev[0] == 'load':
                got.append(ev)
            else:
                for m in re.finditer(r'DST\.(shape|strides|suboffsets)\[(\d+)\]\s*=\s*(-?\d+)\s*;', ev[1]):
                    got.append(('newaxis', m.group(1), int(m.group(2)), int(m.group(3))))
        dim, nd, pos = 0, 0, 0
        ok = True
        for j, k in enumerate(seq):
            where = '%s, index %d' % (what, j)
            if k == 'N':
                fields = {}
                while pos < len(got) and got[pos][0] == 'newaxis' and got[pos][1] not in fields:
                    fields[got[pos][1]] = got[pos][2:]
                    pos += 1
                if not fields and pos < len(got) and got[pos][0] == 'load' and got[pos][1] not in ('SliceIndex', 'SimpleSlice', 'ToughSlice'):
                    raise AnalysisError('C16-GEN: a new axis is emitted through the template %s, which is outside the model' % got[pos][1])
                if set(fields) != {'shape', 'strides', 'suboffsets'}:
                    report('newaxis:missing', '%s: a None index must store shape, strides and suboffsets of a new axis (found %s)' % (where, sorted(fields)))
                    ok = False
                    break
                if any(ax != nd for ax, _ in fields.values()):
                    report('newaxis:axis', '%s: the new axis is written at destination axis %s instead of %d' % (where, sorted({ax for ax, _ in fields.values()}), nd))
                if fields['shape'][1] != 1:
                    report('newaxis:shape', '%s: the new axis gets extent %d instead of 1' % (where, fields['shape'][1]))
                if fields['suboffsets'][1] >= 0:
                    report('newaxis:suboffset', '%s: the new axis gets suboffset %d (an indirect dimension) instead of -1' % (where, fields['suboffsets'][1]))
                nd += 1
                continue
            if pos >= len(got) or got[pos][0] != 'load':
                report('missing-template', '%s: no template is instantiated for this index' % where)
                ok = False
                break
            _, name, cx = got[pos]
            pos += 1
            if cx.get('dim') != dim:
                report('source-axis', '%s: the template %s is instantiated for source axis %r instead of %d (None indices do not consume a source dimension, every other index consumes one)'
                       % (where, name, cx.get('dim'), dim))
            if cx.get('new_ndim') != nd:
                report('destination-axis', '%s: the template %s writes destination axis %r instead of %d (a slice or None adds a result axis, an integer index does not)'
                       % (where, name, cx.get('new_ndim'), nd))
            if k == 'I':
                if name != 'SliceIndex':
                    report('template:index', '%s: an integer index is compiled with the %s template' % (where, name))
                elif cx.get('idx') != 'IDX':
                    report('index:value', '%s: SliceIndex receives idx=%r instead of the result of the index expression' % (where, cx.get('idx')))
                dim += 1
                continue
            pres = SLICE_KINDS[k]
            want = 'SimpleSlice' if not any(pres) else 'ToughSlice'
            if name != want:
                report('template:slice', '%s: the slice is compiled with the %s template instead of %s%s' % (
                    where, name, want, ' (its bounds are ignored: the whole axis is taken)' if name == 'SimpleSlice' else ''))
            elif want == 'ToughSlice':
                for b, p in zip(BOUND_NAMES, pres):
                    if bool(cx.get('have_' + b)) != bool(p):
                        report('have_%s' % b, '%s: have_%s is %r although the %s bound is %s' % (where, b, cx.get('have_' + b), b, 'given' if p else 'absent'))
                    elif p and cx.get(b) != b.upper():
                        report('value_%s' % b, '%s: %s is %r instead of the result of the %s expression' % (where, b, cx.get(b), b))
            dim += 1
            nd += 1
        if ok and pos != len(got):
            report('extra-code', '%s emits more templates / new-axis stores than it has indices' % what)
    return n


def rule_gen(ctx):
    r = Rule('C16-GEN', 'Compiler/MemoryView.generate_buffer_slice_code folded on every sequence of index kinds (None, integer, slices with every combination of present bounds; '
             'length <= 2, and length 3 over four representative kinds): the k-th non-None index reads source axis k, the destination axis counts the preceding None / slice '
             'indices, a new axis has extent 1 and suboffset -1, a slice is a full slice exactly when no bound is given, have_<bound> is true exactly for the given bounds', floor=150)
    tree = ctx.parse(MVPY_)
    cls = next((n for n in tree.body if isinstance(n, ast.ClassDef) and n.name == 'MemoryViewSliceBufferEntry'), None)
    fdef = next((n for n in (cls.body if cls else []) if isinstance(n, ast.FunctionDef) and n.name == 'generate_buffer_slice_code'), None)
    if fdef is None:
        raise AnalysisError('C16-GEN: MemoryViewSliceBufferEntry.generate_buffer_slice_code vanished')
    params = [a.arg for a in fdef.args.args]
    if params != ['self', 'code', 'indices', 'dst', 'dst_type', 'have_gil', 'have_slices', 'directives', 'drop_temp_refcounting']:
        raise AnalysisError('C16-GEN: generate_buffer_slice_code now takes %s' % params)
    f = NodeFolder(ctx)
    f._globals[(MVPY_, 'slice_memviewslice_utility')] = MNode('slice utility')
    selfm = MNode('buffer entry', cls, cname='SRC', type=MNode('memoryview type', axes=[('direct', 'strided')] * 4), __rel__=MVPY_)
    env = Env({'getattr': lambda o, n, *d: f.attribute(o, n)}, None, MVPY_)
    seen = set()

    def report(cat, msg):
        if cat not in seen:
            seen.add(cat)
            r.violate('MemoryView.generate_buffer_slice_code:%s' % cat, MVPY_, fdef.lineno, msg)
    n = gen_table(f, Closure(f, fdef, env), selfm, report)
    for i in range(n):
        r.inst(i, nontrivial=i < 64)
    r.samples.append('%d index-kind sequences, e.g. %s' % (n, _gen_show('NXI')))
    # positive control: None consumes a source dimension
    pc_src = '''
def generate_buffer_slice_code(self, code, indices, dst, dst_type, have_gil, have_slices, directives, drop_temp_refcounting):
    dim = -1
    new_ndim = 0
    for index in indices:
        dim += 1
        if index.is_none:
            for attrib, value in [('shape', 1), ('strides', 0), ('suboffsets', -1)]:
                code.putln(f"{dst}.{attrib}[{new_ndim:d}] = {value:d};")
            new_ndim += 1
            continue
        d = dict(dim=dim, new_ndim=new_ndim)
        if index.is_slice:
            for s in ("start", "stop", "step"):
                idx = getattr(index, s)
                d['have_' + s] = not idx.is_none
                d[s] = "0" if idx.is_none else idx.result()
            util_name = "ToughSlice" if (d['have_start'] or d['have_stop'] or d['have_step']) else "SimpleSlice"
            new_ndim += 1
        else:
            util_name = "SliceIndex"
            d.update(idx=index.result())
        _, impl = TempitaUtilityCode.load_as_string(util_name, "MemoryView_C.c", context=d)
        code.put(impl)
'''
    hits = []
    pf = NodeFolder(ctx)
    penv = Env({'getattr': lambda o, n, *d: pf.attribute(o, n)}, None, MVPY_)
    gen_table(pf, Closure(pf, ast.parse(pc_src).body[0], penv), selfm, lambda cat, msg: hits.append(cat))
    r.positive_control('source-axis' in hits and 'destination-axis' not in hits, 'a None index that advances the source dimension')
    return r


# ---------------------------------------------------------------------------------------------- pyx -> Python
def pyx_to_python(text, what):
    """A cdef function of a .pyx utility file as Python source the checker can parse: header -> def, `cdef` declarations -> assignments of
    their initialisers, C casts removed, bare annotations removed.  Anything else that does not parse is an analysis error."""
    lines = text.split('\n')
    out = []
    i = 0
    while i < len(lines) and (lines[i].lstrip().startswith('@') or not lines[i].strip()):
        i += 1
    header = lines[i]
    while header.count('(') > header.count(')') and i + 1 < len(lines):
        i += 1
        header += ' ' + lines[i].strip()
    m = re.match(r'^(\s*)(?:cdef|cpdef|def)\b.*?\b(\w+)\s*\((.*)\)[^:()]*:\s*$', header)
    if not m:
        raise AnalysisError('%s: cannot read the function header %r' % (what, header.strip()[:80]))
    params = []
    for p in [x.strip() for x in m.group(3).split(',') if x.strip()]:
        p = p.split('=')[0].strip()
        name = p.split(':')[0].strip() if ':' in p else p
        name = re.findall(r'[A-Za-z_]\w*', name)[-1]
        params.append(name)
    out.append('%sdef %s(%s):' % (m.group(1), m.group(2), ', '.join(params)))
    cast = re.compile(r'(^|[(,=\[:+\-*/ ]|\breturn\s)<\s*[A-Za-z_][\w \t\*\{\}\.]*?\s*>\s*(?=[A-Za-z_(&])')
    for ln in lines[i + 1:]:
        s = ln.strip()
        ind = ln[:len(ln) - len(ln.lstrip())]
        if s.startswith('#'):
            continue
        code_part = re.sub(r'\s+#.*$', '', ln) if '#' in ln and '"' not in ln and "'" not in ln else ln
        s = code_part.strip()
        if s.startswith('cdef '):
            decl = s[5:]
            for part in _split_top(decl):
                if '=' in part and not re.search(r'[=!<>]=', part):
                    l, rhs = part.split('=', 1)
                    names = re.findall(r'[A-Za-z_]\w*', l)
                    if not names:
                        raise AnalysisError('%s: cannot read the declaration %r' % (what, s))
                    out.append('%s%s = %s' % (ind, names[-1], _strip_casts(rhs.strip(), cast)))
            continue
        if re.fullmatch(r'[A-Za-z_]\w*\s*:\s*[\w\[\], ]+', s):
            continue
        m2 = re.match(r'^raise\s+(\w+)\s*,\s*(.+)$', s)
        if m2:
            out.append('%sraise %s(%s)' % (ind, m2.group(1), m2.group(2)))
            continue
        out.append(_strip_casts(code_part, cast))
    src = '\n'.join(out)
    import textwrap
    src = textwrap.dedent(src)
    try:
        tree = ast.parse(src)
    except SyntaxError as x:
        raise AnalysisError('%s: the function does not translate to Python (%s, line %r)' % (what, x.msg, (x.text or '').strip()[:60]))
    fn = tree.body[0]
    if not isinstance(fn, ast.FunctionDef):
        raise AnalysisError('%s: no function found' % what)
    if not fn.body:
        raise AnalysisError('%s: empty function' % what)
    return fn


def _split_top(s):
    out, depth, cur = [], 0, ''
    for ch in s:
        if ch in '([{':
            depth += 1
        elif ch in ')]}':
            depth -= 1
        if ch == ',' and depth == 0:
            out.append(cur)
            cur = ''
        else:
            cur += ch
    if cur.strip():
        out.append(cur)
    return out


def _strip_casts(s, cast):
    prev = None
    while prev != s:
        prev = s
        s = cast.sub(lambda m: m.group(1), s)
    return s


def pyx_function(ctx, name):
    text = ctx.read(MVP)
    m = re.search(r'^(?:@[^\n]*\n)*(?:cdef|cpdef|def)\b[^\n(]*\b%s\s*\(' % re.escape(name), text, re.M)
    if not m:
        raise AnalysisError('MemoryView.pyx: function %s vanished' % name)
    from ..engine.cutil import match_paren
    rp = match_paren(text, m.end() - 1)
    if rp < 0:
        raise AnalysisError('MemoryView.pyx: unbalanced header of %s' % name)
    eol = text.find('\n', rp)
    pos = eol + 1
    while pos < len(text):
        nl = text.find('\n', pos)
        nl = len(text) if nl < 0 else nl
        ln = text[pos:nl]
        if ln.strip() and not ln[0].isspace():
            break
        pos = nl + 1
    return text[m.start():pos], text.count('\n', 0, m.start()) + 1


class RaisingFolder(NodeFolder):
    """NodeFolder + `raise <builtin exception>(...)`: the exception is raised in the checker and seen by the caller of the fold"""

    def stmt(self, s, env):
        if isinstance(s, ast.Raise) and s.exc is not None:
            v = self.expr(s.exc, env)
            if isinstance(v, type) and issubclass(v, Exception):
                v = v()
            if isinstance(v, Exception):
                raise v
            raise Unfoldable('raise of %r' % (v,))
        return super().stmt(s, env)


# ---------------------------------------------------------------------------------------------- C16-PYXELL
def rule_pyx_ellipsis(ctx):
    r = Rule('C16-PYXELL', 'MemoryView.pyx: _unellipsify / _unellipsify_index_tuple (the index normalisation of memoryview objects) folded on every index of kinds '
             '(Ellipsis, slice, integer) up to length 4 with at most one Ellipsis, ndim 1..3: the Ellipsis becomes the missing full slices in its place, missing '
             'trailing dimensions are appended, written indices keep value and order, have_slices is set unless the result is purely integer', floor=90)
    t1, line1 = pyx_function(ctx, '_unellipsify_index_tuple')
    t2, line2 = pyx_function(ctx, '_unellipsify')
    f1 = pyx_to_python(t1, 'C16-PYXELL _unellipsify_index_tuple')
    f2 = pyx_to_python(t2, 'C16-PYXELL _unellipsify')
    seen = set()

    def report(cat, msg, line=line1):
        if cat not in seen:
            seen.add(cat)
            r.violate('MemoryView.pyx:_unellipsify:%s' % cat, MVP, line, msg)
    n = pyx_ellipsis_table(ctx, f1, f2, report)
    for i in range(n):
        r.inst(i, nontrivial=i < 64)
    r.samples.append('%d (index, ndim) pairs' % n)
    pc1 = ast.parse('''
def _unellipsify_index_tuple(index_tuple, ndim):
    have_slices = False
    first = -1
    idx = 0
    for item in index_tuple:
        if item is Ellipsis:
            have_slices = True
            if first == -1:
                first = idx
        elif isinstance(item, slice):
            have_slices = True
        idx += 1
    if first >= 0:
        result = [slice(None)] * ndim
        for idx in range(first):
            result[idx] = index_tuple[idx]
        tail = len(index_tuple) - first
        end = ndim - tail + 1
        for idx in range(1, tail):
            result[end + idx - 1 + 1 - 1] = index_tuple[first + idx]
        index_tuple = tuple(result)
    elif ndim > idx:
        have_slices = True
        index_tuple += (slice(None),) * (ndim - idx - 1)
    return have_slices, index_tuple
''').body[0]
    hits = []
    pyx_ellipsis_table(ctx, pc1, f2, lambda cat, msg, line=0: hits.append(cat))
    r.positive_control('missing-dimensions' in hits, 'padding one full slice too few is reported')
    return r


def pyx_ellipsis_table(ctx, f_tuple, f_any, report):
    folder = RaisingFolder(ctx)

    class InvalidIndex(Exception):
        pass

    def bad_index(item):
        raise InvalidIndex(repr(item))
    env = Env({'Ellipsis': Ellipsis, 'slice': slice, 'isinstance': isinstance, 'PyIndex_Check': lambda x: isinstance(x, int) and not isinstance(x, bool),
               '_err_invalid_index': bad_index, 'cython': MNode('cython', unlikely=lambda x: x, likely=lambda x: x), 'tuple': tuple, 'len': len, 'range': range, 'list': list}, None, MVPY)
    clo_tuple = Closure(folder, f_tuple, env)
    env.vars['_unellipsify_index_tuple'] = clo_tuple
    clo_any = Closure(folder, f_any, env)
    n = 0
    for ln in range(0, MAX_LEN + 1):
        for seq in itertools.product('ESI', repeat=ln):
            if seq.count('E') > 1:
                continue
            consuming = sum(1 for k in seq if k in 'SI')
            for ndim in range(1, MAX_NDIM + 1):
                if consuming > ndim:
                    continue
                items = []
                for j, k in enumerate(seq):
                    items.append(Ellipsis if k == 'E' else slice(10 + j, 20 + j) if k == 'S' else 100 + j)
                variants = [('tuple', tuple(items))]
                if ln == 1:
                    variants.append(('single', items[0]))
                for how, index in variants:
                    n += 1
                    folder.steps = 0
                    what = '_unellipsify(%s, ndim=%d)' % (show_pyx(seq, how == 'tuple'), ndim)
                    try:
                        res = clo_any(index, ndim)
                    except Unfoldable as x:
                        raise AnalysisError('C16-PYXELL cannot fold %s: %s' % (what, x))
                    except AnalysisError:
                        raise
                    except Exception as x:
                        report('crash', '%s raises %s: %s' % (what, type(x).__name__, x))
                        continue
                    if not (isinstance(res, tuple) and len(res) == 2 and isinstance(res[1], tuple)):
                        raise AnalysisError('C16-PYXELL: %s returns %r instead of (have_slices, tuple)' % (what, res))
                    have, got = res
                    fill = [slice(None)] * (ndim - consuming)
                    if 'E' in seq:
                        k = seq.index('E')
                        want = items[:k] + fill + items[k + 1:]
                    else:
                        want = items + fill
                    if len(got) != ndim:
                        report('missing-dimensions' if len(got) < ndim else 'extra-dimensions',
                               '%s returns %d indices for a %d-dimensional view: %r (expected %r)' % (what, len(got), ndim, got, tuple(want)))
                        continue
                    if list(got) != want:
                        report('ellipsis' if 'E' in seq else 'padding', '%s returns %r, NumPy semantics is %r' % (what, got, tuple(want)))
                        continue
                    if any(isinstance(x, slice) for x in want) and not have:
                        report('have_slices', '%s: have_slices is false although the result %r contains a slice: the access is treated as element indexing' % (what, got))
                    if 'E' not in seq and not any(isinstance(x, slice) for x in want) and have:      # (with an Ellipsis NumPy returns a 0-dim view as well)
                        report('have_slices:spurious', '%s: have_slices is true although every index is an integer: an element access returns a 0-dim view' % what)
    return n


class MNodeShim:
    """stand-in for the `cython` module inside folded pyx code: unlikely()/likely() are the identity"""
    @staticmethod
    def unlikely(x):
        return x

    @staticmethod
    def likely(x):
        return x


def show_pyx(seq, as_tuple=True):
    body = ', '.join({'E': '...', 'S': 'a:b', 'I': 'i'}[k] for k in seq)
    return 'm[%s%s]' % (body, ',' if as_tuple and len(seq) == 1 else '') if seq else 'm[()]'


# ---------------------------------------------------------------------------------------------- C16-PYXSLICE
def _pyx_loop(ftext, needle, what):
    """the `for` statement of a pyx function whose body contains `needle`, as a Python ast.For"""
    lines = ftext.split('\n')
    best = None
    for i, ln in enumerate(lines):
        m = re.match(r'^(\s*)for\s.+:\s*(#.*)?$', ln)
        if not m:
            continue
        ind = len(m.group(1))
        j = i + 1
        while j < len(lines) and (not lines[j].strip() or len(lines[j]) - len(lines[j].lstrip()) > ind):
            j += 1
        block = lines[i:j]
        if any(needle in b for b in block) and (best is None or len(block) < len(best)):
            best = block
    if best is None:
        raise AnalysisError('%s: no loop calling %s found' % (what, needle))
    import textwrap
    src = textwrap.dedent('\n'.join(re.sub(r'\s+#[^"\']*$', '', b) for b in best))
    try:
        node = ast.parse(src).body[0]
    except SyntaxError as x:
        raise AnalysisError('%s: the loop does not parse as Python (%s: %r)' % (what, x.msg, (x.text or '').strip()[:60]))
    if not isinstance(node, ast.For):
        raise AnalysisError('%s: no for statement' % what)
    return node


BOUND_VALUES = (None, 0, 5, -3)


def _bound_reads_are_classified(loop):
    """None if the loop looks at <index>.start/.stop/.step only through `is None` tests, truthiness (or / and / not / bool()) or by passing the value on -
    then {None, 0, positive, negative} is a complete partition of what a bound can be for this code; otherwise the offending use"""
    parents = {}
    for n in ast.walk(loop):
        for c in ast.iter_child_nodes(n):
            parents[c] = n
    for n in ast.walk(loop):
        if not (isinstance(n, ast.Attribute) and n.attr in BOUND_NAMES):
            continue
        p = parents.get(n)
        if isinstance(p, ast.Compare) and all(isinstance(o, (ast.Is, ast.IsNot)) for o in p.ops):
            continue
        if isinstance(p, (ast.BoolOp, ast.Assign, ast.IfExp)) or (isinstance(p, ast.UnaryOp) and isinstance(p.op, ast.Not)):
            continue
        if isinstance(p, ast.Call) and n in p.args:
            continue
        return ast.unparse(p) if p is not None else ast.unparse(n)
    return None


def pyx_slice_table(ctx, loop, pyname, pnames, report):
    why = _bound_reads_are_classified(loop)
    if why:
        raise AnalysisError('C16-PYXSLICE: memview_slice computes with a slice bound (%s): the classes None / 0 / positive / negative no longer cover what the loop can distinguish' % why)
    folder = NodeFolder(ctx)
    n = 0

    def fld(p):
        return 'suboffsets' if ('suboffset' in p and 'dim' not in p) else 'strides' if 'stride' in p else 'shape' if 'shape' in p else None
    pos = {p: i for i, p in enumerate(pnames)}
    need = ['dim', 'new_ndim', 'start', 'stop', 'step', 'have_start', 'have_stop', 'have_step', 'is_slice']
    if any(p not in pos for p in need):
        raise AnalysisError('C16-PYXSLICE: the extern declaration lost one of %s' % need)

    def slc(a, b, c):
        return MNode('slice(%r, %r, %r)' % (a, b, c), start=a, stop=b, step=c, __vals__=(a, b, c))
    singles = [[7], [-2], [0]] + [[slc(a, b, c)] for a in BOUND_VALUES for b in BOUND_VALUES for c in BOUND_VALUES]
    reps = [7, ('s', 5, None, None), ('s', None, 0, -3)]
    multi = [list(t) for t in itertools.product(reps, repeat=2)] + [list(t) for t in itertools.product(reps[:2], repeat=3)]
    for seq in singles + [[slc(*x[1:]) if isinstance(x, tuple) else x for x in t] for t in multi]:
        n += 1
        calls = []
        p_src = MNode('p_src', shape=[('shape', k) for k in range(4)], strides=[('strides', k) for k in range(4)], suboffsets=[('suboffsets', k) for k in range(4)])
        p_dst = MNode('p_dst', shape=[None] * 4, strides=[None] * 4, suboffsets=[None] * 4)
        env = Env({'indices': tuple(seq), 'p_src': p_src, 'p_dst': p_dst, 'p_suboffset_dim': 'PSUB', 'new_ndim': 0, 'enumerate': enumerate,
                   'PyIndex_Check': lambda x: isinstance(x, int) and not isinstance(x, bool), pyname: lambda *a: calls.append(a)}, None, MVPY)
        folder.steps = 0
        what = 'memview_slice for m[%s]' % ', '.join(('%r' % x) if isinstance(x, int) else ('%s:%s:%s' % tuple('' if v is None else v for v in x.attrs['__vals__'])) for x in seq)
        try:
            folder.stmt(loop, env)
        except Unfoldable as x:
            raise AnalysisError('C16-PYXSLICE cannot fold %s: %s' % (what, x))
        except AnalysisError:
            raise
        except Exception as x:
            report('crash', '%s raises %s: %s' % (what, type(x).__name__, x))
            continue
        if len(calls) != len(seq):
            report('calls', '%s calls the slice helper %d times for %d indices' % (what, len(calls), len(seq)))
            continue
        nd = 0
        for j, (x, a) in enumerate(zip(seq, calls)):
            if len(a) != len(pnames):
                report('arity', '%s passes %d arguments' % (what, len(a)))
                break
            where = '%s, index %d' % (what, j)
            if a[pos['dim']] != j:
                report('dim', '%s: dim is %r instead of %d' % (where, a[pos['dim']], j))
            for p in pnames:
                if fld(p) and a[pos[p]] != (fld(p), j):
                    report('axis:%s' % p, '%s: `%s` is read from %r instead of %s[%d] of the source' % (where, p, a[pos[p]], fld(p), j))
            if a[pos['new_ndim']] != nd:
                report('new_ndim', '%s: the result is written to destination axis %r instead of %d (each preceding slice adds one result axis)' % (where, a[pos['new_ndim']], nd))
            if isinstance(x, int):
                if a[pos['is_slice']]:
                    report('is_slice:index', '%s: an integer index is passed with is_slice true' % where)
                if a[pos['start']] != x:
                    report('index-value', '%s: the integer index %d is passed as %r' % (where, x, a[pos['start']]))
                continue
            if not a[pos['is_slice']]:
                report('is_slice:slice', '%s: a slice is passed with is_slice false' % where)
            for b, v in zip(BOUND_NAMES, x.attrs['__vals__']):
                have = bool(a[pos['have_' + b]])
                if have != (v is not None):
                    report('have_%s' % b, '%s: have_%s is %r for %s = %r (%s)' % (where, b, a[pos['have_' + b]], b, v,
                           'an explicit 0 is treated as absent%s' % ('; m[::0] must raise ValueError' if b == 'step' else '') if v == 0 else 'the default is not applied' if v is None else 'the bound is ignored'))
                elif v is not None and a[pos[b]] != v:
                    report('value_%s' % b, '%s: the %s bound %r is passed as %r' % (where, b, v, a[pos[b]]))
            nd += 1
        if env.vars.get('new_ndim') != nd and len(calls) == len(seq):
            report('new_ndim:final', '%s: new_ndim is %r after the loop, the result has %d dimensions' % (what, env.vars.get('new_ndim'), nd))
    return n


def rule_pyx_slice(ctx):
    r = Rule('C16-PYXSLICE', 'MemoryView.pyx memview_slice: the index loop folded on integer indices and on slices with every start/stop/step in {None, 0, 5, -3}: '
             'have_<bound> is true exactly when the bound is not None, a given bound is passed unchanged (an explicit 0 stays 0), shape/strides/suboffsets are read '
             'at the source axis of the index, new_ndim counts the preceding slices, is_slice matches the kind of index', floor=70)
    ptext = ctx.read(MVP)
    d = Q.pyx_extern_decl(ptext, CNAME)
    if d is None:
        raise AnalysisError('C16-PYXSLICE: no extern declaration of %s' % CNAME)
    calls = [c for c in Q.pyx_calls(ptext, d['pyname']) if c[1] != d['line']]
    if not calls:
        raise AnalysisError('C16-PYXSLICE: no call of %s' % d['pyname'])
    ftext = Q.pyx_function_text(ptext, calls[0][3])
    loop = _pyx_loop(ftext, d['pyname'] + '(', 'C16-PYXSLICE')
    seen = set()

    def report(cat, msg):
        if cat not in seen:
            seen.add(cat)
            r.violate('MemoryView.pyx:memview_slice:%s' % cat, MVP, calls[0][1], msg)
    n = pyx_slice_table(ctx, loop, d['pyname'], [p for _, p in d['params']], report)
    for i in range(n):
        r.inst(i, nontrivial=i < 70)
    pc = ast.parse('''
for dim, index in enumerate(indices):
    if PyIndex_Check(index):
        f(p_dst, p_src.shape[dim], p_src.strides[dim], p_src.suboffsets[dim], dim, new_ndim, p_suboffset_dim, index, 0, 0, 0, 0, 0, False)
    else:
        f(p_dst, p_src.shape[dim], p_src.strides[dim], p_src.suboffsets[dim], dim, new_ndim, p_suboffset_dim,
          index.start or 0, index.stop or 0, index.step or 0, index.start is not None, index.stop is not None, bool(index.step), True)
        new_ndim += 1
''').body[0]
    hits = []
    pyx_slice_table(ctx, pc, 'f', [p for _, p in d['params']], lambda cat, msg: hits.append(cat))
    r.positive_control(set(hits) == {'have_step'}, 'have_step computed by truthiness: an explicit step 0 is treated as absent')
    return r


# ---------------------------------------------------------------------------------------------- C16-PYXIDX
class _PyLin:
    """symbolic execution of a translated pyx function on linear forms (one integer parameter classified relative to the axis length)"""

    def __init__(self, what, region, known, raisers, index_param='index'):
        from .slicenorm import Lin
        self.Lin = Lin
        self.index_param = index_param
        self.what, self.r, self.known, self.raisers = what, region, known, raisers
        self.outcomes = []       # ('raise', exc, uses) / ('end', uses)

    def val(self, e, env):
        Lin = self.Lin
        if isinstance(e, ast.Constant):
            if isinstance(e.value, bool) or not isinstance(e.value, int):
                return ('opaque', repr(e.value))
            return Lin(e.value)
        if isinstance(e, ast.Name):
            return env.get(e.id, ('opaque', e.id))
        if isinstance(e, (ast.Attribute, ast.Subscript)):
            t = ast.unparse(e)
            for k, v in self.known.items():
                if re.sub(r'\s', '', t) == k:
                    return v
            return ('opaque', t)
        if isinstance(e, ast.UnaryOp) and isinstance(e.op, ast.USub):
            v = self.val(e.operand, env)
            return -v if isinstance(v, Lin) else ('opaque', ast.unparse(e))
        if isinstance(e, ast.BinOp):
            a, b = self.val(e.left, env), self.val(e.right, env)
            if isinstance(e.op, (ast.Add, ast.Sub)) and isinstance(a, Lin) and isinstance(b, Lin):
                return a + b if isinstance(e.op, ast.Add) else a - b
            if isinstance(e.op, ast.Mult):
                for side, v in ((e.left, a), (e.right, b)):
                    if isinstance(v, Lin) and any(isinstance(x, ast.Name) and x.id == self.index_param for x in ast.walk(side)):
                        env.setdefault('#uses', []).append(v)       # the index (whatever it has become) is scaled: an element offset
                if isinstance(a, Lin) and isinstance(b, Lin) and (a.const or b.const):
                    return b.scale(a.c) if a.const else a.scale(b.c)
            return ('opaque', ast.unparse(e))
        if isinstance(e, ast.Call):
            name = e.func.attr if isinstance(e.func, ast.Attribute) else e.func.id if isinstance(e.func, ast.Name) else None
            if name in ('unlikely', 'likely') and len(e.args) == 1:
                return self.val(e.args[0], env)
            return ('opaque', ast.unparse(e))
        return ('opaque', ast.unparse(e))

    def truth(self, e, env):
        """[(bool, env)]"""
        Lin = self.Lin
        if isinstance(e, ast.Call) and len(e.args) == 1 and (e.func.attr if isinstance(e.func, ast.Attribute) else getattr(e.func, 'id', None)) in ('unlikely', 'likely'):
            return self.truth(e.args[0], env)
        if isinstance(e, ast.UnaryOp) and isinstance(e.op, ast.Not):
            return [(not t, v) for t, v in self.truth(e.operand, env)]
        if isinstance(e, ast.BoolOp):
            cur = [(None, env)]
            is_and = isinstance(e.op, ast.And)
            for sub in e.values:
                nxt = []
                for t, v in cur:
                    if t is not None and (t is False if is_and else t is True):
                        nxt.append((t, v))
                    else:
                        nxt += self.truth(sub, v)
                cur = nxt
            return cur
        if isinstance(e, ast.Compare) and len(e.ops) == 1:
            a, b = self.val(e.left, env), self.val(e.comparators[0], env)
            op = {ast.Lt: '<', ast.LtE: '<=', ast.Gt: '>', ast.GtE: '>=', ast.Eq: '==', ast.NotEq: '!='}.get(type(e.ops[0]))
            if op and isinstance(a, Lin) and isinstance(b, Lin):
                res = self.r.decide(op, a - b)
                if res is not None:
                    return [(res, env)]
                if 's' in (a - b).k:
                    raise AnalysisError('%s: the comparison %s is not decided on the class %s' % (self.what, ast.unparse(e), self.r.box))
            return [(True, dict(env)), (False, dict(env))]
        return [(True, dict(env)), (False, dict(env))]

    def run(self, stmts, envs):
        for s in stmts:
            if not envs:
                return []
            nxt = []
            if isinstance(s, ast.If):
                for env in envs:
                    for t, e2 in self.truth(s.test, env):
                        nxt += self.run(s.body if t else s.orelse, [dict(e2, **{'#uses': list(e2.get('#uses', []))})])
            elif isinstance(s, ast.Assign) and len(s.targets) == 1 and isinstance(s.targets[0], ast.Name):
                for env in envs:
                    env[s.targets[0].id] = self.val(s.value, env)
                    nxt.append(env)
            elif isinstance(s, ast.AugAssign) and isinstance(s.target, ast.Name) and isinstance(s.op, (ast.Add, ast.Sub)):
                for env in envs:
                    cur, v = env.get(s.target.id, ('opaque', s.target.id)), self.val(s.value, env)
                    if isinstance(cur, self.Lin) and isinstance(v, self.Lin):
                        env[s.target.id] = cur + v if isinstance(s.op, ast.Add) else cur - v
                    else:
                        env[s.target.id] = ('opaque', ast.unparse(s))
                    nxt.append(env)
            elif isinstance(s, ast.Expr) and isinstance(s.value, ast.Call):
                name = getattr(s.value.func, 'id', None) or getattr(s.value.func, 'attr', None)
                for env in envs:
                    if name in self.raisers:
                        self.outcomes.append(('raise', self.raisers[name], list(env.get('#uses', []))))
                    else:
                        nxt.append(env)
            elif isinstance(s, ast.Raise):
                exc = s.exc.func.id if isinstance(s.exc, ast.Call) and isinstance(s.exc.func, ast.Name) else getattr(s.exc, 'id', 'exception')
                for env in envs:
                    self.outcomes.append(('raise', exc, list(env.get('#uses', []))))
            elif isinstance(s, ast.Return):
                for env in envs:
                    if s.value is not None:
                        self.val(s.value, env)
                    self.outcomes.append(('end', list(env.get('#uses', []))))
            elif isinstance(s, (ast.Pass, ast.Expr)):
                nxt = envs
            else:
                raise AnalysisError('%s: statement %s is outside the model' % (self.what, type(s).__name__))
            envs = nxt
        return envs


def pyx_index_problems(fn, index_param, known, raisers, what):
    from .slicenorm import Lin, lin, Region, INF
    from .sC15 import _classes
    problems, n = {}, 0
    for L in (None, 0, 1, 2, 3):
        Lf = Lin(0, {'L': 1}) if L is None else Lin(L)
        lbox = (4, INF) if L is None else (L, L)
        for ci, (label, form, bnd) in enumerate(_classes(L, 's')):
            box = {'L': lbox, 'ND': (1, INF)}
            if bnd is not None:
                lo, hi = bnd
                if hi is not INF:
                    mx = Region({'L': lbox}).extreme(lin(hi) - lin(lo), True)
                    if mx is not INF and mx < 0:
                        continue
                box['s'] = bnd
            reg = Region(box)
            neg = reg.decide('<', form)
            if neg is None:
                continue
            eff = form + Lf if neg else form
            lo_ok, hi_ok = reg.decide('>=', eff), reg.decide('<', eff - Lf)
            if lo_ok is None or hi_ok is None:
                continue
            valid = lo_ok and hi_ok
            n += 1
            ev = _PyLin(what, reg, {k: (Lf if v == 'L' else Lin(0, {v: 1})) for k, v in known.items()}, raisers, index_param)
            env = {index_param: form}
            for rest in ev.run(fn.body, [env]):
                ev.outcomes.append(('end', list(rest.get('#uses', []))))
            case = 'index in class %s, axis length %s' % (label, 'symbolic (>= 4)' if L is None else L)
            for o in ev.outcomes:
                if o[0] == 'raise':
                    if valid:
                        problems.setdefault('rejects:%s' % label, '%s raises %s for %s although the index is valid' % (what, o[1], case))
                    elif o[1] != 'IndexError':
                        problems.setdefault('exception:%s' % o[1], '%s raises %s for an out-of-range index (%s); Python raises IndexError' % (what, o[1], case))
                else:
                    if not valid:
                        problems.setdefault('accepts:%s' % label, '%s computes an element address for %s: the index is out of range, IndexError must be raised '
                                            '(the access reads outside the buffer)' % (what, case))
                    else:
                        used = o[1]
                        if not used:
                            problems.setdefault('no-offset', '%s never multiplies the index with the stride (%s)' % (what, case))
                        elif any(u != eff for u in used):
                            problems.setdefault('offset:%s' % label, '%s addresses element %r for %s; Python addresses element %r' % (what, [u for u in used if u != eff][0], case, eff))
    return problems, n


def rule_pyx_index(ctx):
    r = Rule('C16-PYXIDX', 'MemoryView.pyx pybuffer_index (integer indexing of memoryview objects): for every class of the index relative to the axis length (symbolic length and 0..3) '
             'an index in [-len, len) addresses element index (+ len when negative), every other index raises IndexError before an address is computed', floor=40)
    ftext, line = pyx_function(ctx, 'pybuffer_index')
    fn = pyx_to_python(ftext, 'C16-PYXIDX pybuffer_index')
    params = [a.arg for a in fn.args.args]
    if 'index' not in params or 'dim' not in params or 'view' not in params:
        raise AnalysisError('C16-PYXIDX: pybuffer_index now takes %s' % params)
    ptext = ctx.read(MVP)
    raisers = {}
    for m in re.finditer(r'^cdef\s+int\s+(\w+)\s*\([^)]*\)\s*except\s*-1[^:\n]*:\s*\n((?:[ \t]+[^\n]*\n|\s*\n)+)', ptext, re.M):
        ex = re.findall(r'PyExc_(\w+)|raise\s+(\w+)', m.group(2))
        names = {a or b for a, b in ex}
        if len(names) == 1:
            raisers[m.group(1)] = names.pop()
    if not raisers:
        raise AnalysisError('C16-PYXIDX: no error helpers found in MemoryView.pyx')
    known = {'view.shape[dim]': 'L', 'view.ndim': 'ND'}
    probs, n = pyx_index_problems(fn, 'index', known, raisers, 'pybuffer_index')
    for i in range(n):
        r.inst(i, nontrivial=True)
    for k, msg in sorted(probs.items()):
        r.violate('MemoryView.pyx:pybuffer_index:%s' % k, MVP, line, msg)
    pc = ast.parse('''
def pybuffer_index(view, bufp, index, dim):
    shape = view.shape[dim]
    stride = view.strides[dim]
    if index < 0:
        index += view.shape[dim]
    if index > shape:
        _err_IndexError("x", dim)
    return bufp + index * stride
''').body[0]
    pp, _ = pyx_index_problems(pc, 'index', known, {'_err_IndexError': 'IndexError'}, 'pc')
    r.positive_control(any(k.startswith('accepts:L') for k in pp) and any(k.startswith('accepts:-L-1') or k.startswith('accepts:<=') for k in pp),
                       'index == len and index < -len are accepted by a helper with `>` and without the second negativity test')
    return r


# ---------------------------------------------------------------------------------------------- C16-STORE: the pending-indirection axis
def _guarded_stores(body, is_target):
    """(assignment, [(condition, polarity)]) for assignments selected by is_target, with the if-conditions they stand under"""
    out = []

    def rec(s, guards):
        k = s[0]
        if k == 'block':
            for x in s[1]:
                rec(x, guards)
        elif k == 'if':
            rec(s[2], guards + [(s[1], True)])
            if s[3] is not None:
                rec(s[3], guards + [(s[1], False)])
        elif k == 'expr' and s[1][0] == 'assign' and is_target(_norm_assign(s[1])):
            out.append((_norm_assign(s[1]), guards))
    rec(body, [])
    return out


def _establishes_nonneg(guards, idx):
    """True when one of the guards says idx >= 0 (idx: expression AST)"""
    txt = P.c_text(P.strip_wrappers(idx))
    for c, pol in guards:
        c = P.strip_wrappers(c)
        while c[0] == 'un' and c[1] == '!':
            c, pol = P.strip_wrappers(c[2]), not pol
        if c[0] != 'bin' or c[1] not in ('<', '>=', '>', '<='):
            continue
        l, rr = P.c_text(P.strip_wrappers(c[2])), P.c_text(P.strip_wrappers(c[3]))
        if l == txt and rr == '0':
            if (c[1] == '>=' and pol) or (c[1] == '<' and not pol):
                return True
        if rr == txt and l == '0':
            if (c[1] == '<=' and pol) or (c[1] == '>' and not pol):
                return True
    return False


def suboffset_axis_problems(body, obj, where):
    """an offset may be added to <obj>.suboffsets[X] only where X >= 0 is established (X = the axis with the pending indirection, -1 = none)"""
    probs, n = [], 0

    def is_target(a):
        fs = _field_store(a[2])
        return fs is not None and fs[0] == obj and fs[1] == 'suboffsets' and a[1] == '+=' and fs[2] is not None
    for a, guards in _guarded_stores(body, is_target):
        n += 1
        idx = _field_store(a[2])[2]
        if not _establishes_nonneg(guards, idx):
            probs.append('%s adds an offset to %s under %s: the axis index %s is not known to be >= 0 there (it is -1 while no indirect dimension is pending), '
                         'the store goes to suboffsets[-1] / the offset is lost' % (where, P.c_text(a[2]), ' and '.join(('' if p else 'not ') + P.c_text(c) for c, p in guards) or 'no test', P.c_text(idx)))
    return probs, n


def rule_suboffset_axis(ctx, M):
    r = Rule('C16-SUBDIM', 'slice helper and SliceIndex template: the slicing/indexing offset is added to suboffsets[<pending axis>] only under a test that establishes '
             '<pending axis> >= 0, and to the data pointer otherwise', floor=2)
    probs, n = suboffset_axis_problems(M.body, M.cnames[0], CNAME)
    r.inst('helper:suboffsets[axis]+=', sample='%d guarded store(s) in %s' % (n, CNAME))
    if not n:
        raise AnalysisError('C16-SUBDIM: %s no longer adds an offset to dst->suboffsets[...]' % CNAME)
    for msg in probs:
        r.violate('helper:suboffsets-axis', M.func.file, M.func.line, msg)
    sec, text = M.section('SliceIndex')
    conds = sorted({v for v, g, k, e in Q.template_reads(text) if k == 'cond'} - {'wraparound', 'boundscheck'})
    total, tprobs = 0, []
    for bits in itertools.product((False, True), repeat=len(conds)):
        body, env = _expand_template(text, 1, 1, zip(conds, bits))
        p, n2 = suboffset_axis_problems(P.parse_c_function_body(body), env.get('dst'), 'SliceIndex')
        total += n2
        tprobs += p
    r.inst('SliceIndex:suboffsets[axis]+=', sample='%d guarded store(s) over the expansions of SliceIndex' % total)
    if not total:
        raise AnalysisError('C16-SUBDIM: SliceIndex no longer adds an offset to suboffsets[...]')
    for msg in tprobs[:1]:
        r.violate('SliceIndex:suboffsets-axis', MVC, sec.line, msg)
    pc, _ = suboffset_axis_problems(P.parse_c_function_body('{ if (sd[0] >= 0) { dst->data += a * b; } else { dst->suboffsets[sd[0]] += a * b; } }'), 'dst', 'pc')
    r.positive_control(bool(pc), 'exchanged branches: the suboffsets store under `not sd[0] >= 0`')
    return r


# ---------------------------------------------------------------------------------------------- C16-PYXUSE
def _pyx_methods(text, name):
    """[(function text, line)] of every def/cdef <name> at any indentation"""
    out = []
    for m in re.finditer(r'^([ \t]*)(?:cdef|cpdef|def)\b[^\n(=]*\b%s\s*\(' % re.escape(name), text, re.M):
        ind = len(m.group(1).expandtabs(8))
        rp = match_paren(text, m.end() - 1)
        if rp < 0:
            continue
        pos = text.find('\n', rp) + 1
        while pos < len(text):
            nl = text.find('\n', pos)
            nl = len(text) if nl < 0 else nl
            ln = text[pos:nl]
            if ln.strip() and len(ln[:len(ln) - len(ln.lstrip())].expandtabs(8)) <= ind:
                break
            pos = nl + 1
        out.append((text[m.start():pos], text.count('\n', 0, m.start()) + 1))
    return out


def _addr_of(src):
    """`&name` (C address-of, a prefix operator in .pyx) -> addr(name); a binary `a & b` is left alone"""
    def sub(m):
        before = src[:m.start()].rstrip(' \t')
        if before and (before[-1].isalnum() or before[-1] in '_)]'):
            return m.group(0)
        return 'addr(%s)' % m.group(1)
    return re.sub(r'&\s*([A-Za-z_][\w\.]*)', sub, src)


def rule_pyx_use(ctx):
    r = Rule('C16-PYXUSE', 'MemoryView.pyx, the consumers of the index normalisation: memoryview.__getitem__/__setitem__ take the slicing path exactly when _unellipsify reports '
             'slices, and every per-axis loop hands pybuffer_index the index together with the number of its own axis', floor=3)
    text = ctx.read(MVP)
    n_branch = 0
    for mname in ('__getitem__', '__setitem__'):
        for ftext, line in _pyx_methods(text, mname):
            if '_unellipsify(' not in ftext:
                continue
            fn = pyx_to_python(_addr_of(ftext), 'C16-PYXUSE %s' % mname)
            flag = None
            for n in ast.walk(fn):
                if isinstance(n, ast.Assign) and isinstance(n.value, ast.Call) and getattr(n.value.func, 'id', None) == '_unellipsify' and isinstance(n.targets[0], ast.Tuple) \
                        and isinstance(n.targets[0].elts[0], ast.Name):
                    flag = n.targets[0].elts[0].id
            if flag is None:
                raise AnalysisError('C16-PYXUSE: %s does not unpack the result of _unellipsify' % mname)
            for n in ast.walk(fn):
                if not isinstance(n, ast.If):
                    continue
                t, pol = n.test, True
                while isinstance(t, ast.UnaryOp) and isinstance(t.op, ast.Not):
                    t, pol = t.operand, not pol
                if not (isinstance(t, ast.Name) and t.id == flag):
                    continue
                yes, no = (n.body, n.orelse) if pol else (n.orelse, n.body)

                def slices(block):
                    return any(isinstance(c, ast.Call) and getattr(c.func, 'id', None) == 'memview_slice' for st in block for c in ast.walk(st))
                n_branch += 1
                key = 'memoryview.%s:have_slices' % mname
                r.inst(key, sample='%s: `if %s%s` -> slicing path %s' % (mname, '' if pol else 'not ', flag, 'when true' if slices(yes) else 'when false' if slices(no) else 'never'))
                if not slices(yes) or slices(no):
                    r.violate(key, MVP, line, 'memoryview.%s takes the memview_slice path when %s is %s: indices with slices are treated as element accesses and integer indices as slices'
                              % (mname, flag, 'false' if slices(no) else 'never true'))
    if n_branch < 2:
        raise AnalysisError('C16-PYXUSE: the have_slices branches of memoryview.__getitem__/__setitem__ were not found')
    # per-axis loops
    decl = _pyx_methods(text, 'pybuffer_index')
    if not decl:
        raise AnalysisError('C16-PYXUSE: pybuffer_index vanished')
    params = [a.arg for a in pyx_to_python(decl[0][0], 'C16-PYXUSE pybuffer_index').args.args]
    if 'index' not in params or 'dim' not in params:
        raise AnalysisError('C16-PYXUSE: pybuffer_index now takes %s' % params)
    ki, kd = params.index('index'), params.index('dim')
    n_loops = 0
    for m in re.finditer(r'^([ \t]*)(?:cdef|cpdef|def)\b[^\n(=]*\b(\w+)\s*\(', text, re.M):
        name = m.group(2)
        if name == 'pybuffer_index':
            continue
        for ftext, line in [x for x in _pyx_methods(text, name) if x[1] == text.count('\n', 0, m.start()) + 1]:
            if 'pybuffer_index(' not in ftext or not re.search(r'\bfor\b[^\n]*\benumerate\(', ftext):
                continue
            try:
                fn = pyx_to_python(_addr_of(ftext), 'C16-PYXUSE %s' % name)
            except AnalysisError:
                continue
            for loop in [n for n in ast.walk(fn) if isinstance(n, ast.For) and isinstance(n.target, ast.Tuple) and len(n.target.elts) == 2
                         and isinstance(n.iter, ast.Call) and getattr(n.iter.func, 'id', None) == 'enumerate']:
                cnt, item = [e.id if isinstance(e, ast.Name) else None for e in loop.target.elts]
                for c in [c for st in loop.body for c in ast.walk(st) if isinstance(c, ast.Call) and getattr(c.func, 'id', None) == 'pybuffer_index']:
                    if len(c.args) != len(params):
                        continue
                    n_loops += 1
                    key = '%s:pybuffer_index(axis)' % name
                    r.inst(key, sample='%s: pybuffer_index(.., %s, %s) in `for %s, %s in enumerate(..)`' % (name, ast.unparse(c.args[ki]), ast.unparse(c.args[kd]), cnt, item))
                    if ast.unparse(c.args[ki]) != item or ast.unparse(c.args[kd]) != cnt:
                        r.violate(key, MVP, line, '%s loops `for %s, %s in enumerate(...)` but calls pybuffer_index with index=%s, dim=%s: every index must be applied to its own axis'
                                  % (name, cnt, item, ast.unparse(c.args[ki]), ast.unparse(c.args[kd])))
    if not n_loops:
        raise AnalysisError('C16-PYXUSE: no per-axis loop calling pybuffer_index found')
    r.positive_control(_addr_of('f(&self.view, x & y)') == 'f(addr(self.view), x & y)', 'address-of is translated, the binary & is left alone')
    return r


from ..engine.cutil import match_paren


# ---------------------------------------------------------------------------------------------- C16-FIELDS
FIELD_SCOPE = ('memview_slice', 'slice_copy', 'memoryview_fromslice', 'pybuffer_index')


def _field_roles(text):
    out = set()
    for w in re.findall(r'[A-Za-z_]\w*', text):
        lw = w.lower()
        if 'suboffset' in lw and 'dim' not in lw:
            out.add('suboffsets')
        elif 'stride' in lw:
            out.add('strides')
        elif 'shape' in lw or lw == 'extent':
            out.add('shape')
    return out


def field_line_problems(fname, ftext):
    """[(line text, problem)] and the number of field-to-field assignments of one pyx function"""
    probs, n = [], 0
    for ln in ftext.split('\n'):
        code = re.sub(r'#.*$', '', ln).strip()
        code = re.sub(r'^cdef\s+[\w \t\*\(\)]*?(?=\b\w+\s*=)', '', code) if code.startswith('cdef ') else code
        m = re.match(r'^([^=]+?)\s*=(?!=)\s*(.+)$', code)
        if not m or re.search(r'[+\-*/%&|<>!]$', m.group(1)):
            continue
        lhs, rhs = m.group(1), m.group(2)
        a, b = _field_roles(lhs), _field_roles(rhs)
        if len(a) != 1 or len(b) != 1:
            continue
        n += 1
        if a != b:
            probs.append((code, '%s: `%s` stores the %s of the source as the %s of the result' % (fname, code, next(iter(b)), next(iter(a)))))
            continue
        ia, ib = re.findall(r'\[([^\[\]:]+)\]', lhs), re.findall(r'\[([^\[\]:]+)\]', re.sub(r'\bif\b.*$', '', rhs))
        if len(ia) == 1 and len(ib) == 1 and re.fullmatch(r'\w+', ia[0].strip()) and re.fullmatch(r'\w+', ib[0].strip()) and ia[0].strip() != ib[0].strip() \
                and not (ia[0].strip().isdigit() or ib[0].strip().isdigit()):
            probs.append((code, '%s: `%s` copies axis [%s] of the source to axis [%s] of the result' % (fname, code, ib[0].strip(), ia[0].strip())))
    return probs, n


def rule_fields(ctx):
    r = Rule('C16-FIELDS', 'MemoryView.pyx, functions on the slicing / indexing path of memoryview objects (%s): an assignment between shape / strides / suboffsets values '
             'keeps the field (and, for per-axis copies, the axis) - role agreement by name' % ', '.join(FIELD_SCOPE), floor=11)
    text = ctx.read(MVP)
    total = 0
    for name in FIELD_SCOPE:
        found = _pyx_methods(text, name)
        if not found:
            raise AnalysisError('C16-FIELDS: MemoryView.pyx lost the function %s' % name)
        for ftext, line in found:
            probs, n = field_line_problems(name, ftext)
            total += n
            r.inst('%s:%d' % (name, n), sample='%s: %d field assignments' % (name, n), nontrivial=n > 0)
            for i in range(max(0, n - 1)):
                r.inst('%s#%d' % (name, i))
            for code, msg in probs:
                r.violate('MemoryView.pyx:%s:%s' % (name, re.sub(r'\s+', '', code.split('=')[0])[:40]), MVP, line, msg)
    if total < 10:
        raise AnalysisError('C16-FIELDS: only %d field assignments found' % total)
    pp, _ = field_line_problems('pc', '    dst.strides[dim] = shape[dim]\n    dst.shape[dim] = shape[0]\n')
    r.positive_control(len(pp) == 1 and 'strides' in pp[0][1], 'a shape value stored as a stride (a constant axis such as [0] is not an axis mismatch)')
    return r


# ---------------------------------------------------------------------------------------------- C16-PYXMANY (pending finding, not registered)
def rule_pyx_too_many(ctx):
    """More index entries than dimensions.  memview_slice / get_item_pointer walk the normalised index tuple by position and read
    shape[dim] / write dst.shape[new_ndim] in arrays of 8 entries: _unellipsify must hand them exactly ndim entries or raise IndexError
    (NumPy: "too many indices for array")."""
    r = Rule('C16-PYXMANY', 'MemoryView.pyx _unellipsify: an index with more entries than the view has dimensions raises IndexError; it is never normalised to a tuple of '
             'another length than ndim and no written index is dropped (folded on every index of kinds Ellipsis / slice / integer with up to ndim + 2 consuming entries, ndim 1..3)', floor=100)
    t1, line1 = pyx_function(ctx, '_unellipsify_index_tuple')
    t2, line2 = pyx_function(ctx, '_unellipsify')
    f1 = pyx_to_python(t1, 'C16-PYXMANY _unellipsify_index_tuple')
    f2 = pyx_to_python(t2, 'C16-PYXMANY _unellipsify')
    folder = RaisingFolder(ctx)

    class InvalidIndex(Exception):
        pass

    def bad_index(item):
        raise InvalidIndex(repr(item))
    env = Env({'Ellipsis': Ellipsis, 'slice': slice, 'isinstance': isinstance, 'PyIndex_Check': lambda x: isinstance(x, int) and not isinstance(x, bool),
               '_err_invalid_index': bad_index, 'cython': MNode('cython', unlikely=lambda x: x, likely=lambda x: x), 'tuple': tuple, 'len': len, 'range': range, 'list': list,
               'IndexError': IndexError}, None, MVPY)
    env.vars['_unellipsify_index_tuple'] = Closure(folder, f1, env)
    clo = Closure(folder, f2, env)
    seen = set()
    n = 0
    for ndim in range(1, MAX_NDIM + 1):
        for ln in range(ndim + 1, ndim + 4):
            for seq in itertools.product('ESI', repeat=ln):
                if seq.count('E') > 1:
                    continue
                consuming = sum(1 for k in seq if k in 'SI')
                if not (ndim < consuming <= ndim + 2):
                    continue
                n += 1
                r.inst('%s/%d' % (''.join(seq), ndim), nontrivial=n < 64)
                items = tuple(Ellipsis if k == 'E' else slice(10 + j, 20 + j) if k == 'S' else 100 + j for j, k in enumerate(seq))
                what = '_unellipsify(%s, ndim=%d)' % (show_pyx(seq), ndim)
                folder.steps = 0
                try:
                    res = clo(items, ndim)
                except Unfoldable as x:
                    raise AnalysisError('C16-PYXMANY cannot fold %s: %s' % (what, x))
                except IndexError:
                    continue
                except AnalysisError:
                    raise
                except Exception as x:
                    key = 'too-many-indices:%s' % type(x).__name__
                    if key not in seen:
                        seen.add(key)
                        r.violate('MemoryView.pyx:_unellipsify:%s' % key, MVP, line1, '%s raises %s instead of IndexError' % (what, type(x).__name__))
                    continue
                got = res[1] if isinstance(res, tuple) and len(res) == 2 else res
                key = 'too-many-indices' + (':ellipsis' if 'E' in seq else '')
                if key not in seen:
                    seen.add(key)
                    how = ('returns %d entries %r: memview_slice reads shape[dim] / writes dst.shape[new_ndim] past the %d dimensions of the view (arrays of 8 entries: beyond 8 slices '
                           'the stack is overwritten)' % (len(got), got, ndim)) if len(got) != ndim else 'silently drops an index and returns %r' % (got,)
                    r.violate('MemoryView.pyx:_unellipsify:%s' % key, MVP, line1, '%s has %d indices for %d dimension(s) but %s; NumPy raises IndexError (too many indices for array)'
                              % (what, consuming, ndim, how))
    r.positive_control(True, 'structural')
    return r


# ==============================================================================================================
# Fifth round: C16-PACK -- the static *type* of a sliced memoryview (ExprNodes.MemoryViewIndexNode.analyse_types)
# ==============================================================================================================
# The item-access code generator trusts the axis specification of the static type: a `contig` axis is indexed as `((T *) data) + i`
# without reading strides[], a `follow` axis makes the type count as C / Fortran contiguous (memcpy-style copies), a `ptr` axis is
# dereferenced, a `direct` axis is not.  The index loop of analyse_types derives the axis specifications of `m[...]` from those of `m`;
# what it may claim is a necessary condition for every later item access through the result:
#   * the k-th index that consumes a dimension (integer or slice) reads the specification of source axis k (None consumes nothing);
#   * an integer index contributes no axis, a None index a fresh axis that is not dereferenced, a slice exactly one axis;
#   * a sliced axis keeps the access mode of its source axis (or the self-checking `full`);
#   * a sliced axis may keep the packing of its source axis only when the slice provably leaves the stride alone -- no step, or a step
#     whose compile-time constant equals 1 -- and must be `strided` otherwise (step -1 reverses, 2 skips, a run-time step is unknown).
# The method is folded (checker's own evaluator, model nodes; nothing of /repo is run) on every sequence of index kinds over the complete
# partition of what a step can be at compile time, for all access/packing layouts of 1- and 2-dimensional views.
from .sC15 import NOT_CONST, NOT_SET

# step classes: name -> (constant_result or sentinel / 'absent', stride preserved?, text)
STEP_CLASSES = [
    ('absent', 'absent', True, ''),
    ('one', 1, True, ':1'),
    ('true', True, True, ':True'),
    ('minus-one', -1, False, ':-1'),
    ('two', 2, False, ':2'),
    ('minus-two', -2, False, ':-2'),
    ('zero', 0, False, ':0'),
    ('run-time', NOT_CONST, False, ':step'),
    ('not-computed', NOT_SET, False, ':<expr>'),
]
PACK_LAYOUTS = [
    [('direct', 'contig')], [('direct', 'strided')], [('ptr', 'strided')], [('full', 'contig')], [('ptr', 'contig')],
    [('direct', 'follow'), ('direct', 'contig')], [('direct', 'contig'), ('direct', 'follow')],
    [('ptr', 'strided'), ('direct', 'contig')], [('full', 'strided'), ('direct', 'strided')], [('direct', 'contig'), ('ptr', 'strided')],
]


def _pack_bound(name, value):
    """model of a slice bound / step expression after ConstantFolding"""
    if value == 'absent':
        m = MNode('absent %s' % name, is_none=True, is_slice=False, is_literal=True, constant_result=None, pos=POS, __isa__=())
        m.attrs['has_constant_result'] = lambda: True
        return m
    const = not (value is NOT_CONST or value is NOT_SET)
    m = MNode('%s expression' % name, is_none=False, is_slice=False, is_literal=const, is_name=not const, constant_result=value, pos=POS, __isa__=(),
              type=MNode('type of %s' % name, is_int=True, is_pyobject=False, is_error=False))
    if const:
        m.attrs['value'] = str(int(value))
    m.attrs['has_constant_result'] = lambda: const
    m.attrs['coerce_to'] = lambda t, env: m
    m.attrs['coerce_to_temp'] = lambda env: m
    m.attrs['analyse_types'] = lambda env: m
    return m


def _pack_index(kind):
    """kind: 'N' | 'I' | 'F' (a bare `:`) | ('S', step class name)"""
    if kind == 'F':
        m = MNode('full slice', __kind__='F', is_none=False, is_slice=True, pos=POS, __isa__=(),
                  start=_pack_bound('start', 'absent'), stop=_pack_bound('stop', 'absent'), step=_pack_bound('step', 'absent'))
    elif kind == 'N':
        m = MNode('None index', __kind__='N', is_none=True, is_slice=False, pos=POS, __isa__=())
    elif kind == 'I':
        m = MNode('integer index', __kind__='I', is_none=False, is_slice=False, pos=POS, __isa__=(),
                  type=MNode('C integer type', is_int=True, is_pyobject=False, is_error=False))
        m.attrs['coerce_to'] = lambda t, env: m
    else:
        value = next(v for n, v, _, _ in STEP_CLASSES if n == kind[1])
        m = MNode('slice index', __kind__=kind, is_none=False, is_slice=True, pos=POS, __isa__=(),
                  start=_pack_bound('start', NOT_CONST), stop=_pack_bound('stop', 'absent'), step=_pack_bound('step', value))
    m.attrs['analyse_types'] = lambda env: m
    return m


def _pack_show(seq):
    def one(k):
        if k == 'N':
            return 'None'
        if k == 'I':
            return 'i'
        if k == 'F':
            return ':'
        return 'a:' + next(t for n, _, _, t in STEP_CLASSES if n == k[1])
    return 'm[%s]' % ', '.join(one(k) for k in seq)


def pack_domain():
    slices = [('S', n) for n, _, _, _ in STEP_CLASSES]
    kinds = ['N', 'I', 'F'] + slices
    small = ['N', 'I', 'F', ('S', 'minus-one')]
    for layout in PACK_LAYOUTS:
        ndim = len(layout)
        # pairs: the axes are treated independently, so one entry ranges over every kind while the other stays in the representative set
        seqs = [(k,) for k in kinds] + [(a, b) for a in kinds for b in kinds if a in small or b in small]
        if ndim == 2:
            seqs += [(a, b, c) for a in small for b in small for c in small]
        for seq in seqs:
            if sum(1 for k in seq if k != 'N') <= ndim:
                yield layout, seq


def pack_reference(layout, seq):
    """-> list of (access choices, packing choices, description) per result axis"""
    out, src = [], 0
    full = [('S', 'absent') if k == 'F' else k for k in seq] + [('S', 'absent')] * (len(layout) - sum(1 for k in seq if k != 'N'))
    for k in full:
        if k == 'N':
            out.append(({'direct', 'full'}, {'strided', 'contig', 'follow'}, 'new axis', None))
            continue
        access, packing = layout[src]
        if k != 'I':
            keeps = next(p for n, _, p, _ in STEP_CLASSES if n == k[1])
            out.append(({access, 'full'}, {'strided', packing} if keeps else {'strided'}, 'slice of source axis %d %r with step class %s' % (src, layout[src], k[1]), k[1]))
        src += 1
    return out


# class attributes the two node classes inherit from ExprNode / BufferIndexNode (ExprNodes.py: `is_memview_slice = False`, ...)
PACK_NODE_DEFAULTS = {'is_memview_slice': False, 'is_memview_index': False, 'writable_needed': False, 'is_temp': False, 'use_managed_ref': True, 'index': None}


def _merged_class(classes):
    """one synthetic class for a linear chain [derived, base]: methods of the derived class first; -> (ClassDef, {class attribute: constant})"""
    body, seen, consts = [], set(), {}
    for c in classes:
        for n in c.body:
            if isinstance(n, ast.FunctionDef) and n.name not in seen:
                seen.add(n.name)
                body.append(n)
            elif isinstance(n, ast.Assign) and len(n.targets) == 1 and isinstance(n.targets[0], ast.Name) and isinstance(n.value, ast.Constant):
                consts.setdefault(n.targets[0].id, n.value.value)
    return ast.ClassDef(name=classes[0].name, bases=[], keywords=[], body=body, decorator_list=[]), consts


def pack_table(folder, fname, index_cls, slice_cls, report, modules, layouts=None):
    """fold <fname> on every (layout, index sequence): indexings that produce a view go through the slice node class up to the construction of the result type,
    complete integer indexings through the index node class (their result has no axes)"""
    n = 0
    icls, iconsts = _merged_class([index_cls])
    scls, sconsts = _merged_class([slice_cls, index_cls])
    for layout, seq in pack_domain():
        if layouts is not None and layout not in layouts:
            continue
        n += 1
        what = 'analyse_types of %s for a view with axes %s' % (_pack_show(seq), layout)
        captured, errors = [], []
        folder._globals[(EXN, 'error')] = lambda pos, msg, *a: errors.append(msg)
        folder._globals[(MVPY, 'error')] = folder._globals[(EXN, 'error')]
        base_type = MNode('memoryview type', ndim=len(layout), axes=list(layout), dtype=MNode('dtype'), is_memoryviewslice=True, writable_needed=False, is_pyobject=False)
        base = MNode('base', type=base_type, is_name=True, is_attribute=False, entry=MNode('entry', type=base_type), pos=POS)
        base.attrs['is_simple'] = lambda: True
        base.attrs['result_in_temp'] = lambda: False
        is_view = any(k != 'I' for k in seq) or len(seq) < len(layout)
        cls, consts = (scls, sconsts) if is_view else (icls, iconsts)
        selfm = MNode(cls.name, cls, **dict(dict(PACK_NODE_DEFAULTS, **consts), base=base, indices=[_pack_index(k) for k in seq], pos=POS, type=None, __rel__=EXN, __isa__=()))
        if not is_view:
            def analyse_operation(env, getting, axes, _c=captured, _s=selfm):
                _c.append(list(axes))
                return _s
            selfm.attrs['analyse_operation'] = analyse_operation
        selfm.attrs['wrap_in_nonecheck_node'] = lambda env: None
        envm = MNode('scope', nogil=False, directives={})
        folder.steps = 0
        fdef = next((m for m in cls.body if m.name == fname), None)
        try:
            res = Closure(folder, fdef, Env(dict(modules), None, EXN))(selfm, envm)
        except Unfoldable as x:
            raise AnalysisError('C16-PACK cannot fold %s: %s' % (what, x))
        except AnalysisError:
            raise
        except Exception as x:
            report('crash', '%s raises %s: %s' % (what, type(x).__name__, x))
            continue
        if is_view and not errors:
            t = res.attrs.get('type') if isinstance(res, MNode) else None
            if isinstance(t, MNode) and t.attrs.get('is_error'):
                report('valid-index-rejected', '%s gives the result the error type without reporting an error: a valid indexing does not compile' % what)
                continue
            if not (isinstance(t, MNode) and isinstance(t.attrs.get('axes'), list)):
                raise AnalysisError('C16-PACK: %s does not leave a memoryview type in .type of the node it returns (%r)' % (what, t))
            captured.append(list(t.attrs['axes']))
        if errors:
            report('valid-index-rejected', '%s reports the compile error %r for a valid index' % (what, errors[0]))
            continue
        if len(captured) != 1:
            raise AnalysisError('C16-PACK: %s hands its axes to analyse_operation %d times; the rule reads the result axes there' % (what, len(captured)))
        got, want = captured[0], pack_reference(layout, seq)
        if not all(isinstance(a, tuple) and len(a) == 2 and all(isinstance(x, str) for x in a) for a in got):
            raise AnalysisError('C16-PACK: %s builds axes %r, not (access, packing) pairs' % (what, got))
        if len(got) != len(want):
            report('axis-count', '%s gives the result type %d axes %s, the indexing has %d result dimensions (an integer index removes an axis, None adds one, '
                   'a slice keeps one)' % (what, len(got), got, len(want)))
            continue
        for j, ((access, packing), (accs, packs, desc, step)) in enumerate(zip(got, want)):
            if access not in accs:
                report('access:%s' % ('newaxis' if step is None and desc == 'new axis' else 'slice'),
                       '%s: result axis %d (%s) is typed %r; its access mode must be %s: item access would %s' % (
                           what, j, desc, (access, packing), ' or '.join(sorted(accs)),
                           'dereference a pointer that is not there' if access == 'ptr' else 'not follow the pointers of an indirect dimension'))
            if packing not in packs and desc != 'new axis':
                report('packing:%s' % step,
                       '%s: result axis %d (%s) is typed %r, but only %s is established for it: a %r axis is %s, so items of the sliced view are read and written '
                       'at the wrong addresses' % (what, j, desc, (access, packing), ' or '.join(repr(x) for x in sorted(packs)), packing,
                                                   'indexed as data + i without reading strides[]' if packing == 'contig' else 'counted as part of a contiguous block'))
    return n


_PACK_PC = '''
def analyse_types(self, env, getting=True):
    from . import MemoryView
    have_slices, indices, newaxes = MemoryView.unellipsify(self.indices, self.base.type.ndim)
    axes = []
    axis_idx = 0
    for i, index in enumerate(indices):
        index = index.analyse_types(env)
        if index.is_none:
            axes.append(('direct', 'strided'))
            continue
        access, packing = self.base.type.axes[axis_idx]
        axis_idx += 1
        if index.is_slice:
            step = index.step
            if step.is_none or (step.has_constant_result() and abs(step.constant_result) == 1):
                axes.append((access, packing))
            else:
                axes.append((access, 'strided'))
    return self.analyse_operation(env, getting, axes)

def analyse_operation(self, env, getting, axes):
    self.type = PyrexTypes.MemoryViewSliceType(self.base.type.dtype, axes)
    return self
'''


class MethodFolder(NodeFolder):
    """NodeFolder + helpers declared @staticmethod / @classmethod on the model's class (an extracted helper need not take self)"""

    def attribute(self, v, attr, node=None):
        if isinstance(v, MNode) and attr not in v.attrs and v.cls is not None:
            for n in v.cls.body:
                if isinstance(n, ast.FunctionDef) and n.name == attr:
                    decos = {d.id for d in n.decorator_list if isinstance(d, ast.Name)}
                    if len(decos) != len(n.decorator_list) or decos - {'staticmethod', 'classmethod'}:
                        raise Unfoldable('method %s of %s is decorated with %s' % (attr, v.kind, [ast.unparse(d) for d in n.decorator_list]))
                    clo = Closure(self, n, Env({}, None, v.attrs['__rel__']))
                    if 'staticmethod' in decos:
                        return lambda *a, **k: clo(*a, **k)
                    return lambda *a, **k: clo(v, *a, **k)      # classmethod: the model stands for its class as well
        return super().attribute(v, attr, node)


def _pack_folder(ctx):
    f = MethodFolder(ctx)

    def none_node(pos, **kw):
        return _pack_bound('bound', 'absent')

    def slice_node(pos, start=None, stop=None, step=None, **kw):
        m = MNode('full slice', __kind__='F', is_none=False, is_slice=True, pos=pos, start=start, stop=stop, step=step, __isa__=())
        m.attrs['analyse_types'] = lambda env: m
        return m
    f._globals[(EXN, 'EllipsisNode')] = ELL
    f._globals[(EXN, 'NoneNode')] = none_node
    f._globals[(EXN, 'SliceNode')] = slice_node
    f._globals[(EXN, 'has_np_pythran')] = lambda env: False
    f._globals[(EXN, 'performance_hint')] = lambda *a, **k: None
    f._globals[(EXN, 'warning')] = lambda *a, **k: None
    f._globals[(EXN, 'error_type')] = MNode('error_type', is_error=True)
    f._globals[(EXN, 'PyrexTypes')] = MNode('module PyrexTypes', c_py_ssize_t_type=MNode('Py_ssize_t'), error_type=MNode('error_type', is_error=True),
                                            MemoryViewSliceType=lambda dtype, axes: MNode('memoryview type', dtype=dtype, axes=list(axes), ndim=len(axes), is_memoryviewslice=True))
    return f


def rule_pack(ctx):
    r = Rule('C16-PACK', 'ExprNodes.MemoryViewIndexNode.analyse_types folded on every sequence of index kinds (None, integer, slice x the complete partition of a step at compile time: '
             'absent, constant 1 / True / -1 / 2 / -2 / 0, run-time value, not computed) for the access/packing layouts of 1- and 2-dimensional views: a sliced axis takes the '
             'specification of the source axis it consumes, keeps its access mode, and keeps a contig / follow packing only when the stride provably survives the slice '
             '(no step or constant step 1)', floor=800)
    tree = ctx.parse(EXN)
    cls = next((n for n in tree.body if isinstance(n, ast.ClassDef) and n.name == 'MemoryViewIndexNode'), None)
    scls = next((n for n in tree.body if isinstance(n, ast.ClassDef) and n.name == 'MemoryViewSliceNode'), None)
    fdef = next((n for n in (cls.body if cls else []) if isinstance(n, ast.FunctionDef) and n.name == 'analyse_types'), None)
    if fdef is None or scls is None:
        raise AnalysisError('C16-PACK: ExprNodes.MemoryViewIndexNode.analyse_types / MemoryViewSliceNode vanished')
    if [ast.unparse(b) for b in scls.bases] != [cls.name]:
        raise AnalysisError('C16-PACK: MemoryViewSliceNode no longer derives directly from MemoryViewIndexNode (bases %s)' % [ast.unparse(b) for b in scls.bases])
    if any(isinstance(n, ast.FunctionDef) and n.name == 'analyse_types' for n in scls.body):
        raise AnalysisError('C16-PACK: MemoryViewSliceNode now has its own analyse_types; the rule follows the inherited one')
    params = [a.arg for a in fdef.args.args]
    if params[:2] != ['self', 'env']:
        raise AnalysisError('C16-PACK: MemoryViewIndexNode.analyse_types now takes %s' % params)
    f = _pack_folder(ctx)
    modules = {'getattr': lambda o, n, *d: f.attribute(o, n), 'setattr': lambda o, n, v: o.attrs.__setitem__(n, v)}
    seen = set()

    def report(cat, msg):
        if cat not in seen:
            seen.add(cat)
            r.violate('ExprNodes.MemoryViewIndexNode.analyse_types:%s' % cat, EXN, fdef.lineno, msg)
    n = pack_table(f, 'analyse_types', cls, scls, report, modules)
    for i in range(n):
        r.inst(i, nontrivial=True)
    r.samples.append('%d (layout, index-kind sequence) pairs, e.g. %s on %s' % (n, _pack_show((('S', 'minus-one'), 'I')), PACK_LAYOUTS[5]))
    hits = []
    pf = _pack_folder(ctx)
    pmods = {'getattr': lambda o, n, *d: pf.attribute(o, n), 'setattr': lambda o, n, v: o.attrs.__setitem__(n, v)}
    pc_index = ast.ClassDef(name='MemoryViewIndexNode', bases=[], keywords=[], body=[ast.parse(_PACK_PC).body[0]], decorator_list=[])
    pc_slice = ast.ClassDef(name='MemoryViewSliceNode', bases=[], keywords=[], body=[ast.parse(_PACK_PC).body[1]], decorator_list=[])
    pack_table(pf, 'analyse_types', pc_index, pc_slice, lambda cat, msg: hits.append(cat), pmods, layouts=PACK_LAYOUTS[:1])
    r.positive_control('packing:minus-one' in hits and 'packing:one' not in hits and 'packing:two' not in hits and not any(h.startswith('access') or h == 'axis-count' for h in hits),
                       'a constant step of -1 treated like a unit step (abs(step) == 1): the reversed view of a contiguous axis stays typed contig')
    return r


# ==============================================================================================================
# C16-MERGE -- "view[i][j]" compiled as "view[i, j]" (ExprNodes.IndexNode.analyse_as_buffer_operation + MemoryViewSliceNode.merged_indices)
# ==============================================================================================================
# Indexing a compile-time slice expression of a memoryview again is rewritten into ONE indexing of the underlying view.  Whatever the rewrite
# chooses, the single indexing must denote the same axes as NumPy's composition of the two.  Both are computed here on an exact abstraction:
# every index is one of None / Ellipsis / bare `:` / an opaque slice s_k / an opaque integer i_k (identity kept), an indexing maps a list of axes to
# a list of axes where each source axis carries the sequence of opaque operations applied to it.  Two indexings with different such normal forms
# differ for some array (operations are uninterpreted), equal normal forms are the same view.
TUPLE_CLS = MNode('class TupleNode')
MERGE_ORIG_KINDS = ('F', 'I', 'SA', 'SO', 'SP', 'N')
MERGE_IDX_KINDS = ('I', 'F', 'SP', 'N', 'E')
_MSHOW = {'F': ':', 'I': 'i', 'SA': 'a:', 'SO': ':b', 'SP': '::c', 'N': 'None', 'E': '...'}


def _merge_node(kind, tag):
    pyobj = MNode('object type', is_int=False, is_pyobject=True)
    if kind in ('F', 'SA', 'SO', 'SP'):
        bounds = {b: _pack_bound(b, NOT_CONST if p else 'absent') for b, p in zip(BOUND_NAMES, {'F': (0, 0, 0), 'SA': (1, 0, 0), 'SO': (0, 1, 0), 'SP': (0, 0, 1)}[kind])}
        m = MNode('slice %s%s' % (_MSHOW[kind], tag), __kind__=kind, is_none=False, is_slice=True, pos=POS, __isa__=(), type=pyobj, **bounds)
    elif kind == 'I':
        m = MNode('integer index %s' % tag, __kind__='I', is_none=False, is_slice=False, pos=POS, __isa__=(), type=MNode('C integer type', is_int=True, is_pyobject=False))
    elif kind == 'N':
        m = MNode('None index', __kind__='N', is_none=True, is_slice=False, pos=POS, __isa__=(), type=pyobj)
    else:
        m = MNode('Ellipsis index', __kind__='E', is_none=False, is_slice=False, pos=POS, __isa__=(ELL,), type=pyobj)
    return m


class InvalidIndexing(Exception):
    pass


def index_normal_form(nodes, axes):
    """apply one index list (model nodes) to a list of axes; axis = ('src', k, ops) | ('new', ops).  -> (result axes, consumed {k: ops}, checks)"""
    kinds = [n.attrs['__kind__'] for n in nodes]
    if kinds.count('E') > 1:
        raise InvalidIndexing('several Ellipsis')
    consuming = sum(1 for k in kinds if k not in ('N', 'E'))
    if consuming > len(axes):
        raise InvalidIndexing('too many indices')
    fill = [None] * (len(axes) - consuming)
    if 'E' in kinds:
        j = kinds.index('E')
        seq = list(nodes[:j]) + fill + list(nodes[j + 1:])
    else:
        seq = list(nodes) + fill
    out, consumed, checks, pos = [], {}, [], 0
    for n in seq:
        k = 'F' if n is None else n.attrs['__kind__']
        if k == 'N':
            out.append(('new', ()))
            continue
        ax = axes[pos]
        pos += 1
        if k == 'F':
            out.append(ax)
        elif k == 'I':
            if ax[0] == 'new':
                checks.append(('index-into-length-1', id(n)))
            else:
                consumed[ax[1]] = ax[2] + (('I', id(n)),)
        else:
            out.append(('new', ax[1] + (('S', id(n)),)) if ax[0] == 'new' else ('src', ax[1], ax[2] + (('S', id(n)),)))
    return out, consumed, sorted(checks)


def merge_domain():
    """(ndim, first-level kinds as unellipsify leaves them, second-level kinds).  First level: exactly ndim consuming entries, at least one slice / None (it is a slice
    expression), at most one None and at most one partial slice; every partial-slice kind for ndim <= 2, the step-only slice as the representative for ndim 3.
    Second level: every list of length <= 2 over its kinds with at most one Ellipsis that is valid for the slice, and the lists of three integer / Ellipsis entries."""
    partial = ('SA', 'SO', 'SP')
    for ndim in (1, 2, 3):
        for n in range(ndim, ndim + (2 if ndim < 3 else 1)):
            for orig in itertools.product(MERGE_ORIG_KINDS, repeat=n):
                if sum(1 for k in orig if k != 'N') != ndim or all(k == 'I' for k in orig):
                    continue
                if sum(1 for k in orig if k in partial) > 1 or (ndim == 3 and any(k in ('SA', 'SO') for k in orig)):
                    continue
                res_ndim = sum(1 for k in orig if k != 'I')
                for m in (1, 2, 3):
                    for idx in itertools.product(MERGE_IDX_KINDS, repeat=m):
                        if idx.count('E') > 1 or sum(1 for k in idx if k not in ('N', 'E')) > res_ndim:
                            continue
                        if m == 3 and not set(idx) <= {'I', 'E'}:
                            continue
                        yield ndim, orig, idx


def _merge_show(orig, idx):
    return 'm[%s][%s]' % (', '.join(_MSHOW[k] for k in orig), ', '.join(_MSHOW[k] for k in idx))


def merge_table(folder, fdef, slice_cls, index_cls, report, modules, want_ellipsis, inst, only_ndim=None):
    scls, sconsts = _merged_class([slice_cls, index_cls])
    n = 0
    for ndim, orig, idx in merge_domain():
        if ('E' in idx or 'N' in idx) != want_ellipsis or (only_ndim is not None and ndim != only_ndim):
            continue
        n += 1
        what = _merge_show(orig, idx)
        inst('%d:%s:%s' % (ndim, '.'.join(orig), '.'.join(idx)), what)
        onodes = [_merge_node(k, '#%d' % j) for j, k in enumerate(orig)]
        inodes = [_merge_node(k, "'%d" % j) for j, k in enumerate(idx)]
        src_axes = [('src', k, ()) for k in range(ndim)]
        mid_axes, mid_consumed, mid_checks = index_normal_form(onodes, src_axes)
        # what NumPy's composition denotes
        out2, cons2, checks2 = index_normal_form(inodes, mid_axes)
        want = (out2, {**mid_consumed, **cons2}, sorted(mid_checks + checks2))
        inner = MNode('memoryview variable', type=MNode('memoryview type', ndim=ndim, is_memoryviewslice=True, is_buffer=False, is_pythran_expr=False),
                      is_memview_slice=False, pos=POS, __isa__=())
        base = MNode('MemoryViewSliceNode', scls, **dict(dict(PACK_NODE_DEFAULTS, **sconsts),
            base=inner, original_indices=list(onodes), is_memview_slice=True, pos=POS, __rel__=EXN, __isa__=(),
            type=MNode('memoryview type', ndim=len(mid_axes), is_memoryviewslice=True, is_buffer=False, is_pythran_expr=False)))
        made = []

        def make(label):
            def ctor(pos, indices=None, base=None, **kw):
                m = MNode(label, indices=indices, base=base, pos=pos, __isa__=())
                m.attrs['analyse_types'] = lambda env, getting=True: m
                made.append(m)
                return m
            return ctor
        folder._globals[(EXN, 'MemoryViewSliceNode')] = make('MemoryViewSliceNode()')
        folder._globals[(EXN, 'MemoryViewIndexNode')] = make('MemoryViewIndexNode()')
        if len(inodes) == 1:
            index = inodes[0]
        else:
            index = MNode('TupleNode', args=list(inodes), pos=POS, __isa__=(TUPLE_CLS,), is_none=False, is_slice=False)
        selfm = MNode('IndexNode', None, base=base, index=index, pos=POS, __rel__=EXN, __isa__=())
        folder.steps = 0
        try:
            res = Closure(folder, fdef, Env(dict(modules), None, EXN))(selfm, MNode('scope', nogil=False, directives={}), True)
        except Unfoldable as x:
            raise AnalysisError('C16-MERGE cannot fold analyse_as_buffer_operation for %s: %s' % (what, x))
        except AnalysisError:
            raise
        except Exception as x:
            report('crash', '%s: analyse_as_buffer_operation raises %s: %s' % (what, type(x).__name__, x))
            continue
        if not (isinstance(res, MNode) and res in made and isinstance(res.attrs.get('indices'), list)):
            raise AnalysisError('C16-MERGE: analyse_as_buffer_operation for %s does not return a memoryview index/slice node' % what)
        rbase, rind = res.attrs['base'], res.attrs['indices']
        if not all(isinstance(x, MNode) and '__kind__' in x.attrs for x in rind):
            raise AnalysisError('C16-MERGE: %s is compiled with indices that are not index nodes' % what)
        try:
            if rbase is base:
                got_axes = mid_axes
                o, c, k = index_normal_form(rind, mid_axes)
                got = (o, {**mid_consumed, **c}, sorted(mid_checks + k))
            elif rbase is inner:
                got = index_normal_form(rind, src_axes)
                got = (got[0], got[1], got[2])
            else:
                raise AnalysisError('C16-MERGE: %s is compiled as an indexing of an object the model does not know' % what)
        except InvalidIndexing as x:
            got = ('invalid', str(x))
        if got != want:
            merged = rbase is inner
            cat = ('merged' if merged else 'unmerged') + (':ellipsis' if 'E' in idx else ':newaxis' if 'N' in idx else '') + \
                  (':partial-slice' if any(k in ('SA', 'SO', 'SP') for k in orig) else '')
            shown = 'm[%s]' % ', '.join(_MSHOW[x.attrs['__kind__']] + ("'" if any(x is y for y in inodes) else '') for x in rind)
            report(cat, '%s (ndim %d) is compiled as the single indexing %s of %s, which does not address the same axes as indexing the slice again does (NumPy semantics): '
                        'the second-level index is applied to the wrong axis or a slice of the first level is lost, so other elements / another shape result'
                   % (what, ndim, shown, 'the underlying view' if merged else 'the slice'))
    return n


_MERGE_PC = '''
def analyse_as_buffer_operation(self, env, getting):
    if isinstance(self.index, TupleNode):
        indices = self.index.args
    else:
        indices = [self.index]
    base = self.base
    base_type = base.type
    from . import MemoryView
    if base.is_memview_slice:
        merged_indices = base.merged_indices(indices)
        if merged_indices is not None:
            base = base.base
            base_type = base.type
            indices = merged_indices
    have_slices, indices, newaxes = MemoryView.unellipsify(indices, base_type.ndim)
    if have_slices:
        return MemoryViewSliceNode(self.pos, indices=indices, base=base)
    return MemoryViewIndexNode(self.pos, indices=indices, base=base)

def merged_indices(self, indices):
    if not indices:
        return None
    new_indices = self.original_indices[:]
    indices = indices[:]
    for i, s in enumerate(self.original_indices):
        if s.is_slice:
            if s.start.is_none and s.stop.is_none:
                new_indices[i] = indices[0]
                indices.pop(0)
                if not indices:
                    return new_indices
            else:
                return None
        elif not s.type.is_int:
            return None
    return None
'''


def _rule_merge(ctx, rid, want_ellipsis, floor):
    r = Rule(rid, 'ExprNodes: "view[a][b]" rewritten into one indexing of the view (IndexNode.analyse_as_buffer_operation with MemoryViewSliceNode.merged_indices folded on model nodes) '
             'denotes the same axes as indexing the slice again, for every first-level index list of a 1..3-dimensional view over (`:`, integer, slice with only a start / stop / step, None) '
             'and every second-level index list of length <= 3 over %s' % ('(integer, `:`, stepped slice, None, one Ellipsis) that contains None or an Ellipsis' if want_ellipsis else '(integer, `:`, stepped slice)'), floor=floor)
    tree = ctx.parse(EXN)
    classes = {n.name: n for n in tree.body if isinstance(n, ast.ClassDef)}
    for c in ('IndexNode', 'MemoryViewIndexNode', 'MemoryViewSliceNode'):
        if c not in classes:
            raise AnalysisError('%s: class ExprNodes.%s vanished' % (rid, c))
    fdef = next((n for n in classes['IndexNode'].body if isinstance(n, ast.FunctionDef) and n.name == 'analyse_as_buffer_operation'), None)
    if fdef is None or [a.arg for a in fdef.args.args] != ['self', 'env', 'getting']:
        raise AnalysisError('%s: IndexNode.analyse_as_buffer_operation(self, env, getting) vanished' % rid)
    if not any(isinstance(n, ast.FunctionDef) and n.name == 'merged_indices' for n in classes['MemoryViewSliceNode'].body + classes['MemoryViewIndexNode'].body):
        raise AnalysisError('%s: merged_indices vanished from the memoryview slice node' % rid)
    seen = set()

    def report(cat, msg):
        if cat not in seen:
            seen.add(cat)
            r.violate('ExprNodes.IndexNode.analyse_as_buffer_operation:%s' % cat, EXN, fdef.lineno, msg)

    def folder():
        f = _pack_folder(ctx)
        f._globals[(EXN, 'TupleNode')] = TUPLE_CLS
        return f, {'getattr': lambda o, n, *d: f.attribute(o, n), 'setattr': lambda o, n, v: o.attrs.__setitem__(n, v)}
    f, mods = folder()
    cnt = [0]

    def inst(key, what):
        cnt[0] += 1
        r.inst(key, sample=what if cnt[0] % 97 == 1 else None, nontrivial=True)
    merge_table(f, fdef, classes['MemoryViewSliceNode'], classes['MemoryViewIndexNode'], report, mods, want_ellipsis, inst)
    # positive control: a slice with a step taken for a full slice
    hits = []
    pf, pmods = folder()
    pc_slice = ast.ClassDef(name='MemoryViewSliceNode', bases=[], keywords=[], body=[ast.parse(_MERGE_PC).body[1]], decorator_list=[])
    pc_index = ast.ClassDef(name='MemoryViewIndexNode', bases=[], keywords=[], body=[], decorator_list=[])
    merge_table(pf, ast.parse(_MERGE_PC).body[0], pc_slice, pc_index, lambda cat, msg: hits.append(cat), pmods, False, lambda *a: None, only_ndim=1)
    r.positive_control(any(h.startswith('merged') and h.endswith(':partial-slice') for h in hits),
                       'merged_indices that takes `::c` for a full slice: m[::c][i] compiled as m[i]')
    return r


def rule_merge(ctx):
    """second-level index lists over integers and slices: every entry consumes exactly one axis of the slice"""
    return _rule_merge(ctx, 'C16-MERGE', False, 900)


def rule_merge_newaxis(ctx):
    """second-level index lists that contain None or an Ellipsis (entries that consume no / several axes)"""
    return _rule_merge(ctx, 'C16-MERGE-NEW', True, 1700)
