"""C50-EOF: the decision "token / clean end of file / unrecognised input" taken by Scanner.scan_a_token.

"Input no rule matches is reported as an error": when the machine returns no action, the scanner may report a clean end
of file only if the failed scan consumed nothing (cur_pos == start_pos) and the current symbol is the EOF marker.  A scan
that advanced (it took the implicit EOL of an unterminated last line, say) and then blocked on EOF dropped real input.

The statements of scan_a_token before and after the call of the machine are evaluated by the checker-owned guard
evaluator (pC50.Mini) over the complete abstract domain
    action in {None, an action}  x  scan advanced in {no, yes}  x  cur_char in {EOF, EOL, BOL, '', None, 'x', '\\n'}
and the outcome class (returns (text, action) / returns (_, None) / raises / falls off the end) is compared with the
table the property requires.  Points on which the property says nothing (nothing consumed and the symbol is a
pseudo-character other than EOF) are evaluated but not constrained.  No repository code is imported or run.
"""
import ast

from ..core import Rule, AnalysisError, node_src
from ..engine.pyindex import walk_no_nested, is_self_attr
from .pC50 import Mini, UNK, NS, Unmodelled, _model

ADVANCE = (('at-start', 0), ('advanced', 2))


def _machine_call(cls, fn):
    """index of the top-level statement `x = self.<m>()` of fn where <m> is the method holding the scan loop"""
    loops = {m.name for m in cls.body if isinstance(m, ast.FunctionDef) and any(isinstance(n, ast.While) for n in walk_no_nested(m))}
    for i, s in enumerate(fn.body):
        if isinstance(s, ast.Assign) and len(s.targets) == 1 and isinstance(s.targets[0], ast.Name) and isinstance(s.value, ast.Call) \
                and is_self_attr(s.value.func) and s.value.func.attr in loops and not s.value.args:
            return i, s.targets[0].id, s.value.func.attr
    raise AnalysisError('%s: top-level `action = self.<scan loop method>()` not found' % fn.name)


def scan_decisions(fn, cls, consts):
    """-> {(action?, advance name, char name): outcome class}"""
    idx, target, callee = _machine_call(cls, fn)
    chars = [('EOF', consts['EOF']), ('EOL', consts['EOL']), ('BOL', consts['BOL']), ("''", ''), ('None', None), ("'x'", 'x'), ("'\\n'", '\n')]
    out = {}
    ACTION = NS(kind='action')
    for has_action in (False, True):
        for aname, adv in ADVANCE:
            for cname, ch in chars:
                me = NS(cur_pos=7, start_pos=UNK, cur_char=consts['BOL'], cur_line=3, cur_line_start=5, trace=0, buf_start_pos=0,
                        name=UNK, buffer=UNK, state_name=UNK, text=UNK, input_state=1, next_pos=8)
                env = dict(consts)
                env[fn.args.args[0].arg] = me
                mini = Mini()
                classes = set()
                for e, sig in mini.block(fn.body[:idx], env):
                    if sig is not None:
                        raise Unmodelled('%s leaves before the machine is run' % fn.name)
                    this = e[fn.args.args[0].arg]
                    if this.cur_pos is UNK or not isinstance(this.cur_pos, int):
                        raise Unmodelled('cur_pos is not determined before the machine is run')
                    # effect of the machine on the scanner object, as decided for run_machine_inlined by C50-BACKUP / C50-INPUT:
                    # positions advance monotonically, cur_char is the symbol the machine blocked on (or the backed-up one)
                    this.cur_pos = this.cur_pos + adv
                    this.cur_char = ch
                    e[target] = ACTION if has_action else None
                    for e2, sig2 in mini.block(fn.body[idx + 1:], e):
                        if sig2 is None:
                            classes.add('falls-off-the-end')
                        elif sig2[0] == 'raise':
                            classes.add('error')
                        elif sig2[0] == 'return':
                            v = sig2[1]
                            if isinstance(v, tuple) and len(v) == 2 and v[1] is None:
                                classes.add('end-of-file')
                            elif isinstance(v, tuple) and len(v) == 2 and v[1] is ACTION:
                                classes.add('token')
                            else:
                                raise Unmodelled('return value %r is not a (text, action) pair' % (v,))
                        else:
                            raise Unmodelled('unexpected exit %r' % (sig2,))
                if len(classes) != 1:
                    raise Unmodelled('outcome for (%s, %s, %s) not determined: %s' % (has_action, aname, cname, sorted(classes)))
                out[(has_action, aname, cname)] = classes.pop()
    return out


def required(has_action, aname, cname):
    """outcome class the property requires, or None (not constrained)"""
    if has_action:
        return 'token'
    if aname == 'advanced':
        return 'error'
    if cname == 'EOF':
        return 'end-of-file'
    if cname in ("'x'", "'\\n'"):
        return 'error'
    return None


WHY = {
    ('advanced', 'end-of-file'): 'the failed scan consumed input (cur_pos moved past start_pos, e.g. the implicit EOL of an unterminated last line) but is reported as a clean '
                                 'end of file: the unmatched tail of the input is dropped silently instead of raising UnrecognizedInput',
    ('at-start', 'error'): 'nothing was consumed and the current symbol is the EOF marker, yet an error is raised: every input ends in UnrecognizedInput',
    ('at-start', 'end-of-file'): 'an ordinary character that no rule matches is reported as a clean end of file instead of UnrecognizedInput',
}


def rule_eof(px):
    r = Rule('C50-EOF', 'Scanner.scan_a_token: with no action, a clean end of file is reported exactly when nothing was consumed and the symbol is EOF; a scan that advanced, or an '
             'ordinary unmatched character, raises; a found action is always returned (decision table over action x advanced x symbol class)', floor=20)
    cls = px.cls('Scanners', 'Scanner')
    fn = px.method('Scanners', 'Scanner', 'scan_a_token')
    consts = {n: px.const('Scanners', n) for n in ('BOL', 'EOL', 'EOF')}
    if any(not isinstance(v, str) for v in consts.values()):
        raise AnalysisError('Scanners: BOL/EOL/EOF do not resolve to the Regexps constants')
    # read() must treat action None as end of file: the pair returned here is what it unpacks
    table = _model('Scanner.scan_a_token', lambda: scan_decisions(fn, cls, consts))
    for (has_action, aname, cname), got in sorted(table.items(), key=str):
        want = required(has_action, aname, cname)
        key = 'Scanners.Scanner.scan_a_token:%s:%s:%s' % ('action' if has_action else 'no-action', aname, cname)
        r.inst(key, sample='%s -> %s%s' % (key.split(':', 1)[1], got, '' if want else ' (not constrained)'), nontrivial=want is not None)
        if want is not None and got != want:
            r.violate(key, px.rel('Scanners'), fn.lineno,
                      'scan_a_token yields %r where %r is required (%s, scan %s, current symbol %s): %s' % (
                          got, want, 'the machine returned an action' if has_action else 'the machine returned no action', aname, cname,
                          WHY.get((aname, got), 'a recognised token must be handed to read()' if has_action else 'unmatched input must raise UnrecognizedInput')))
    pc = ast.parse("class Scanner:\n  def run(self):\n    while 1:\n      pass\n  def scan_a_token(self):\n    self.start_pos = self.cur_pos\n    action = self.run()\n    if action is not None:\n"
                   "      return (self.buffer[1:2], action)\n    if self.cur_pos == self.start_pos and self.cur_char is None or self.cur_char is EOF:\n      return ('', None)\n"
                   "    raise Errors.UnrecognizedInput(self, self.state_name)\n").body[0]
    t = scan_decisions(pc.body[1], pc, consts)
    r.positive_control(t[(False, 'advanced', 'EOF')] == 'end-of-file' and t[(False, 'at-start', 'EOF')] == 'end-of-file' and t[(False, 'advanced', "'x'")] == 'error',
                       'position guard not applied to the EOF alternative (and/or precedence)')
    return r
