"""C50-EOF: the decision "token / clean end of file / unrecognised input" taken by Scanner.scan_a_token.

"Input no rule matches is reported as an error": when the machine returns no action, the scanner may report a clean end
of file only if the failed scan consumed nothing (cur_pos == start_pos) and the current symbol is the EOF marker.  A scan
that advanced (it took the implicit EOL of an unterminated last line, say) and then blocked on EOF dropped real input.

The statements of scan_a_token before and after the call of the machine are evaluated by the checker-owned guard
evaluator (pC50.Mini) over the complete abstract domain
    action in {None, an action}  x  scan advanced in {no, yes}  x  cur_char in {EOF, EOL, BOL, '', None, 'x', '\\n'}
and the outcome class (returns (text, action) / returns (_, None) / raises / falls off the end) is compared with the
table the property requires.  Points on which the property says nothing (nothing consumed and the symbol is a
pseudo-character other than EOF) are evaluated but not constrained.  No repository code is imported or run.
"""
import ast

from ..core import Rule, AnalysisError, node_src
from ..engine.pyindex import walk_no_nested, is_self_attr
from .pC50 import Mini, UNK, NS, Unmodelled, _model, PLEX

ADVANCE = (('at-start', 0), ('advanced', 2))


def _machine_call(cls, fn):
    """index of the top-level statement `x = self.<m>()` of fn where <m> is the method holding the scan loop"""
    loops = {m.name for m in cls.body if isinstance(m, ast.FunctionDef) and any(isinstance(n, ast.While) for n in walk_no_nested(m))}
    for i, s in enumerate(fn.body):
        if isinstance(s, ast.Assign) and len(s.targets) == 1 and isinstance(s.targets[0], ast.Name) and isinstance(s.value, ast.Call) \
                and is_self_attr(s.value.func) and s.value.func.attr in loops and not s.value.args:
            return i, s.targets[0].id, s.value.func.attr
    raise AnalysisError('%s: top-level `action = self.<scan loop method>()` not found' % fn.name)


def scan_decisions(fn, cls, consts):
    """-> {(action?, advance name, char name): outcome class}"""
    idx, target, callee = _machine_call(cls, fn)
    chars = [('EOF', consts['EOF']), ('EOL', consts['EOL']), ('BOL', consts['BOL']), ("''", ''), ('None', None), ("'x'", 'x'), ("'\\n'", '\n')]
    out = {}
    ACTION = NS(kind='action')
    for has_action in (False, True):
        for aname, adv in ADVANCE:
            for cname, ch in chars:
                me = NS(cur_pos=7, start_pos=UNK, cur_char=consts['BOL'], cur_line=3, cur_line_start=5, trace=0, buf_start_pos=0,
                        name=UNK, buffer=UNK, state_name=UNK, text=UNK, input_state=1, next_pos=8)
                env = dict(consts)
                env[fn.args.args[0].arg] = me
                mini = Mini()
                classes = set()
                for e, sig in mini.block(fn.body[:idx], env):
                    if sig is not None:
                        raise Unmodelled('%s leaves before the machine is run' % fn.name)
                    this = e[fn.args.args[0].arg]
                    if this.cur_pos is UNK or not isinstance(this.cur_pos, int):
                        raise Unmodelled('cur_pos is not determined before the machine is run')
                    # effect of the machine on the scanner object, as decided for run_machine_inlined by C50-BACKUP / C50-INPUT:
                    # positions advance monotonically, cur_char is the symbol the machine blocked on (or the backed-up one)
                    this.cur_pos = this.cur_pos + adv
                    this.cur_char = ch
                    e[target] = ACTION if has_action else None
                    for e2, sig2 in mini.block(fn.body[idx + 1:], e):
                        if sig2 is None:
                            classes.add('falls-off-the-end')
                        elif sig2[0] == 'raise':
                            classes.add('error')
                        elif sig2[0] == 'return':
                            v = sig2[1]
                            if isinstance(v, tuple) and len(v) == 2 and v[1] is None:
                                classes.add('end-of-file')
                            elif isinstance(v, tuple) and len(v) == 2 and v[1] is ACTION:
                                classes.add('token')
                            else:
                                raise Unmodelled('return value %r is not a (text, action) pair' % (v,))
                        else:
                            raise Unmodelled('unexpected exit %r' % (sig2,))
                if len(classes) != 1:
                    raise Unmodelled('outcome for (%s, %s, %s) not determined: %s' % (has_action, aname, cname, sorted(classes)))
                out[(has_action, aname, cname)] = classes.pop()
    return out


def required(has_action, aname, cname):
    """outcome class the property requires, or None (not constrained)"""
    if has_action:
        return 'token'
    if aname == 'advanced':
        return 'error'
    if cname == 'EOF':
        return 'end-of-file'
    if cname in ("'x'", "'\\n'"):
        return 'error'
    return None


WHY = {
    ('advanced', 'end-of-file'): 'the failed scan consumed input (cur_pos moved past start_pos, e.g. the implicit EOL of an unterminated last line) but is reported as a clean '
                                 'end of file: the unmatched tail of the input is dropped silently instead of raising UnrecognizedInput',
    ('at-start', 'error'): 'nothing was consumed and the current symbol is the EOF marker, yet an error is raised: every input ends in UnrecognizedInput',
    ('at-start', 'end-of-file'): 'an ordinary character that no rule matches is reported as a clean end of file instead of UnrecognizedInput',
}


def rule_eof(px):
    r = Rule('C50-EOF', 'Scanner.scan_a_token: with no action, a clean end of file is reported exactly when nothing was consumed and the symbol is EOF; a scan that advanced, or an '
             'ordinary unmatched character, raises; a found action is always returned (decision table over action x advanced x symbol class)', floor=20)
    cls = px.cls('Scanners', 'Scanner')
    fn = px.method('Scanners', 'Scanner', 'scan_a_token')
    consts = {n: px.const('Scanners', n) for n in ('BOL', 'EOL', 'EOF')}
    if any(not isinstance(v, str) for v in consts.values()):
        raise AnalysisError('Scanners: BOL/EOL/EOF do not resolve to the Regexps constants')
    # read() must treat action None as end of file: the pair returned here is what it unpacks
    table = _model('Scanner.scan_a_token', lambda: scan_decisions(fn, cls, consts))
    for (has_action, aname, cname), got in sorted(table.items(), key=str):
        want = required(has_action, aname, cname)
        key = 'Scanners.Scanner.scan_a_token:%s:%s:%s' % ('action' if has_action else 'no-action', aname, cname)
        r.inst(key, sample='%s -> %s%s' % (key.split(':', 1)[1], got, '' if want else ' (not constrained)'), nontrivial=want is not None)
        if want is not None and got != want:
            r.violate(key, px.rel('Scanners'), fn.lineno,
                      'scan_a_token yields %r where %r is required (%s, scan %s, current symbol %s): %s' % (
                          got, want, 'the machine returned an action' if has_action else 'the machine returned no action', aname, cname,
                          WHY.get((aname, got), 'a recognised token must be handed to read()' if has_action else 'unmatched input must raise UnrecognizedInput')))
    pc = ast.parse("class Scanner:\n  def run(self):\n    while 1:\n      pass\n  def scan_a_token(self):\n    self.start_pos = self.cur_pos\n    action = self.run()\n    if action is not None:\n"
                   "      return (self.buffer[1:2], action)\n    if self.cur_pos == self.start_pos and self.cur_char is None or self.cur_char is EOF:\n      return ('', None)\n"
                   "    raise Errors.UnrecognizedInput(self, self.state_name)\n").body[0]
    t = scan_decisions(pc.body[1], pc, consts)
    r.positive_control(t[(False, 'advanced', 'EOF')] == 'end-of-file' and t[(False, 'at-start', 'EOF')] == 'end-of-file' and t[(False, 'advanced', "'x'")] == 'error',
                       'position guard not applied to the EOF alternative (and/or precedence)')
    return r


# ======================================================================================================================
#  PyEval - a checker-owned evaluator for small, pure Python functions of the analysed tree
# ======================================================================================================================
# Rules use it for FINITE-DOMAIN evaluation only: the function under analysis inspects its arguments through a handful of
# comparisons, so its inputs fall into finitely many classes (order types of a few code points, the kinds of a statement,
# nesting levels up to a stated bound); every class is evaluated once through a representative and the result is compared
# with a reference the checker computes itself.  The AST of the repository function is interpreted by this class - nothing
# from the repository is imported, compiled or exec'ed by CPython.  A construct outside the supported fragment raises
# EvalError (-> ANALYSIS-ERROR or r.info at the caller's choice), never a guess.
import re as _re
import functools as _functools


class EvalError(Exception):
    """construct outside the fragment the evaluator models (or step budget exhausted)"""


class PyRaise(Exception):
    """an exception raised by the interpreted program; .exc is a native exception instance or an Obj of an interpreted exception class"""

    def __init__(self, exc):
        Exception.__init__(self, repr(exc))
        self.exc = exc


class _Ret(Exception):
    def __init__(self, value):
        self.value = value


class _Brk(Exception):
    pass


class _Cont(Exception):
    pass


class Opaque:
    """a module-level name whose value the evaluator could not establish; any use is an EvalError"""

    def __init__(self, why):
        self.why = why


class Obj:
    def __init__(self, cls):
        self.cls = cls
        self.attrs = {}

    def __repr__(self):
        return '<%s object>' % self.cls.name


class Cls:
    def __init__(self, name, bases, module):
        self.name, self.bases, self.module, self.attrs = name, bases, module, {}

    def mro(self):
        out = [self]
        for b in self.bases:
            if isinstance(b, Cls):
                for c in b.mro():
                    if c not in out:
                        out.append(c)
        return out

    def native_base(self):
        for c in self.mro():
            for b in c.bases:
                if not isinstance(b, Cls):
                    return b
        return None

    def lookup(self, name):
        for c in self.mro():
            if name in c.attrs:
                return c, c.attrs[name]
        return None, None

    def __repr__(self):
        return '<class %s>' % self.name


class Func:
    def __init__(self, node, closure, module, owner=None, defaults=(), kwdefaults=None):
        self.node, self.closure, self.module, self.owner = node, closure, module, owner
        self.defaults, self.kwdefaults = list(defaults), dict(kwdefaults or {})
        self.name = getattr(node, 'name', '<lambda>')
        self.attrs = {}

    def __repr__(self):
        return '<function %s>' % self.name


class Bound:
    def __init__(self, func, obj):
        self.func, self.obj = func, obj


class Prop:
    def __init__(self, fget):
        self.fget = fget


class Env:
    def __init__(self, parent, module):
        self.vars, self.parent, self.module = {}, parent, module
        self.nonlocals, self.globals = set(), set()

    def find(self, name):
        e = self
        while e is not None:
            if name in e.vars:
                return e
            e = e.parent
        return None


class Mod:
    def __init__(self, name):
        self.name, self.vars = name, {}


_NATIVE_EXC = {n: getattr(__builtins__, n) if not isinstance(__builtins__, dict) else __builtins__[n] for n in (
    'Exception', 'KeyError', 'IndexError', 'ValueError', 'TypeError', 'AttributeError', 'StopIteration', 'NotImplementedError',
    'AssertionError', 'LookupError', 'OSError', 'RuntimeError', 'ZeroDivisionError', 'OverflowError')}
_PURE_BUILTINS = {'len': len, 'ord': ord, 'chr': chr, 'list': list, 'tuple': tuple, 'set': set, 'frozenset': frozenset, 'dict': dict, 'str': str,
                  'int': int, 'bool': bool, 'float': float, 'range': range, 'enumerate': enumerate, 'zip': zip, 'repr': repr, 'abs': abs, 'sum': sum,
                  'any': any, 'all': all, 'reversed': reversed, 'iter': iter, 'divmod': divmod, 'bytes': bytes, 'object': object}
_METHODS = {
    str: {'strip', 'lstrip', 'rstrip', 'split', 'rsplit', 'join', 'format', 'replace', 'startswith', 'endswith', 'lower', 'upper', 'find', 'rfind', 'count',
          'encode', 'isdigit', 'isalpha', 'isalnum', 'isspace', 'splitlines', 'index', 'partition', 'rpartition', 'title', 'zfill'},
    bytes: {'startswith', 'endswith', 'decode', 'find', 'count'},
    list: {'append', 'extend', 'insert', 'pop', 'sort', 'reverse', 'index', 'copy', 'count', 'remove', 'clear'},
    dict: {'get', 'items', 'keys', 'values', 'setdefault', 'pop', 'update', 'copy', 'clear'},
    set: {'add', 'update', 'union', 'copy', 'discard', 'remove', 'intersection', 'difference', 'issubset', 'issuperset', 'pop', 'clear'},
    frozenset: {'union', 'copy', 'intersection', 'difference', 'issubset', 'issuperset'},
    tuple: {'index', 'count'},
    _re.Match: {'groups', 'group', 'end', 'start', 'span', 'groupdict'},
    _re.Pattern: {'match', 'search', 'finditer', 'sub', 'fullmatch', 'findall', 'split'},
}
_BINOPS = {ast.Add: lambda a, b: a + b, ast.Sub: lambda a, b: a - b, ast.Mult: lambda a, b: a * b, ast.Pow: lambda a, b: a ** b,
           ast.FloorDiv: lambda a, b: a // b, ast.Div: lambda a, b: a / b, ast.Mod: lambda a, b: a % b, ast.BitAnd: lambda a, b: a & b,
           ast.BitOr: lambda a, b: a | b, ast.BitXor: lambda a, b: a ^ b, ast.LShift: lambda a, b: a << b, ast.RShift: lambda a, b: a >> b}
_NATIVE_OK = (int, str, bytes, float, bool, type(None), list, tuple, dict, set, frozenset, range)


class PyEval:
    def __init__(self, max_steps=400000, decorators=None):
        self.max_steps, self.steps = max_steps, 0
        self.decorators = decorators or {}      # decorator name -> 'identity' | python callable(Func) -> value
        self.modules = {}
        self.set_order = None                   # optional key function: the order in which `for x in <set>` visits the members (default: the host's order)

    # ------------------------------------------------------------------------------------------------------ modules
    def load_module(self, name, tree, presets=None, imports=None):
        """interpret the module-level statements of `tree`; names that cannot be established become Opaque"""
        mod = Mod(name)
        mod.vars.update(presets or {})
        self.modules[name] = mod
        env = Env(None, mod)
        env.vars = mod.vars
        self._module_body(tree.body, env, imports or {})
        return mod

    def _module_body(self, stmts, env, imports):
        for s in stmts:
            if isinstance(s, (ast.Import, ast.ImportFrom)):
                for a in s.names:
                    nm = a.asname or a.name.split('.')[0]
                    key = (getattr(s, 'module', None) or '') + ':' + a.name if isinstance(s, ast.ImportFrom) else a.name
                    if nm in env.vars and not isinstance(env.vars[nm], Opaque):
                        continue
                    if key in imports:
                        env.vars[nm] = imports[key]
                    elif nm in imports:
                        env.vars[nm] = imports[nm]
                    else:
                        env.vars[nm] = Opaque('import %s' % key)
                continue
            if isinstance(s, ast.If):
                try:
                    t = self.ev(s.test, env)
                except (EvalError, PyRaise):
                    continue
                self._module_body(s.body if t else s.orelse, env, imports)
                continue
            if isinstance(s, ast.Try):
                self._module_body(s.body, env, imports)
                continue
            saved = self.steps
            try:
                self.exec_stmt(s, env)
            except (EvalError, PyRaise) as e:
                for t in (s.targets if isinstance(s, ast.Assign) else [s.target] if isinstance(s, (ast.AnnAssign, ast.AugAssign)) else []):
                    for n in ast.walk(t):
                        if isinstance(n, ast.Name) and n.id not in env.vars:
                            env.vars[n.id] = Opaque(str(e))
                if isinstance(s, (ast.FunctionDef, ast.ClassDef)):
                    env.vars[s.name] = Opaque(str(e))
            self.steps = saved

    # ------------------------------------------------------------------------------------------------------ calling
    def wrap(self, f):
        """a python callable for an interpreted function (for key= / map() callbacks handed to native code)"""
        if isinstance(f, (Func, Bound, Cls)):
            return lambda *a, **k: self.call(f, list(a), k)
        return f

    def call(self, f, args, kwargs=None):
        kwargs = kwargs or {}
        if isinstance(f, Opaque):
            raise EvalError('call of a value the evaluator could not establish (%s)' % f.why)
        if isinstance(f, Bound):
            return self.call(f.func, [f.obj] + list(args), kwargs)
        if isinstance(f, Func):
            return self._call_func(f, list(args), kwargs)
        if isinstance(f, Cls):
            return self._instantiate(f, list(args), kwargs)
        if callable(f):
            try:
                return f(*[self.wrap(a) for a in args], **{k: self.wrap(v) for k, v in kwargs.items()})
            except (EvalError, PyRaise, _Ret, _Brk, _Cont):
                raise
            except Exception as e:      # a native operation of the interpreted program failed: that is the program's exception
                raise PyRaise(e)
        raise PyRaise(TypeError('%r is not callable' % (f,)))

    def _instantiate(self, cls, args, kwargs):
        nb = cls.native_base()
        if nb is not None and isinstance(nb, type) and issubclass(nb, BaseException):
            o = Obj(cls)
            o.attrs['args'] = tuple(args)
            _, init = cls.lookup('__init__')
            if isinstance(init, Func):
                self._call_func(init, [o] + args, kwargs)
            return o
        o = Obj(cls)
        _, init = cls.lookup('__init__')
        if isinstance(init, Func):
            self._call_func(init, [o] + args, kwargs)
        elif args or kwargs:
            raise PyRaise(TypeError('%s() takes no arguments' % cls.name))
        return o

    def _call_func(self, f, args, kwargs):
        node = f.node
        a = node.args
        env = Env(f.closure, f.module)
        env.func = f
        params = [p.arg for p in a.posonlyargs + a.args]
        nreq = len(params) - len(f.defaults)
        if len(args) > len(params) and a.vararg is None:
            raise PyRaise(TypeError('%s() takes %d positional arguments but %d were given' % (f.name, len(params), len(args))))
        for i, p in enumerate(params):
            if i < len(args):
                env.vars[p] = args[i]
            elif p in kwargs:
                env.vars[p] = kwargs.pop(p)
            elif i >= nreq:
                env.vars[p] = f.defaults[i - nreq]
            else:
                raise PyRaise(TypeError('%s() missing required argument %r' % (f.name, p)))
        if a.vararg is not None:
            env.vars[a.vararg.arg] = tuple(args[len(params):])
        for p in a.kwonlyargs:
            if p.arg in kwargs:
                env.vars[p.arg] = kwargs.pop(p.arg)
            elif p.arg in f.kwdefaults:
                env.vars[p.arg] = f.kwdefaults[p.arg]
            else:
                raise PyRaise(TypeError('%s() missing keyword argument %r' % (f.name, p.arg)))
        if a.kwarg is not None:
            env.vars[a.kwarg.arg] = dict(kwargs)
        elif kwargs:
            raise PyRaise(TypeError('%s() got an unexpected keyword argument %r' % (f.name, sorted(kwargs)[0])))
        if isinstance(node, ast.Lambda):
            return self.ev(node.body, env)
        is_gen = getattr(node, '_sa_is_generator', None)
        if is_gen is None:
            is_gen = node._sa_is_generator = any(isinstance(n, (ast.Yield, ast.YieldFrom)) for n in walk_no_nested(node))
        if is_gen:
            raise EvalError('generator function %s' % f.name)
        try:
            self.exec_block(node.body, env)
        except _Ret as r:
            return r.value
        return None

    # ------------------------------------------------------------------------------------------------------ statements
    def tick(self):
        self.steps += 1
        if self.steps > self.max_steps:
            raise EvalError('step budget of %d exhausted (non-terminating loop?)' % self.max_steps)

    def exec_block(self, stmts, env):
        for s in stmts:
            self.exec_stmt(s, env)

    def exec_stmt(self, s, env):
        self.tick()
        if isinstance(s, ast.Expr):
            if not isinstance(s.value, ast.Constant):
                self.ev(s.value, env)
        elif isinstance(s, ast.Assign):
            v = self.ev(s.value, env)
            for t in s.targets:
                self.assign(t, v, env)
        elif isinstance(s, ast.AnnAssign):
            if s.value is not None:
                self.assign(s.target, self.ev(s.value, env), env)
        elif isinstance(s, ast.AugAssign):
            op = _BINOPS.get(type(s.op))
            if op is None:
                raise EvalError('augmented operator %s' % type(s.op).__name__)
            load = copy_load(s.target)
            cur = self.ev(load, env)
            val = self.ev(s.value, env)
            if isinstance(cur, list) and isinstance(s.op, ast.Add):
                cur.extend(val)
                new = cur
            elif isinstance(cur, set) and isinstance(s.op, ast.BitOr):
                cur.update(val)
                new = cur
            else:
                new = self.native(op, cur, val)
            self.assign(s.target, new, env)
        elif isinstance(s, ast.If):
            self.exec_block(s.body if self.truth(self.ev(s.test, env)) else s.orelse, env)
        elif isinstance(s, ast.While):
            broke = False
            while self.truth(self.ev(s.test, env)):
                self.tick()
                try:
                    self.exec_block(s.body, env)
                except _Brk:
                    broke = True
                    break
                except _Cont:
                    continue
            if not broke:
                self.exec_block(s.orelse, env)
        elif isinstance(s, ast.For):
            broke = False
            for item in self.iterate(self.ev(s.iter, env)):
                self.tick()
                self.assign(s.target, item, env)
                try:
                    self.exec_block(s.body, env)
                except _Brk:
                    broke = True
                    break
                except _Cont:
                    continue
            if not broke:
                self.exec_block(s.orelse, env)
        elif isinstance(s, ast.Return):
            raise _Ret(self.ev(s.value, env) if s.value is not None else None)
        elif isinstance(s, ast.Break):
            raise _Brk()
        elif isinstance(s, ast.Continue):
            raise _Cont()
        elif isinstance(s, ast.Pass):
            pass
        elif isinstance(s, ast.FunctionDef):
            env_assign(env, s.name, self.make_function(s, env))
        elif isinstance(s, ast.ClassDef):
            env_assign(env, s.name, self.make_class(s, env))
        elif isinstance(s, ast.Nonlocal):
            env.nonlocals.update(s.names)
        elif isinstance(s, ast.Global):
            env.globals.update(s.names)
        elif isinstance(s, ast.Assert):
            if not self.truth(self.ev(s.test, env)):
                raise PyRaise(AssertionError(node_src(s.test)))
        elif isinstance(s, ast.Raise):
            if s.exc is None:
                cur = getattr(env, 'handling', None)
                e = env
                while cur is None and e is not None:
                    cur = getattr(e, 'handling', None)
                    e = e.parent
                if cur is None:
                    raise PyRaise(RuntimeError('No active exception to reraise'))
                raise PyRaise(cur)
            exc = self.ev(s.exc, env)
            if isinstance(exc, Cls) or (isinstance(exc, type) and issubclass(exc, BaseException)):
                exc = self.call(exc, [])
            raise PyRaise(exc)
        elif isinstance(s, ast.Try):
            self.exec_try(s, env)
        elif isinstance(s, ast.Delete):
            for t in s.targets:
                if isinstance(t, ast.Subscript):
                    base = self.ev(t.value, env)
                    idx = self.ev_slice(t.slice, env)
                    self.native(lambda b, i: b.__delitem__(i), base, idx)
                elif isinstance(t, ast.Name):
                    e = env.find(t.id)
                    if e is None:
                        raise PyRaise(NameError(t.id))
                    del e.vars[t.id]
                elif isinstance(t, ast.Attribute):
                    base = self.ev(t.value, env)
                    if isinstance(base, Obj) and t.attr in base.attrs:
                        del base.attrs[t.attr]
                    else:
                        raise PyRaise(AttributeError(t.attr))
                else:
                    raise EvalError('del %s' % node_src(t))
        elif isinstance(s, ast.With):
            managers = []
            for item in s.items:
                cm = self.ev(item.context_expr, env)
                v = self.call(self.getattr(cm, '__enter__'), [])
                managers.append(cm)
                if item.optional_vars is not None:
                    self.assign(item.optional_vars, v, env)
            try:
                self.exec_block(s.body, env)
            finally:
                for cm in reversed(managers):
                    self.call(self.getattr(cm, '__exit__'), [None, None, None])
        elif isinstance(s, (ast.Import, ast.ImportFrom)):
            raise EvalError('import inside interpreted code: %s' % node_src(s))
        else:
            raise EvalError('statement %s' % type(s).__name__)

    def exec_try(self, s, env):
        try:
            try:
                self.exec_block(s.body, env)
            except PyRaise as pr:
                for h in s.handlers:
                    if h.type is None or self.exc_matches(pr.exc, self.ev(h.type, env)):
                        if h.name:
                            env_assign(env, h.name, pr.exc)
                        old = getattr(env, 'handling', None)
                        env.handling = pr.exc
                        try:
                            self.exec_block(h.body, env)
                        finally:
                            env.handling = old
                        break
                else:
                    raise
            else:
                self.exec_block(s.orelse, env)
        finally:
            if s.finalbody:
                self.exec_block(s.finalbody, env)

    def exc_matches(self, exc, spec):
        if isinstance(spec, tuple):
            return any(self.exc_matches(exc, x) for x in spec)
        if isinstance(spec, Cls):
            return isinstance(exc, Obj) and spec in exc.cls.mro()
        if isinstance(spec, type):
            if isinstance(exc, Obj):
                nb = exc.cls.native_base()
                return nb is not None and issubclass(nb, spec)
            return isinstance(exc, spec)
        raise EvalError('except clause type %r' % (spec,))

    def assign(self, t, v, env):
        if isinstance(t, ast.Name):
            env_assign(env, t.id, v)
        elif isinstance(t, (ast.Tuple, ast.List)):
            vals = list(self.iterate(v))
            star = [i for i, e in enumerate(t.elts) if isinstance(e, ast.Starred)]
            if star:
                i = star[0]
                after = len(t.elts) - i - 1
                if len(vals) < len(t.elts) - 1:
                    raise PyRaise(ValueError('not enough values to unpack'))
                parts = vals[:i] + [vals[i:len(vals) - after]] + vals[len(vals) - after:]
                for e, x in zip(t.elts, parts):
                    self.assign(e.value if isinstance(e, ast.Starred) else e, x, env)
            else:
                if len(vals) != len(t.elts):
                    raise PyRaise(ValueError('cannot unpack %d values into %d targets' % (len(vals), len(t.elts))))
                for e, x in zip(t.elts, vals):
                    self.assign(e, x, env)
        elif isinstance(t, ast.Attribute):
            base = self.ev(t.value, env)
            if isinstance(base, Obj):
                base.attrs[t.attr] = v
            elif isinstance(base, (Cls, Func)):
                base.attrs[t.attr] = v
            elif isinstance(base, Mod):
                base.vars[t.attr] = v
            elif isinstance(base, NS):
                setattr(base, t.attr, v)
            else:
                raise EvalError('attribute store on %r' % type(base).__name__)
        elif isinstance(t, ast.Subscript):
            base = self.ev(t.value, env)
            idx = self.ev_slice(t.slice, env)
            if not isinstance(base, (list, dict)):
                raise EvalError('item store on %r' % type(base).__name__)
            self.native(lambda b, i, x: b.__setitem__(i, x), base, idx, v)
        else:
            raise EvalError('assignment target %s' % type(t).__name__)

    # ------------------------------------------------------------------------------------------------------ definitions
    def make_function(self, node, env, owner=None):
        for d in getattr(node, 'decorator_list', []):
            dn = ast.unparse(d.func if isinstance(d, ast.Call) else d)
            if dn.startswith('cython.') or self.decorators.get(dn) == 'identity':
                continue
            if dn in ('property', 'staticmethod', 'classmethod') or dn in self.decorators:
                continue
            raise EvalError('decorator @%s on %s' % (dn, node.name))
        a = node.args
        defaults = [self.ev(d, env) for d in a.defaults]
        kwd = {p.arg: self.ev(d, env) for p, d in zip(a.kwonlyargs, a.kw_defaults) if d is not None}
        f = Func(node, env if env.parent is not None or env.vars is not env.module.vars else None, env.module, owner, defaults, kwd)
        for d in reversed(getattr(node, 'decorator_list', [])):
            dn = ast.unparse(d.func if isinstance(d, ast.Call) else d)
            if dn == 'property':
                return Prop(f)
            if dn == 'staticmethod':
                f.static = True
            elif dn in self.decorators and self.decorators[dn] != 'identity':
                dec = self.decorators[dn]
                if isinstance(dec, (Func, Bound)):
                    return self.call(dec, [f])
                return dec(f)
        return f

    def make_class(self, node, env):
        bases = []
        for b in node.bases:
            v = self.ev(b, env)
            if isinstance(v, Opaque):
                raise EvalError('base class of %s: %s' % (node.name, v.why))
            bases.append(v)
        c = Cls(node.name, bases, env.module)
        cenv = Env(env, env.module)
        for s in node.body:
            if isinstance(s, ast.FunctionDef):
                try:
                    c.attrs[s.name] = self.make_function(s, env, owner=c)
                except EvalError as e:
                    c.attrs[s.name] = Opaque(str(e))
                if isinstance(c.attrs[s.name], Func):
                    c.attrs[s.name].owner = c
                elif isinstance(c.attrs[s.name], Prop):
                    c.attrs[s.name].fget.owner = c
            elif isinstance(s, (ast.Assign, ast.AnnAssign)):
                try:
                    self.exec_stmt(s, cenv)
                except (EvalError, PyRaise) as e:
                    for t in (s.targets if isinstance(s, ast.Assign) else [s.target]):
                        if isinstance(t, ast.Name):
                            cenv.vars[t.id] = Opaque(str(e))
            elif isinstance(s, (ast.Expr, ast.Pass)):
                continue
            else:
                raise EvalError('class body statement %s in %s' % (type(s).__name__, node.name))
        c.attrs.update(cenv.vars)
        return c

    # ------------------------------------------------------------------------------------------------------ expressions
    def truth(self, v):
        if isinstance(v, Opaque):
            raise EvalError('truth value of a value the evaluator could not establish (%s)' % v.why)
        if isinstance(v, Obj):
            _, f = v.cls.lookup('__bool__')
            if isinstance(f, Func):
                return bool(self.call(f, [v]))
            _, f = v.cls.lookup('__len__')
            if isinstance(f, Func):
                return bool(self.call(f, [v]))
            return True
        return bool(v)

    def native(self, f, *args):
        try:
            return f(*args)
        except (EvalError, PyRaise, _Ret, _Brk, _Cont):
            raise
        except Exception as e:
            raise PyRaise(e)

    def iterate(self, v):
        if isinstance(v, Opaque):
            raise EvalError('iteration over a value the evaluator could not establish (%s)' % v.why)
        if isinstance(v, (Obj, Cls, Func, Mod)):
            raise EvalError('iteration over %r' % (v,))
        if self.set_order is not None and isinstance(v, (set, frozenset)):
            return iter(sorted(v, key=self.set_order))
        try:
            return iter(v)
        except TypeError as e:
            raise PyRaise(e)

    def ev_slice(self, sl, env):
        if isinstance(sl, ast.Slice):
            return slice(self.ev(sl.lower, env) if sl.lower is not None else None, self.ev(sl.upper, env) if sl.upper is not None else None,
                         self.ev(sl.step, env) if sl.step is not None else None)
        return self.ev(sl, env)

    def lookup(self, name, env):
        e = env.find(name)
        if e is not None:
            v = e.vars[name]
        elif name in env.module.vars:
            v = env.module.vars[name]
        elif name in _PURE_BUILTINS:
            return _PURE_BUILTINS[name]
        elif name in _NATIVE_EXC:
            return _NATIVE_EXC[name]
        elif name in ('isinstance', 'type', 'getattr', 'setattr', 'hasattr', 'sorted', 'min', 'max', 'map', 'filter', 'next', 'id', 'print', 'super', 'callable', 'issubclass', 'hash'):
            return ('builtin', name)
        else:
            raise PyRaise(NameError(name))
        return v

    def getattr(self, base, attr):
        if isinstance(base, Opaque):
            raise EvalError('attribute %s of a value the evaluator could not establish (%s)' % (attr, base.why))
        if isinstance(base, tuple) and len(base) == 3 and base[0] == 'super':
            _, owner, obj = base
            mro = obj.cls.mro() if isinstance(obj, Obj) else owner.mro()
            for c in mro[mro.index(owner) + 1:] if owner in mro else []:
                if attr in c.attrs:
                    v = c.attrs[attr]
                    return Bound(v, obj) if isinstance(v, Func) else v
            if attr == '__init__':
                return lambda *a, **k: None
            raise PyRaise(AttributeError('super object has no attribute %r' % attr))
        if isinstance(base, Obj):
            if attr in base.attrs:
                return base.attrs[attr]
            if attr == '__class__':
                return base.cls
            _, v = base.cls.lookup(attr)
            if v is None and attr not in [k for c in base.cls.mro() for k in c.attrs]:
                raise PyRaise(AttributeError('%s object has no attribute %r' % (base.cls.name, attr)))
            if isinstance(v, Func):
                return v if getattr(v, 'static', False) else Bound(v, base)
            if isinstance(v, Prop):
                return self.call(v.fget, [base])
            return v
        if isinstance(base, Cls):
            if attr in ('__name__', '__qualname__'):
                return base.name
            _, v = base.lookup(attr)
            if v is None and attr not in [k for c in base.mro() for k in c.attrs]:
                raise PyRaise(AttributeError('class %s has no attribute %r' % (base.name, attr)))
            return v
        if isinstance(base, Func):
            if attr in ('__name__', '__qualname__'):
                return base.name
            if attr in base.attrs:
                return base.attrs[attr]
            raise PyRaise(AttributeError(attr))
        if isinstance(base, Bound):
            return self.getattr(base.func, attr)
        if isinstance(base, Mod):
            if attr in base.vars:
                return base.vars[attr]
            raise PyRaise(AttributeError('module %s has no attribute %r' % (base.name, attr)))
        if isinstance(base, NS):
            if hasattr(base, attr):
                return getattr(base, attr)
            raise PyRaise(AttributeError(attr))
        for t, names in _METHODS.items():
            if isinstance(base, t) and not isinstance(base, bool) and attr in names:
                return getattr(base, attr)
        if isinstance(base, type) and base in _METHODS and attr in _METHODS[base]:
            return getattr(base, attr)          # unbound method of a builtin type, e.g. set.union handed around as a merge function
        if isinstance(base, BaseException) and attr == 'args':
            return base.args
        raise EvalError('attribute %r of a %s value' % (attr, type(base).__name__))

    def ev(self, n, env):
        self.tick()
        if isinstance(n, ast.Constant):
            return n.value
        if isinstance(n, ast.Name):
            v = self.lookup(n.id, env)
            return v
        if isinstance(n, ast.Attribute):
            return self.getattr(self.ev(n.value, env), n.attr)
        if isinstance(n, ast.BinOp):
            op = _BINOPS.get(type(n.op))
            if op is None:
                raise EvalError('operator %s' % type(n.op).__name__)
            a, b = self.ev(n.left, env), self.ev(n.right, env)
            self.need_native(a, n.left)
            self.need_native(b, n.right)
            return self.native(op, a, b)
        if isinstance(n, ast.UnaryOp):
            v = self.ev(n.operand, env)
            if isinstance(n.op, ast.Not):
                return not self.truth(v)
            self.need_native(v, n.operand)
            if isinstance(n.op, ast.USub):
                return self.native(lambda x: -x, v)
            if isinstance(n.op, ast.Invert):
                return self.native(lambda x: ~x, v)
            if isinstance(n.op, ast.UAdd):
                return self.native(lambda x: +x, v)
        if isinstance(n, ast.BoolOp):
            is_and = isinstance(n.op, ast.And)
            v = None
            for x in n.values:
                v = self.ev(x, env)
                if self.truth(v) != is_and:
                    return v
            return v
        if isinstance(n, ast.Compare):
            left = self.ev(n.left, env)
            for op, c in zip(n.ops, n.comparators):
                right = self.ev(c, env)
                if not self.compare(op, left, right):
                    return False
                left = right
            return True
        if isinstance(n, ast.IfExp):
            return self.ev(n.body if self.truth(self.ev(n.test, env)) else n.orelse, env)
        if isinstance(n, ast.Tuple):
            return tuple(self.ev_elts(n.elts, env))
        if isinstance(n, ast.List):
            return self.ev_elts(n.elts, env)
        if isinstance(n, ast.Set):
            return set(self.ev_elts(n.elts, env))
        if isinstance(n, ast.Dict):
            d = {}
            for k, v in zip(n.keys, n.values):
                if k is None:
                    d.update(self.ev(v, env))
                else:
                    d[self.ev(k, env)] = self.ev(v, env)
            return d
        if isinstance(n, ast.Subscript):
            base = self.ev(n.value, env)
            idx = self.ev_slice(n.slice, env)
            if isinstance(base, Opaque):
                raise EvalError('subscript of a value the evaluator could not establish (%s)' % base.why)
            if isinstance(base, Obj):
                _, f = base.cls.lookup('__getitem__')
                if isinstance(f, Func):
                    return self.call(f, [base, idx])
                raise PyRaise(TypeError('%s object is not subscriptable' % base.cls.name))
            if isinstance(base, _re.Match):
                return self.native(lambda b, i: b[i], base, idx)
            if not isinstance(base, _NATIVE_OK):
                raise EvalError('subscript of a %s value' % type(base).__name__)
            return self.native(lambda b, i: b[i], base, idx)
        if isinstance(n, ast.Call):
            return self.ev_call(n, env)
        if isinstance(n, (ast.ListComp, ast.SetComp, ast.GeneratorExp, ast.DictComp)):
            out = []
            self.comp(n, 0, Env(env, env.module), out)
            if isinstance(n, ast.SetComp):
                return set(out)
            if isinstance(n, ast.DictComp):
                return dict(out)
            return out      # a generator expression is materialised: its consumers here only iterate once
        if isinstance(n, ast.JoinedStr):
            out = ''
            for v in n.values:
                if isinstance(v, ast.Constant):
                    out += v.value
                else:
                    x = self.ev(v.value, env)
                    if v.conversion == 114:
                        x = repr(x)
                    elif v.conversion == 115:
                        x = str(x)
                    spec = self.ev(v.format_spec, env) if v.format_spec is not None else ''
                    self.need_native(x, v.value)
                    out += self.native(format, x, spec)
            return out
        if isinstance(n, ast.Lambda):
            a = n.args
            return Func(n, env, env.module, None, [self.ev(d, env) for d in a.defaults], {})
        if isinstance(n, ast.Starred):
            raise EvalError('starred expression outside a call')
        if isinstance(n, ast.NamedExpr):
            v = self.ev(n.value, env)
            self.assign(n.target, v, env)
            return v
        raise EvalError('expression %s' % type(n).__name__)

    def need_native(self, v, node):
        if isinstance(v, Opaque):
            raise EvalError('%s: value the evaluator could not establish (%s)' % (node_src(node, 40), v.why))
        if isinstance(v, (Obj, Cls, Func, Bound, Mod)):
            raise EvalError('arithmetic on interpreted object %r' % (v,))

    def ev_elts(self, elts, env):
        out = []
        for e in elts:
            if isinstance(e, ast.Starred):
                out.extend(self.iterate(self.ev(e.value, env)))
            else:
                out.append(self.ev(e, env))
        return out

    def comp(self, n, gi, env, out):
        if gi == len(n.generators):
            if isinstance(n, ast.DictComp):
                out.append((self.ev(n.key, env), self.ev(n.value, env)))
            else:
                out.append(self.ev(n.elt, env))
            return
        g = n.generators[gi]
        for item in self.iterate(self.ev(g.iter, env)):
            self.tick()
            self.assign(g.target, item, env)
            if all(self.truth(self.ev(c, env)) for c in g.ifs):
                self.comp(n, gi + 1, env, out)

    def compare(self, op, a, b):
        if isinstance(a, Opaque) or isinstance(b, Opaque):
            raise EvalError('comparison with a value the evaluator could not establish')
        if isinstance(op, ast.Is):
            return a is b
        if isinstance(op, ast.IsNot):
            return a is not b
        if isinstance(op, (ast.In, ast.NotIn)):
            if isinstance(b, Obj):
                _, f = b.cls.lookup('__contains__')
                if not isinstance(f, Func):
                    raise PyRaise(TypeError('argument of type %s is not iterable' % b.cls.name))
                r = self.truth(self.call(f, [b, a]))
            else:
                r = self.native(lambda x, y: x in y, a, b)
            return r if isinstance(op, ast.In) else not r
        for x, y, names in ((a, b, {ast.Lt: '__lt__', ast.Gt: '__gt__', ast.LtE: '__le__', ast.GtE: '__ge__', ast.Eq: '__eq__', ast.NotEq: '__ne__'}),):
            if isinstance(x, Obj) or isinstance(y, Obj):
                nm = names[type(op)]
                if isinstance(x, Obj):
                    _, f = x.cls.lookup(nm)
                    if isinstance(f, Func):
                        return self.truth(self.call(f, [x, y]))
                refl = {'__lt__': '__gt__', '__gt__': '__lt__', '__le__': '__ge__', '__ge__': '__le__', '__eq__': '__eq__', '__ne__': '__ne__'}[nm]
                if isinstance(y, Obj):
                    _, f = y.cls.lookup(refl)
                    if isinstance(f, Func):
                        return self.truth(self.call(f, [y, x]))
                if isinstance(op, ast.Eq):
                    return x is y
                if isinstance(op, ast.NotEq):
                    return x is not y
                raise PyRaise(TypeError('ordering not supported between interpreted objects'))
        f = {ast.Eq: lambda p, q: p == q, ast.NotEq: lambda p, q: p != q, ast.Lt: lambda p, q: p < q, ast.LtE: lambda p, q: p <= q,
             ast.Gt: lambda p, q: p > q, ast.GtE: lambda p, q: p >= q}[type(op)]
        return self.native(f, a, b)

    def _cmp_key(self):
        def cmp(a, b):
            if self.compare(ast.Lt(), a, b):
                return -1
            if self.compare(ast.Lt(), b, a):
                return 1
            return 0
        return _functools.cmp_to_key(cmp)

    def ev_call(self, n, env):
        # super() / super().m(...)
        f = self.ev(n.func, env)
        args = self.ev_elts(n.args, env)
        kwargs = {}
        for k in n.keywords:
            if k.arg is None:
                kwargs.update(self.ev(k.value, env))
            else:
                kwargs[k.arg] = self.ev(k.value, env)
        if isinstance(f, tuple) and len(f) == 2 and f[0] == 'builtin':
            return self.builtin(f[1], args, kwargs, env)
        return self.call(f, args, kwargs)

    def builtin(self, name, args, kwargs, env):
        if name == 'isinstance' or name == 'issubclass':
            x, spec = args
            specs = spec if isinstance(spec, tuple) else (spec,)
            for s in specs:
                if isinstance(s, Cls):
                    c = x.cls if (name == 'isinstance' and isinstance(x, Obj)) else x if isinstance(x, Cls) else None
                    if c is not None and s in c.mro():
                        return True
                elif isinstance(s, type):
                    if name == 'isinstance':
                        if isinstance(x, Obj):
                            nb = x.cls.native_base()
                            if nb is not None and issubclass(nb, s):
                                return True
                            if s is object:
                                return True
                        elif isinstance(x, (Cls, Func, Bound, Mod, Opaque)):
                            if s is object:
                                return True
                        elif isinstance(x, s):
                            return True
                    elif isinstance(x, type) and issubclass(x, s):
                        return True
                else:
                    raise EvalError('isinstance() against %r' % (s,))
            return False
        if name == 'type':
            (x,) = args
            if isinstance(x, Obj):
                return x.cls
            if isinstance(x, (Cls, Func, Bound, Mod, Opaque)):
                raise EvalError('type() of an interpreted %s' % type(x).__name__)
            return type(x)
        if name == 'getattr':
            try:
                return self.getattr(args[0], args[1])
            except PyRaise as e:
                if len(args) > 2 and isinstance(e.exc, AttributeError):
                    return args[2]
                raise
        if name == 'hasattr':
            try:
                self.getattr(args[0], args[1])
                return True
            except PyRaise as e:
                if isinstance(e.exc, AttributeError):
                    return False
                raise
        if name == 'setattr':
            o, a, v = args
            if isinstance(o, (Obj, Cls, Func)):
                o.attrs[a] = v
            elif isinstance(o, NS):
                setattr(o, a, v)
            else:
                raise EvalError('setattr on %r' % type(o).__name__)
            return None
        if name in ('sorted', 'min', 'max'):
            seq = list(self.iterate(args[0])) if len(args) == 1 else list(args)
            key = kwargs.get('key')
            if key is not None:
                kf = self.wrap(key)
            elif any(isinstance(x, Obj) for x in seq):
                kf = self._cmp_key()
            else:
                kf = None
            if name == 'sorted':
                return self.native(lambda: sorted(seq, key=kf, reverse=bool(kwargs.get('reverse', False))))
            if not seq and 'default' in kwargs:
                return kwargs['default']
            return self.native(lambda: (min if name == 'min' else max)(seq, key=kf) if kf else (min if name == 'min' else max)(seq))
        if name == 'map':
            f = self.wrap(args[0])
            return [self.native(f, *xs) for xs in zip(*[list(self.iterate(a)) for a in args[1:]])]
        if name == 'filter':
            f = self.wrap(args[0]) if args[0] is not None else (lambda x: x)
            return [x for x in self.iterate(args[1]) if self.truth(f(x))]
        if name == 'next':
            try:
                return next(args[0])
            except StopIteration as e:
                if len(args) > 1:
                    return args[1]
                raise PyRaise(e)
        if name == 'id':
            return id(args[0])
        if name == 'hash':
            return self.native(hash, args[0])
        if name == 'print':
            return None
        if name == 'callable':
            return isinstance(args[0], (Func, Bound, Cls)) or callable(args[0])
        if name == 'super':
            f = getattr(env, 'func', None)
            e = env
            while f is None and e is not None:
                f = getattr(e, 'func', None)
                e = e.parent
            if f is None or f.owner is None:
                raise EvalError('super() outside a method')
            selfname = f.node.args.args[0].arg
            return ('super', f.owner, self.lookup(selfname, env))
        raise EvalError('builtin %s' % name)


def copy_load(t):
    import copy
    t2 = copy.deepcopy(t)
    for n in ast.walk(t2):
        if hasattr(n, 'ctx'):
            n.ctx = ast.Load()
    return t2


def env_assign(env, name, v):
    if name in env.globals:
        env.module.vars[name] = v
        return
    if name in env.nonlocals:
        e = env.parent.find(name) if env.parent is not None else None
        if e is None:
            raise EvalError('nonlocal %s not found' % name)
        e.vars[name] = v
        return
    env.vars[name] = v


# ======================================================================================================================
#  rules built on PyEval (fourth round)
# ======================================================================================================================
class PlexModel:
    """the Plex modules loaded into one PyEval instance (Errors, Transitions, Machines, Regexps, Actions, DFA, Lexicons)"""

    ORDER = ('Errors', 'Transitions', 'Machines', 'Regexps', 'Actions', 'DFA', 'Lexicons')

    def __init__(self, px):
        self.px = px
        self.ev = PyEval(max_steps=3000000)
        self.mods = {}
        imports = {'cython': NS(compiled=False), 'types': NS()}
        for name in self.ORDER:
            tree = px.trees.get(name) or px.ctx.parse(PLEX + name + '.py')
            m = self.ev.load_module(name, tree, imports=imports)
            self.mods[name] = m
            imports[':' + name] = m
            imports[name] = m
            for k, v in m.vars.items():
                imports['%s:%s' % (name, k)] = v
                imports['Cython.Plex.%s:%s' % (name, k)] = v

    def get(self, mod, name):
        v = self.mods[mod].vars.get(name)
        if v is None or isinstance(v, Opaque):
            raise AnalysisError('Plex model: %s.%s could not be established by the evaluator%s' % (mod, name, (' (%s)' % v.why) if isinstance(v, Opaque) else ''))
        return v

    def call(self, mod, name, *args, **kw):
        return self.ev.call(self.get(mod, name), list(args), kw)

    def method(self, obj, name, *args, **kw):
        return self.ev.call(self.ev.getattr(obj, name), list(args), kw)


def _guard(desc, thunk):
    """run a PyEval computation; an unmodelled construct is an ANALYSIS-ERROR, an exception of the interpreted program is returned"""
    try:
        return thunk()
    except EvalError as e:
        raise AnalysisError('%s: outside the fragment the evaluator models (%s)' % (desc, e))
    except RecursionError:
        raise AnalysisError('%s: recursion too deep for the evaluator' % desc)


def norm_intervals(iv):
    """sorted union of half-open integer intervals"""
    out = []
    for lo, hi in sorted((a, b) for a, b in iv if a < b):
        if out and lo <= out[-1][1]:
            out[-1] = (out[-1][0], max(out[-1][1], hi))
        else:
            out.append((lo, hi))
    return out


def codes_to_intervals(codes):
    return norm_intervals([(c, c + 1) for c in codes])


def show_iv(iv, maxint):
    def c(x):
        if x <= -maxint:
            return '-inf'
        if x >= maxint:
            return '+inf'
        return repr(chr(x)) if 32 <= x < 127 else str(x)
    return '{' + ', '.join(('%s' % c(a)) if b == a + 1 else '%s..%s' % (c(a), c(b - 1) if b < maxint else '+inf') for a, b in iv) + '}'


def tmap_segments(tm):
    """[(lo, hi, set)] of an interpreted TransitionMap, checking the documented representation"""
    m = tm.attrs.get('map')
    if not isinstance(m, list) or len(m) < 3 or len(m) % 2 != 1:
        raise AnalysisError('TransitionMap.map is not the documented [code, set, code, ..., code] list: %r' % (m,))
    return [(m[i], m[i + 2], m[i + 1]) for i in range(0, len(m) - 1, 2)]


def single_char_language(pm, re_obj, nocase=0):
    """the set of characters (as intervals of codes) the NFA built for `re_obj` accepts as a complete one-character input.
    A newline reaches the automaton as the pair EOL, '\\n' (that is how the scanner feeds it)."""
    ev = pm.ev
    m = pm.call('Machines', 'Machine')
    s0, s1 = pm.method(m, 'new_state'), pm.method(m, 'new_state')
    pm.method(re_obj, 'build_machine', m, s0, s1, 0, nocase)
    EOL = pm.get('Regexps', 'EOL')
    nl = pm.get('Regexps', 'nl_code')

    def closure(states):
        seen, todo = [], list(states)
        while todo:
            s = todo.pop()
            if any(s is x for x in seen):
                continue
            seen.append(s)
            sp = s.attrs['transitions'].attrs.get('special')
            todo.extend(sp.get('', ()) if isinstance(sp, dict) else ())
        return seen
    start = closure([s0])
    out = []
    for s in start:
        for lo, hi, targets in tmap_segments(s.attrs['transitions']):
            if targets and any(t is s1 for t in closure(targets)):
                # a raw transition on the newline code cannot fire as the first symbol: the scanner delivers EOL before '\n'
                if lo <= nl < hi:
                    out += [(lo, nl), (nl + 1, hi)]
                else:
                    out.append((lo, hi))
    after_eol = closure([t for s in start for t in s.attrs['transitions'].attrs['special'].get(EOL, ())])
    for s in after_eol:
        for lo, hi, targets in tmap_segments(s.attrs['transitions']):
            if lo <= nl < hi and targets and any(t is s1 for t in closure(targets)):
                out.append((nl, nl + 1))
    return norm_intervals(out)


CASE_RANGES = [('a', 'a'), ('z', 'z'), ('A', 'A'), ('Z', 'Z'), ('`', 'b'), ('y', '{'), ('@', 'B'), ('Y', '['), ('0', '9'), ('X', 'b'), ('b', 'y'), ('B', 'Y')]
NL_PAIRS = [('\t', '\t'), ('\t', '\n'), ('\t', '\x0b'), ('\n', '\n'), ('\n', '\x0b'), ('\x0b', '\x0c'), ('a', 'c'), ('a', 'a'), ('\x08', '\x0c')]


def delta_strings(deltas, maxlen=4, base=ord('b')):
    """strings whose sorted code sequence realises every sequence of the given consecutive differences (length <= maxlen), in both
    sorted and reversed order of writing"""
    out = []

    def rec(codes):
        if codes:
            s = ''.join(chr(c) for c in codes)
            out.append(s)
            if len(codes) > 1:
                out.append(s[::-1])
        if len(codes) < maxlen:
            for d in deltas:
                rec(codes + [codes[-1] + d] if codes else [base])
                if not codes:
                    break
    rec([])
    return sorted(set(out), key=lambda s: (len(s), s))


def charset_cases(pm, deltas):
    """[(key, description, thunk -> RE object, expected intervals, nocase)]"""
    maxint = pm.get('Regexps', 'maxint')
    cases = []
    for c in ('a', '\t', '\n', '\x0b', 'z'):
        cases.append(('Char(%r)' % c, lambda c=c: pm.call('Regexps', 'Char', c), [(ord(c), ord(c) + 1)], 0))
    for a, b in NL_PAIRS:
        cases.append(('Range(%r,%r)' % (a, b), lambda a=a, b=b: pm.call('Regexps', 'Range', a, b), [(ord(a), ord(b) + 1)], 0))
    for s in ('ac', 'acxz', 'abbc', '\t\n', '\n\x0bxz'):
        cases.append(('Range(%r)' % s, lambda s=s: pm.call('Regexps', 'Range', s),
                      norm_intervals([(ord(s[i]), ord(s[i + 1]) + 1) for i in range(0, len(s), 2)]), 0))
    for s in delta_strings(deltas):
        cases.append(('Any(%r)' % s, lambda s=s: pm.call('Regexps', 'Any', s), codes_to_intervals({ord(ch) for ch in s}), 0))
    for s in ('\n', 'a\n', '\t\n\x0b'):
        cases.append(('Any(%r)' % s, lambda s=s: pm.call('Regexps', 'Any', s), codes_to_intervals({ord(ch) for ch in s}), 0))
    for s in ('', 'a', 'ab', 'ac', '\n', 'a\n'):
        holes = codes_to_intervals({ord(ch) for ch in s})
        exp, lo = [], -maxint
        for a, b in holes:
            exp.append((lo, a))
            lo = b
        exp.append((lo, maxint))
        cases.append(('AnyBut(%r)' % s, lambda s=s: pm.call('Regexps', 'AnyBut', s), norm_intervals(exp), 0))
    for a, b in CASE_RANGES:
        codes = set(range(ord(a), ord(b) + 1))
        folded = set(codes)
        for c in codes:
            ch = chr(c)
            if 'a' <= ch <= 'z' or 'A' <= ch <= 'Z':
                folded.add(ord(ch.swapcase()))
        cases.append(('nocase:Range(%r,%r)' % (a, b), lambda a=a, b=b: pm.call('Regexps', 'Range', a, b), codes_to_intervals(folded), 1))
    cases.append(("NoCase(Char('a'))", lambda: pm.call('Regexps', 'NoCase', pm.call('Regexps', 'Char', 'a')), codes_to_intervals({97, 65}), 0))
    cases.append(("nocase:Case(Char('a'))", lambda: pm.call('Regexps', 'Case', pm.call('Regexps', 'Char', 'a')), codes_to_intervals({97}), 1))
    cases.append(("nocase:NoCase(Char('Q'))", lambda: pm.call('Regexps', 'NoCase', pm.call('Regexps', 'Char', 'Q')), codes_to_intervals({81, 113}), 1))
    return cases, maxint


def _charset_rule(px, rid, desc, deltas, floor, only_any=False):
    r = Rule(rid, desc, floor=floor)
    pm = px.model()
    cases, maxint = charset_cases(pm, deltas)
    rel = px.rel('Regexps')
    first = {}
    for key, thunk, want, nocase in cases:
        if only_any and not key.startswith('Any('):
            continue
        ctor = key.split('(')[0]
        try:
            got = _guard(key, lambda: single_char_language(pm, thunk(), nocase))
        except PyRaise as e:
            got = 'raises %r' % (e.exc,)
        r.inst('charset:' + key, sample='%s accepts %s' % (key, show_iv(got, maxint) if isinstance(got, list) else got))
        if got != want and ctor not in first:
            first[ctor] = True
            line = getattr(px.func('Regexps', ctor.split(':')[-1]) if ctor.split(':')[-1] in ('Char', 'Range', 'Any', 'AnyBut', 'NoCase', 'Case') else None, 'lineno', 1)
            if isinstance(got, list):
                extra = norm_intervals([(max(a, c), min(b, d)) for a, b in got for c, d in _complement(want, maxint)])
                missing = norm_intervals([(max(a, c), min(b, d)) for a, b in want for c, d in _complement(got, maxint)])
                detail = 'accepts %s, the documented set is %s%s%s' % (show_iv(got, maxint), show_iv(want, maxint),
                                                                       ('; wrongly accepted: %s' % show_iv(extra, maxint)) if extra else '',
                                                                       ('; not accepted: %s' % show_iv(missing, maxint)) if missing else '')
            else:
                detail = got
            r.violate('Regexps.%s:charset' % ctor, rel, line,
                      'the automaton built for %s%s %s: the scanner matches other characters than the lexicon specifies (evaluated on the NFA the constructors build, '
                      'nothing is run)' % (key.split(':')[-1], ' under nocase' if nocase else '', detail))
    return r


def _complement(iv, maxint):
    out, lo = [], -maxint
    for a, b in norm_intervals(iv):
        if lo < a:
            out.append((lo, a))
        lo = max(lo, b)
    if lo < maxint:
        out.append((lo, maxint))
    return out


def rule_charset(px):
    r = _charset_rule(px, 'C50-CHARSET',
                      'the single-character constructors denote their documented sets: Char(c) = {c}; Range(a, b) = [a, b] inclusive (pair and string form); Any(s) = set(s); '
                      'AnyBut(s) = complement of set(s); under nocase every letter brings its other-case twin; NoCase/Case override the enclosing flag - read off the NFA that '
                      'build_machine constructs (evaluated by the checker over the order types of the end points relative to newline, a/z/A/Z and each other)', (1, 2, 3), floor=90)
    # positive control: a range constructor with an exclusive upper end is told apart from the inclusive Range('a', 'c')
    pm = px.model()
    excl = _guard('CodeRange', lambda: single_char_language(pm, pm.call('Regexps', 'CodeRange', 97, 99)))
    incl = [c for c in charset_cases(pm, (1,))[0] if c[0] == "Range('a','c')"][0]
    r.positive_control(incl[2] == [(97, 100)] and excl != incl[2], 'range with an exclusive upper end')
    return r


def rule_charset_duplicates(px):      # pending finding (FINDING_1): reports Regexps.Any:charset on the unmodified tree
    return _charset_rule(px, 'C50-CHARSET-DUP', 'Any(s) = set(s) also when s repeats a character', (0, 1, 2), floor=20, only_any=True)


# ---------------------------------------------------------------------------------------------------------------- TMAP
def tmap_compare(segs, items, seq, probes, maxint):
    """compare a transition map (its segments and what iteritems() reports) with the reference model of the add sequence -> [(kind, message)]"""
    out = []
    codes = [s[0] for s in segs] + [segs[-1][1]]
    if codes[0] != -maxint or codes[-1] != maxint or any(a >= b for a, b in zip(codes, codes[1:])):
        return [('invariant', 'the code list is %s (must increase strictly from -maxint to +maxint)' % codes)]
    for p in probes:
        want = {'S%d' % k for k, (a, b) in enumerate(seq) if a <= p < b}
        got = next(set(s) for lo, hi, s in segs if lo <= p < hi)
        if got != want:
            out.append(('denotation', 'code %d maps to %s instead of %s' % (p, sorted(got), sorted(want))))
            break
    rep = {}
    for ev_, st in items:
        if isinstance(ev_, tuple):
            rep[ev_] = set(st)
    for lo, hi, s in segs:
        if s and rep.get((lo, hi)) != set(s):
            out.append(('iteritems', 'segment (%s, %s) -> %s is reported as %s' % (lo, hi, sorted(s), sorted(rep.get((lo, hi))) if (lo, hi) in rep else 'nothing')))
    for (lo, hi), st in rep.items():
        if not any(a == lo and b == hi and set(s) == st for a, b, s in segs):
            out.append(('iteritems', 'iteritems() reports (%s, %s) -> %s which is not a segment of the map' % (lo, hi, sorted(st))))
    return out


def rule_tmap(px):
    r = Rule('C50-TMAP', 'TransitionMap is a map from character codes to state sets: after any sequence of add / add_set calls with ranges whose end points realise every order '
             'type (<= 3 ranges over 5 ordered codes and the two sentinels) the list keeps strictly increasing codes between -maxint and +maxint, every code class maps to '
             'exactly the states added for it, and iteritems() reports every non-empty segment with its own bounds', floor=450)
    pm = px.model()
    maxint = pm.get('Transitions', 'maxint')
    rel = px.rel('Transitions')
    pts = [40, 50, 60, 70, 80]
    ends = [-maxint] + pts + [maxint]
    ranges = [(a, b) for i, a in enumerate(ends) for b in ends[i + 1:]]
    finite = [(a, b) for a, b in ranges if a != -maxint and b != maxint]
    four = [(a, b) for a, b in ranges if a in [-maxint] + pts[:4] and b in pts[:4] + [maxint]]
    seqs = [[x] for x in ranges] + [[x, y] for x in four for y in four]
    small = [(a, b) for a, b in finite if a in pts[:4] and b in pts[:4]]
    seqs += [[x, y, z] for x in small for y in small for z in small]
    probes = sorted({p + d for p in pts for d in (-1, 0)} | {pts[-1] + 1, -maxint, maxint - 1})
    problems = {}
    n = 0
    for seq in seqs:
        for use_set in ((False, True) if len(seq) < 3 and all(x in finite for x in seq) else (False,)):
            n += 1

            def run():
                tm = pm.call('Transitions', 'TransitionMap')
                for k, rg in enumerate(seq):
                    if use_set:
                        pm.method(tm, 'add_set', rg, {'S%d' % k})
                    else:
                        pm.method(tm, 'add', rg, 'S%d' % k)
                return tm, list(pm.method(tm, 'iteritems'))
            try:
                tm, items = _guard('TransitionMap.add', run)
            except PyRaise as e:
                problems.setdefault('raises', (seq, use_set, 'raises %r' % (e.exc,)))
                continue
            for kind, msg in tmap_compare(tmap_segments(tm), items, seq, probes, maxint):
                problems.setdefault(kind, (seq, use_set, msg))
    for i in range(n):
        r.inst('tmap:seq#%d' % i, sample='add sequence %d' % i, nontrivial=i < 50)
    why = {'invariant': 'split() no longer keeps the code list sorted and duplicate-free', 'denotation': 'add()/add_set() mark the wrong segments',
           'iteritems': 'the subset construction receives wrong character ranges', 'raises': 'the map operations fail'}
    bad = tmap_compare([(-maxint, 40, set()), (40, 60, {'S0'}), (60, maxint, set())], [((40, 60), {'S0'})], [(40, 50)], probes, maxint)
    r.positive_control([k for k, _ in bad] == ['denotation'], 'a map whose marked segment runs past the end of the added range')
    for kind, (seq, use_set, msg) in sorted(problems.items()):
        fn = {'invariant': 'split', 'denotation': 'add_set' if use_set else 'add', 'iteritems': 'iteritems', 'raises': 'add'}[kind]
        r.violate('Transitions.TransitionMap.%s:%s' % (fn, kind), rel, px.method('Transitions', 'TransitionMap', fn).lineno,
                  'after %s of %s: %s - %s, so characters lead to the wrong NFA/DFA states (evaluated by the checker on every order type of the end points)' % (
                      'add_set' if use_set else 'add', ', '.join('(%s, %s)' % (('-inf' if a == -maxint else a), ('+inf' if b == maxint else b)) for a, b in seq), msg, why[kind]))
    return r


# ---------------------------------------------------------------------------------------------------------------- ROUTE
def lexicon_route(r, init, add, rel):
    """def-use of the initial NFA states in a Lexicon.__init__-like function: obligations are recorded on r"""
    created = {}       # variable -> argument of new_initial_state
    for n in ast.walk(init):
        if isinstance(n, ast.Assign) and isinstance(n.value, ast.Call) and isinstance(n.value.func, ast.Attribute) and n.value.func.attr == 'new_initial_state' \
                and len(n.targets) == 1 and isinstance(n.targets[0], ast.Name) and n.value.args:
            created[n.targets[0].id] = (n.value.args[0], n)
    if len(created) < 2:
        raise AnalysisError('Lexicon.__init__: the initial states (default and per State spec) are no longer created by new_initial_state')

    def branch_calls(stmts, cond):
        out = []
        for s in stmts:
            if isinstance(s, ast.If):
                out += branch_calls(s.body, cond + [s.test])
                out += branch_calls(s.orelse, cond + [ast.UnaryOp(op=ast.Not(), operand=s.test)])
            elif isinstance(s, (ast.For, ast.While, ast.With, ast.Try)):
                out += branch_calls(s.body, cond)
            else:
                for c in ast.walk(s):
                    if isinstance(c, ast.Call) and is_self_attr(c.func) and c.func.attr == add.name:
                        out.append((c, cond))
        return out
    pnames = [a.arg for a in add.args.args[1:]]
    # the parameter that receives the initial state is the one handed to build_machine as the start state
    start_param = None
    for c in ast.walk(add):
        if isinstance(c, ast.Call) and isinstance(c.func, ast.Attribute) and c.func.attr == 'build_machine' and len(c.args) >= 2 and isinstance(c.args[1], ast.Name):
            start_param = c.args[1].id
    if start_param not in pnames:
        raise AnalysisError('Lexicon.add_token_to_machine: the parameter handed to build_machine as initial state was not found')
    k = pnames.index(start_param)
    sites = branch_calls(init.body, [])
    if not sites:
        raise AnalysisError('Lexicon.__init__ no longer calls add_token_to_machine')
    for c, cond in sites:
        arg = c.args[k] if k < len(c.args) else next((kw.value for kw in c.keywords if kw.arg == start_param), None)
        in_state_branch = any(isinstance(t, ast.Call) and isinstance(t.func, ast.Name) and t.func.id == 'isinstance' and len(t.args) == 2 and
                              isinstance(t.args[1], ast.Name) and t.args[1].id == 'State' for t in cond)
        key = 'Lexicons.Lexicon.__init__:initial-state:%s' % ('State' if in_state_branch else 'default')
        r.inst(key, sample='%s tokens are built from %s' % ('State(...)' if in_state_branch else 'plain', node_src(arg) if arg is not None else None))
        src = created.get(arg.id) if isinstance(arg, ast.Name) else None
        ok = src is not None and (
            (in_state_branch and isinstance(src[0], ast.Attribute) and src[0].attr == 'name') or
            (not in_state_branch and isinstance(src[0], ast.Constant) and src[0].value == ''))
        if not ok:
            r.violate(key, rel, c.lineno, 'the tokens of %s are added to the automaton starting at `%s`%s: %s' % (
                'a State(name, tokens) specification' if in_state_branch else 'the default scanner state', node_src(arg) if arg is not None else '?',
                (' = new_initial_state(%s)' % node_src(src[0])) if src else '',
                'they are recognised in the default state and the named state recognises nothing' if in_state_branch else 'plain tokens are not recognised in the default state'))


def rule_route(px):
    r = Rule('C50-ROUTE', 'scanner states keep their automata apart: tokens of a State(...) spec are attached to the initial NFA state created for that state name and plain '
             'tokens to the default one; nfa_to_dfa registers each initial DFA state under the name of the NFA initial state it was built from; StateMap.make_key is '
             'injective on state sets and independent of their order', floor=5)
    # (1) Lexicon.__init__: def-use of the initial states
    lexicon_route(r, px.method('Lexicons', 'Lexicon', '__init__'), px.method('Lexicons', 'Lexicon', 'add_token_to_machine'), px.rel('Lexicons'))
    pc = ast.parse("class L:\n  def __init__(self, specs):\n    nfa = M()\n    d = nfa.new_initial_state('')\n    n = 1\n    for spec in specs:\n      if isinstance(spec, State):\n"
                   "        u = nfa.new_initial_state(spec.name)\n        for t in spec.tokens:\n          self.add(nfa, d, t, n)\n          n += 1\n      else:\n        self.add(nfa, d, spec, n)\n        n += 1\n"
                   "  def add(self, machine, initial_state, token_spec, token_number):\n    re.build_machine(machine, initial_state, f, match_bol=1, nocase=0)\n").body[0]
    r2 = Rule('pc', 'pc', floor=0)
    lexicon_route(r2, pc.body[0], pc.body[1], 'pc')
    r.positive_control([f.construct.split(':')[-1] for f in r2.findings] == ['State'], 'State tokens attached to the default initial state')
    # (2) nfa_to_dfa: key hand-through
    f = px.func('DFA', 'nfa_to_dfa')
    found = False
    for loop in [n for n in ast.walk(f) if isinstance(n, ast.For)]:
        it = loop.iter
        if not (isinstance(it, ast.Call) and isinstance(it.func, ast.Attribute) and it.func.attr == 'items' and 'initial_states' in node_src(it.func.value)):
            continue
        tgt = loop.target
        if not (isinstance(tgt, ast.Tuple) and len(tgt.elts) == 2 and all(isinstance(e, ast.Name) for e in tgt.elts)):
            raise AnalysisError('nfa_to_dfa: loop over the initial states not understood')
        kname, sname = tgt.elts[0].id, tgt.elts[1].id
        for c in ast.walk(loop):
            if isinstance(c, ast.Call) and isinstance(c.func, ast.Attribute) and c.func.attr == 'make_initial_state' and len(c.args) == 2:
                found = True
                r.inst('DFA.nfa_to_dfa:initial-key', sample=node_src(c))
                a0 = c.args[0]
                env = {}
                for a in ast.walk(loop):
                    if isinstance(a, ast.Assign) and len(a.targets) == 1 and isinstance(a.targets[0], ast.Name):
                        env.setdefault(a.targets[0].id, []).append(a.value)
                while isinstance(a0, ast.Name) and a0.id != kname and len(env.get(a0.id, ())) == 1:
                    a0 = env[a0.id][0]
                if not (isinstance(a0, ast.Name) and a0.id == kname):
                    r.violate('DFA.nfa_to_dfa:initial-key', px.rel('DFA'), c.lineno,
                              'the DFA state built from the NFA initial state named `%s` is registered as %s: Scanner.begin(name) starts in the automaton of another state' % (kname, node_src(c.args[0])))
                # the state registered must derive from the loop's NFA state
                if not any(isinstance(x, ast.Name) and x.id == sname for x in ast.walk(loop)):
                    r.violate('DFA.nfa_to_dfa:initial-state', px.rel('DFA'), c.lineno, 'the initial DFA state is not built from the NFA initial state of the loop')
    if not found:
        raise AnalysisError('nfa_to_dfa: registration of the initial DFA states not found')
    # (3) make_key: injective and order independent
    pm = px.model()

    def keys():
        nodes = [pm.call('Machines', 'Node') for _ in range(3)]
        for i, nd in enumerate(nodes):
            nd.attrs['number'] = i + 1
        sm = pm.call('DFA', 'StateMap', NS())
        out = {}
        import itertools
        for k in range(0, 4):
            for comb in itertools.combinations(range(3), k):
                ks = set()
                for perm in itertools.permutations(comb):
                    s = set()
                    for i in perm:
                        s.add(nodes[i])
                    ks.add(pm.method(sm, 'make_key', s))
                out[comb] = ks
        return out
    try:
        table = _guard('StateMap.make_key', keys)
    except PyRaise as e:
        raise AnalysisError('StateMap.make_key raises %r on a set of Node objects' % (e.exc,))
    r.inst('DFA.StateMap.make_key:injective', sample='%d subsets of 3 states' % len(table))
    r.inst('DFA.StateMap.make_key:order-independent')
    mk = px.method('DFA', 'StateMap', 'make_key')
    for comb, ks in table.items():
        if len(ks) != 1:
            r.violate('DFA.StateMap.make_key:order-independent', px.rel('DFA'), mk.lineno, 'make_key gives %d different keys for the same set of %d states' % (len(ks), len(comb)))
            break
    seen = {}
    for comb, ks in sorted(table.items()):
        for kx in ks:
            try:
                hash(kx)
            except TypeError:
                raise AnalysisError('make_key result is not hashable in the model')
            if kx in seen and seen[kx] != comb:
                r.violate('DFA.StateMap.make_key:injective', px.rel('DFA'), mk.lineno,
                          'the state sets %s and %s get the same key: the subset construction reuses the DFA state (action and transitions) of another set of NFA states' % (
                              [i + 1 for i in seen[kx]], [i + 1 for i in comb]))
                return r
            seen[kx] = comb
    return r


# ---------------------------------------------------------------------------------------------------------------- BUF
class Lin:
    """integer linear form: {symbol: coefficient} + constant"""

    def __init__(self, terms=None, const=0):
        self.terms = {k: v for k, v in (terms or {}).items() if v}
        self.const = const

    @staticmethod
    def sym(name):
        return Lin({name: 1})

    def __add__(self, o):
        t = dict(self.terms)
        for k, v in o.terms.items():
            t[k] = t.get(k, 0) + v
        return Lin(t, self.const + o.const)

    def __neg__(self):
        return Lin({k: -v for k, v in self.terms.items()}, -self.const)

    def __sub__(self, o):
        return self + (-o)

    def __eq__(self, o):
        return isinstance(o, Lin) and self.terms == o.terms and self.const == o.const

    def __hash__(self):
        return hash((tuple(sorted(self.terms.items())), self.const))

    def __repr__(self):
        parts = []
        for k, v in sorted(self.terms.items()):
            parts.append(('%s' % k) if v == 1 else ('-%s' % k) if v == -1 else '%d*%s' % (v, k))
        if self.const or not parts:
            parts.append(str(self.const))
        return ' + '.join(parts).replace('+ -', '- ')


class Win:
    """a string known as a window of the input: element k is the input character at absolute position origin + k"""

    def __init__(self, origin, length):
        self.origin, self.length = origin, length

    def __repr__(self):
        return 'input[%r : +%r]' % (self.origin, self.length)


class BufGiveUp(Exception):
    pass


def provably_nonpositive(form, order):
    """is `form` <= 0 for all integers respecting the chain a0 <= a1 <= ... (order = list of symbols)?  Decided for forms that are a sum of
    (earlier - later) differences plus a non-positive constant."""
    if not form.terms:
        return form.const <= 0
    if form.const > 0 or any(k not in order for k in form.terms):
        return False
    # prefix sums along the chain, scanned from the largest symbol down, must stay <= 0 and the total must be 0
    if sum(form.terms.values()) != 0:
        return False
    acc = 0
    for s in reversed(order):
        acc += form.terms.get(s, 0)
        if acc > 0:
            return False
    return True


class BufExec:
    def __init__(self, self_name, mirrors):
        self.self_name, self.mirrors = self_name, mirrors
        self.env = {}

    def sym_of(self, n):
        if isinstance(n, ast.Name):
            return n.id
        if isinstance(n, ast.Attribute) and isinstance(n.value, ast.Name) and n.value.id == self.self_name:
            return 'self.' + n.attr
        return None

    def load(self, key):
        if key in self.env:
            return self.env[key]
        base = key[5:] if key.startswith('self.') else key
        if key.startswith('self.') and base in self.mirrors and base in self.env and ('self.' + base) not in self.env:
            return self.initial(base)
        return self.initial(base)

    def initial(self, base):
        if base == 'buffer':
            return Win(Lin.sym('buf_start_pos0'), Lin.sym('L'))
        if base == 'buf_start_pos':
            return Lin.sym('buf_start_pos0')
        if base == 'buf_len':
            return Lin.sym('L')
        return Lin.sym(base)

    def ev(self, n):
        k = self.sym_of(n)
        if k is not None:
            return self.load(k)
        if isinstance(n, ast.Constant) and isinstance(n.value, int) and not isinstance(n.value, bool):
            return Lin(const=n.value)
        if isinstance(n, ast.UnaryOp) and isinstance(n.op, ast.USub):
            v = self.ev(n.operand)
            if isinstance(v, Lin):
                return -v
        if isinstance(n, ast.BinOp) and isinstance(n.op, (ast.Add, ast.Sub)):
            a, b = self.ev(n.left), self.ev(n.right)
            if isinstance(a, Lin) and isinstance(b, Lin):
                return a + b if isinstance(n.op, ast.Add) else a - b
            if isinstance(a, Win) and isinstance(b, Win) and isinstance(n.op, ast.Add):
                if a.origin + a.length == b.origin:
                    return Win(a.origin, a.length + b.length)
                return ('noncontiguous', a, b)
        if isinstance(n, ast.Call) and isinstance(n.func, ast.Name) and n.func.id == 'len' and len(n.args) == 1:
            v = self.ev(n.args[0])
            if isinstance(v, Win):
                return v.length
        if isinstance(n, ast.Call) and isinstance(n.func, ast.Attribute) and n.func.attr == 'read':
            # the stream continues where the buffered text ends
            cur = self.load('self.buffer')
            if isinstance(cur, Win):
                return Win(cur.origin + cur.length, Lin.sym('N'))
        if isinstance(n, ast.Subscript) and isinstance(n.slice, ast.Slice) and n.slice.step is None:
            v = self.ev(n.value)
            if isinstance(v, Win):
                lo = self.ev(n.slice.lower) if n.slice.lower is not None else Lin()
                if n.slice.upper is None and isinstance(lo, Lin):
                    return Win(v.origin + lo, v.length - lo)
        raise BufGiveUp(node_src(n, 60))

    def run(self, stmts):
        for s in stmts:
            if isinstance(s, ast.Assign) and len(s.targets) == 1:
                k = self.sym_of(s.targets[0])
                if k is None:
                    raise BufGiveUp(node_src(s, 60))
                self.store(k, self.ev(s.value))
            elif isinstance(s, ast.AnnAssign) and s.value is not None:
                k = self.sym_of(s.target)
                if k is None:
                    raise BufGiveUp(node_src(s, 60))
                self.store(k, self.ev(s.value))
            elif isinstance(s, ast.AugAssign) and isinstance(s.op, (ast.Add, ast.Sub)):
                k = self.sym_of(s.target)
                cur, v = self.load(k), self.ev(s.value)
                if not (isinstance(cur, Lin) and isinstance(v, Lin)):
                    raise BufGiveUp(node_src(s, 60))
                self.store(k, cur + v if isinstance(s.op, ast.Add) else cur - v)
            elif isinstance(s, (ast.Pass, ast.Expr)):
                continue
            else:
                raise BufGiveUp(node_src(s, 60))

    def store(self, k, v):
        self.env[k] = v


def _find_refill(fn):
    """(statements before, If node, refill statement list) for the `if <index> < <len>: ... else: <refill>` of the scan loop"""
    def rec(stmts):
        for i, s in enumerate(stmts):
            if isinstance(s, ast.If) and any(isinstance(c, ast.Call) and isinstance(c.func, ast.Attribute) and c.func.attr == 'read' for x in s.orelse for c in ast.walk(x)) \
                    and not any(isinstance(c, ast.Call) and isinstance(c.func, ast.Attribute) and c.func.attr == 'read' for x in s.body for c in ast.walk(x)):
                return stmts[:i], s
            for sub in ('body', 'orelse'):
                if hasattr(s, sub) and isinstance(getattr(s, sub), list):
                    r = rec(getattr(s, sub))
                    if r:
                        return r
        return None
    return rec(fn.body)


def rule_buffer(px):
    r = Rule('C50-BUF', 'the scan loop\'s buffer stays a window of the input: after a refill the kept text and the new data are contiguous, buf_start_pos (local and on self) '
             'is the position of buffer[0], buf_len its length, buf_index the offset of the next unread position, the window still contains the start of the current token, '
             'and the position advances by one for each character read; scan_a_token cuts the token text with both bounds rebased by buf_start_pos (linear forms, symbolic)', floor=8)
    rel = px.rel('Scanners')
    cls = px.cls('Scanners', 'Scanner')
    loops = [m for m in cls.body if isinstance(m, ast.FunctionDef) and any(isinstance(n, ast.While) for n in walk_no_nested(m)) and _find_refill(m)]
    if not loops:
        raise AnalysisError('Scanner: the method with the scan loop and the buffer refill was not found')
    fn = loops[0]
    me = fn.args.args[0].arg
    mirrors = set()
    for s in fn.body:
        tgt, val = (s.targets[0], s.value) if isinstance(s, ast.Assign) and len(s.targets) == 1 else (s.target, s.value) if isinstance(s, ast.AnnAssign) else (None, None)
        if isinstance(tgt, ast.Name) and is_self_attr(val) and val.attr == tgt.id:
            mirrors.add(tgt.id)
    before, ifnode = _find_refill(fn)
    qual = 'Scanners.Scanner.%s' % fn.name

    def analyse(before, ifnode):
        """-> list of (key suffix, line, message)"""
        out = []
        # the straight-line statements in front of the If that belong to the read (index computation)
        pre = []
        for s in reversed(before):
            if isinstance(s, (ast.Assign, ast.AnnAssign, ast.AugAssign)):
                pre.insert(0, s)
            else:
                break
        refill = ifnode.orelse
        data_if = next((s for s in refill if isinstance(s, ast.If)), None)
        straight = [s for s in refill if not isinstance(s, ast.If)]
        if data_if is None or refill.index(data_if) != len(refill) - 1:
            raise BufGiveUp('shape of the refill block')
        ex = BufExec(me, mirrors)
        ex.run(pre)
        pos_sym = None
        # which position variable indexes the buffer: index = P - buf_start_pos
        idx_name = ifnode.test.left.id if isinstance(ifnode.test, ast.Compare) and isinstance(ifnode.test.left, ast.Name) else None
        if idx_name is None or idx_name not in ex.env or not isinstance(ex.env[idx_name], Lin):
            raise BufGiveUp('buffer index of the read')
        f0 = ex.env[idx_name] + Lin.sym('buf_start_pos0')
        if len(f0.terms) != 1 or f0.const != 0:
            out.append(('index', ifnode.lineno, 'the buffer index %s = %r is not <position> - buf_start_pos' % (idx_name, ex.env[idx_name])))
            return out, None
        pos_sym = next(iter(f0.terms))
        ex.run(straight)
        buf, sbuf = ex.load('buffer'), ex.load('self.buffer')
        for v in (buf, sbuf):
            if isinstance(v, tuple) and v[0] == 'noncontiguous':
                out.append(('contiguous', refill[0].lineno, 'the kept part %r and the new data %r are not adjacent in the input: characters are lost or duplicated at every refill' % (v[1], v[2])))
                return out, pos_sym
        if not isinstance(buf, Win) or not isinstance(sbuf, Win):
            raise BufGiveUp('buffer value after the refill')
        if not (buf.origin == sbuf.origin and buf.length == sbuf.length):
            out.append(('self.buffer', refill[0].lineno, 'after the refill the local buffer is %r but self.buffer is %r' % (buf, sbuf)))
        for nm in ('buf_start_pos', 'self.buf_start_pos'):
            v = ex.load(nm)
            if not (isinstance(v, Lin) and v == buf.origin):
                out.append((nm, refill[0].lineno, 'after the refill buffer[0] is the input position %r but %s is %r: every later buffer offset (and the token text) is shifted' % (buf.origin, nm, v)))
        v = ex.load('buf_len')
        if not (isinstance(v, Lin) and v == buf.length):
            out.append(('buf_len', refill[0].lineno, 'after the refill the buffer holds %r characters but buf_len is %r' % (buf.length, v)))
        v = ex.load(idx_name)
        want = Lin.sym(pos_sym) - buf.origin
        if not (isinstance(v, Lin) and v == want):
            out.append(('index-after-refill', refill[0].lineno, 'after the refill the next unread character (position %s) is buffer[%r] but %s is %r' % (pos_sym, want, idx_name, v)))
        # the window must still contain the start of the token being scanned
        d = buf.origin - Lin.sym('start_pos')
        if not provably_nonpositive(d, ['buf_start_pos0', 'start_pos', 'cur_pos', 'next_pos']):
            out.append(('keeps-token-start', refill[0].lineno,
                        'the refill discards the input before position %r, which is not known to be <= start_pos: the beginning of a token that spans a read boundary '
                        'is dropped from the buffer and scan_a_token returns the wrong text' % (buf.origin,)))
        # both reading branches: c = buffer[index]; position += 1
        for branch, name in ((ifnode.body, 'buffered'), (data_if.body, 'refilled')):
            reads = [s for s in branch if isinstance(s, ast.Assign) and isinstance(s.value, ast.Subscript) and isinstance(s.value.slice, ast.Name) and s.value.slice.id == idx_name]
            inc = [s for s in branch if isinstance(s, ast.AugAssign) and isinstance(s.op, ast.Add) and ex.sym_of(s.target) in (pos_sym, 'self.' + pos_sym) and
                   isinstance(s.value, ast.Constant) and s.value.value == 1]
            inc += [s for s in branch if isinstance(s, ast.Assign) and ex.sym_of(s.targets[0]) == pos_sym and isinstance(s.value, ast.BinOp) and isinstance(s.value.op, ast.Add) and
                    {node_src(s.value.left), node_src(s.value.right)} == {pos_sym, '1'}]
            if reads and len(inc) != 1:
                out.append(('advance:' + name, branch[0].lineno, 'the %s branch reads buffer[%s] but advances %s %d times: the character is read twice or the next one skipped' % (name, idx_name, pos_sym, len(inc))))
            if not reads:
                raise BufGiveUp('read of the %s branch' % name)
        return out, pos_sym
    try:
        probs, pos_sym = analyse(before, ifnode)
    except BufGiveUp as e:
        raise AnalysisError('%s: buffer refill not understood by the linear-form analysis (%s)' % (qual, e))
    for k in ('contiguous', 'self.buffer', 'buf_start_pos', 'self.buf_start_pos', 'buf_len', 'index-after-refill', 'keeps-token-start', 'advance:buffered', 'advance:refilled'):
        r.inst('%s:refill:%s' % (qual, k), sample='%s refill: %s' % (fn.name, k))
    for k, line, msg in probs:
        r.violate('%s:refill:%s' % (qual, k), rel, line, '%s: %s' % (qual, msg))
    # token text
    found = False
    for m in cls.body:
        if not isinstance(m, ast.FunctionDef):
            continue
        for n in walk_no_nested(m):
            if isinstance(n, ast.Subscript) and isinstance(n.slice, ast.Slice) and is_self_attr(n.value) and n.value.attr == 'buffer' and m is not fn \
                    and n.slice.lower is not None and n.slice.upper is not None:
                found = True
                ex = BufExec(m.args.args[0].arg, set())
                # locals assigned once in the method are substituted
                env = {}
                for a in walk_no_nested(m):
                    if isinstance(a, ast.Assign) and len(a.targets) == 1 and isinstance(a.targets[0], ast.Name):
                        env.setdefault(a.targets[0].id, []).append(a.value)

                def subst(e):
                    while isinstance(e, ast.Name) and len(env.get(e.id, ())) == 1:
                        e = env[e.id][0]
                    return e
                try:
                    lo, hi = ex.ev(subst(n.slice.lower)), ex.ev(subst(n.slice.upper))
                except BufGiveUp as e:
                    raise AnalysisError('Scanner.%s: bounds of the token text slice not understood (%s)' % (m.name, e))
                for which, v, want in (('start', lo, 'start_pos'), ('end', hi, 'cur_pos')):
                    key = 'Scanners.Scanner.%s:text:%s' % (m.name, which)
                    r.inst(key, sample='token text %s bound = %r' % (which, v))
                    if not (isinstance(v, Lin) and v + Lin.sym('buf_start_pos0') == Lin.sym(want)):
                        r.violate(key, rel, n.lineno, 'Scanner.%s cuts the token text at buffer offset %r; buffer[0] is the input position buf_start_pos, so the %s of the token '
                                  '(%s) is at offset %s - buf_start_pos: wrong token text once the buffer has been refilled' % (m.name, v, which, want, want))
    if not found:
        raise AnalysisError('Scanner: the slice of self.buffer that yields the token text was not found')
    # positive control: discard computed from the current position
    pc = ast.parse("def run(self):\n  buf_start_pos = self.buf_start_pos\n  buffer = self.buffer\n  while 1:\n    buf_index = next_pos - buf_start_pos\n    if buf_index < buf_len:\n      c = buffer[buf_index]\n      next_pos += 1\n"
                   "    else:\n      discard = cur_pos - buf_start_pos\n      data = self.stream.read(4096)\n      buffer = self.buffer[discard:] + data\n      self.buffer = buffer\n      buf_start_pos += discard\n"
                   "      self.buf_start_pos = buf_start_pos\n      buf_len = len(buffer)\n      buf_index -= discard\n      if data:\n        c = buffer[buf_index]\n        next_pos += 1\n").body[0]
    b2, i2 = _find_refill(pc)
    fn_save, me_save = fn, me
    p2, _ = analyse(b2, i2)
    r.positive_control([k for k, _, _ in p2] == ['keeps-token-start'], 'refill that discards up to the current position')
    return r


# ---------------------------------------------------------------------------------------------------------------- EPS
# The epsilon closure used by the subset construction, decided on the complete domain of small epsilon graphs.
#
# The closure functions of DFA.py look at an NFA only through Node.link_to / TransitionMap.get_epsilon, set membership and the
# memo slot on the node.  They are interpreted (sC50.PyEval, nothing is imported or run) on EVERY labelled epsilon graph with
# up to EPS_N nodes (no self loops), the nodes being built with the interpreted Machines.Node and linked with the interpreted
# link_to.  Sets of nodes are iterated in label order; since every labelling of every graph is in the domain, every pair
# (graph shape, total order of its states in which all successor sets are visited) is covered - CPython iterates such sets in
# an order derived from the node addresses (Node.__hash__), so each of these orders can occur.  Because closures are memoised on the nodes, every ORDER of requests matters: each graph is
# evaluated for every permutation of its nodes (the per-state function first and the per-set function first), and every
# request is repeated at the end (a later request must not change an earlier answer).
EPS_N = 3
EPS_N_WIDE = 4
EPS_WIDE_EDGES = 4


def closure_entry_points(px):
    """names of the DFA.py functions that nfa_to_dfa calls and that reach TransitionMap.get_epsilon through the module's call graph"""
    from .pC50 import _method_calls
    tree = px.trees['DFA']
    funcs = {n.name: n for n in tree.body if isinstance(n, ast.FunctionDef)}
    F = {name for name, fn in funcs.items() if _method_calls(fn, 'get_epsilon')}
    ch = True
    while ch:
        ch = False
        for name, fn in funcs.items():
            if name not in F and any(isinstance(n, ast.Call) and isinstance(n.func, ast.Name) and n.func.id in F for n in walk_no_nested(fn)):
                F.add(name)
                ch = True
    top = funcs.get('nfa_to_dfa')
    if top is None:
        raise AnalysisError('DFA.nfa_to_dfa not found')
    F.discard('nfa_to_dfa')
    used = []
    for n in walk_no_nested(top):
        if isinstance(n, ast.Call) and isinstance(n.func, ast.Name) and n.func.id in F and n.func.id not in used:
            used.append(n.func.id)
    if not used:
        raise AnalysisError('DFA.nfa_to_dfa: no call of an epsilon-closure function (a function reaching TransitionMap.get_epsilon) found')
    return sorted(used), funcs


class _EpsWorld:
    """one labelled epsilon graph built from interpreted Node objects"""

    def __init__(self, pm, n, edges):
        self.pm = pm
        self.nodes = [pm.call('Machines', 'Node') for _ in range(n)]
        self.label = {id(o): i for i, o in enumerate(self.nodes)}
        for i, j in edges:
            pm.method(self.nodes[i], 'link_to', self.nodes[j])
        succ = {i: {j for a, j in edges if a == i} for i in range(n)}
        self.closure = {}
        for i in range(n):
            seen, todo = {i}, [i]
            while todo:
                for j in succ[todo.pop()]:
                    if j not in seen:
                        seen.add(j)
                        todo.append(j)
            self.closure[i] = frozenset(seen)

    def labels(self, value):
        if not isinstance(value, (set, frozenset, list, tuple)):
            return None
        out = set()
        for o in value:
            if id(o) not in self.label:
                return None
            out.add(self.label[id(o)])
        return frozenset(out)


def _eps_graphs(n):
    import itertools
    pairs = [(i, j) for i in range(n) for j in range(n) if i != j]
    for k in range(len(pairs) + 1):
        for es in itertools.combinations(pairs, k):
            yield es


def _show_graph(edges, names='ABCD'):
    return ', '.join('%s->%s' % (names[i], names[j]) for i, j in edges) or 'no epsilon moves'


def _show_set(s, names='ABCD'):
    return '{' + ', '.join(names[i] for i in sorted(s)) + '}'


class _EpsFail(Exception):
    def __init__(self, fn, msg):
        self.fn, self.msg = fn, msg


def _eps_run(pm, kinds, n, edges, perm, set_first, budget=40000):
    """evaluate one request sequence on one graph; raises _EpsFail(function, message) on the first wrong answer"""
    ev = pm.ev
    saved = (ev.steps, ev.max_steps, getattr(ev, 'set_order', None))
    ev.steps, ev.max_steps = 0, budget
    w = _EpsWorld(pm, n, edges)
    ev.set_order = lambda o: w.label.get(id(o), -1)
    names = 'ABCD'
    state_fns = [f for f, k in kinds.items() if k == 'state']
    set_fns = [f for f, k in kinds.items() if k == 'set']

    def ask(fn, members, what):
        try:
            if kinds[fn] == 'state':
                res = pm.call('DFA', fn, w.nodes[members[0]])
            else:
                s = set()
                for i in members:
                    s.add(w.nodes[i])
                res = pm.call('DFA', fn, s)
        except PyRaise as e:
            raise _EpsFail(fn, 'raises %s for %s' % (type(e.exc).__name__ if not isinstance(e.exc, Obj) else e.exc.cls.name, what))
        except RecursionError:
            raise _EpsFail(fn, 'recurses without end for %s' % what)
        except EvalError as e:
            if 'step budget' in str(e):
                raise _EpsFail(fn, 'does not terminate for %s' % what)
            raise
        want = frozenset().union(*[w.closure[i] for i in members])
        got = w.labels(res)
        if got is None:
            raise _EpsFail(fn, 'does not return a set of the NFA states for %s' % what)
        if got != want:
            lost, extra = want - got, got - want
            raise _EpsFail(fn, 'returns %s for %s; the states reachable by epsilon moves are %s%s%s' % (
                _show_set(got), what, _show_set(want),
                ' (lost: %s - the DFA state built from this set lacks their transitions and actions, so matches stop early or are missed)' % _show_set(lost) if lost else '',
                ' (added: %s - states that are not reachable without input take part in the match)' % _show_set(extra) if extra else ''))
    try:
        order = ' after the requests for ' + ', '.join(names[i] for i in perm)
        steps = []
        for fn in state_fns:
            steps += [(fn, [i]) for i in perm]
        set_steps = []
        for fn in set_fns:
            set_steps += [(fn, list(perm[:2])), (fn, list(perm))]
        plan = (set_steps + steps) if set_first else (steps + set_steps)
        done = []
        for fn, members in plan:
            what = 'the state%s %s%s' % ('' if len(members) == 1 else 's', ', '.join(names[i] for i in members),
                                        (' (earlier requests: %s)' % ', '.join('+'.join(names[i] for i in mm) for _, mm in done)) if done else ' (first request)')
            ask(fn, members, what)
            done.append((fn, members))
        for fn, members in plan:
            ask(fn, members, 'the state%s %s when asked again%s' % ('' if len(members) == 1 else 's', ', '.join(names[i] for i in members), order))
    finally:
        ev.steps, ev.max_steps, ev.set_order = saved


def _eps_kinds(pm, fns):
    """which closure entry point takes one state and which a set of states: the argument form under which the function evaluates to a set for a state without
    epsilon moves (the other form fails: a set has no transitions, a Node cannot be iterated)"""
    kinds = {}
    for fn in fns:
        ok, why = [], []
        for k in ('state', 'set'):
            nd = pm.call('Machines', 'Node')
            try:
                res = pm.call('DFA', fn, nd if k == 'state' else {nd})
            except (PyRaise, EvalError, RecursionError) as e:
                why.append('%s: %s' % (k, e))
                continue
            if isinstance(res, (set, frozenset)):
                ok.append(k)
        if len(ok) != 1:
            raise AnalysisError('DFA.%s: cannot tell whether it takes a state or a set of states (evaluates to a set for: %s; %s); the closure interface is not the one this rule models' % (fn, ok or 'neither', '; '.join(why)))
        kinds[fn] = ok[0]
    return kinds


def _eps_cyclic(n, edges):
    succ = {i: [j for a, j in edges if a == i] for i in range(n)}
    for i in range(n):
        seen, todo = set(), list(succ[i])
        while todo:
            j = todo.pop()
            if j == i:
                return True
            if j not in seen:
                seen.add(j)
                todo.extend(succ[j])
    return False


def _eps_rooted(n, edges):
    succ = {i: [j for a, j in edges if a == i] for i in range(n)}
    seen, todo = {0}, [0]
    while todo:
        for j in succ[todo.pop()]:
            if j not in seen:
                seen.add(j)
                todo.append(j)
    return len(seen) == n


def eps_domain():
    """(n, edges, request order, per-set function first?) - every labelled graph on EPS_N states with every request order, and every graph on
    EPS_N_WIDE states with at most EPS_WIDE_EDGES epsilon moves in which every state is reachable from A (requests in the order A..D and D..A)"""
    import itertools
    for edges in _eps_graphs(EPS_N):
        for perm in itertools.permutations(range(EPS_N)):
            for set_first in (False, True):
                yield EPS_N, edges, perm, set_first
    wide = tuple(range(EPS_N_WIDE))
    for edges in _eps_graphs(EPS_N_WIDE):
        if len(edges) <= EPS_WIDE_EDGES and _eps_rooted(EPS_N_WIDE, edges):
            yield EPS_N_WIDE, edges, wide, False
            yield EPS_N_WIDE, edges, wide[::-1], True


class _PcModel:
    """a self-contained module in its own evaluator, with the interface of PlexModel (for the embedded positive example)"""

    def __init__(self, src):
        self.ev = PyEval(max_steps=200000)
        self.mod = self.ev.load_module('pc', ast.parse(src))

    def call(self, mod, name, *args, **kw):
        return self.ev.call(self.mod.vars[name], list(args), kw)

    def method(self, obj, name, *args, **kw):
        return self.ev.call(self.ev.getattr(obj, name), list(args), kw)


_EPS_PC = """
class Node:
    def __init__(self):
        self.eps = set()
        self.memo = None
    def link_to(self, other):
        self.eps.add(other)
def closure(state):
    result = state.memo
    if result is None:
        result = set()
        state.memo = result
        add_to(result, state)
    return result
def add_to(state_set, state):
    if state not in state_set:
        state_set.add(state)
        for state2 in state.eps:
            state_set.update(closure(state2))
"""


def rule_epsclosure(px):
    r = Rule('C50-EPS', 'the epsilon-closure functions nfa_to_dfa uses return exactly the states reachable by epsilon moves: on every epsilon graph on %d states for every '
             'total order in which the successor sets are visited and every order of the (memoised) requests, and on every graph on %d states with at most %d moves reachable from its '
             'first state' % (EPS_N, EPS_N_WIDE, EPS_WIDE_EDGES), floor=2)
    pm = px.model()
    fns, funcs = closure_entry_points(px)
    rel = px.rel('DFA')
    try:
        kinds = _guard('DFA epsilon closure', lambda: _eps_kinds(pm, fns))
    except PyRaise as e:
        raise AnalysisError('DFA epsilon closure raises %r on a single state' % (e.exc,))
    if 'state' not in kinds.values():
        raise AnalysisError('DFA.nfa_to_dfa: no per-state epsilon-closure function among %s' % fns)
    failed = {}
    counts = {}
    for n, edges, perm, set_first in eps_domain():
        if len(failed) == len(fns):
            break
        cls = 'cyclic' if _eps_cyclic(n, edges) else 'acyclic'
        counts[cls] = counts.get(cls, 0) + 1
        try:
            _guard('DFA epsilon closure', lambda: _eps_run(pm, kinds, n, edges, perm, set_first))
        except _EpsFail as e:
            failed.setdefault(e.fn, (n, edges, cls, e.msg))
        except PyRaise as e:
            raise AnalysisError('C50-EPS: building the epsilon graph %s with Machines.Node / Node.link_to raises %r in the evaluator' % (_show_graph(edges), e.exc))
    for fn in fns:
        for cls in ('acyclic', 'cyclic'):
            r.inst('DFA.%s:%s' % (fn, cls), sample='DFA.%s (%s -> closure) on %d request sequences over %s epsilon graphs' % (fn, kinds[fn], counts.get(cls, 0), cls))
        if fn in failed:
            n, edges, cls, msg = failed[fn]
            r.violate('DFA.%s:%s' % (fn, cls), rel, funcs[fn].lineno,
                      'on the epsilon graph %s (successor sets visited in alphabetical order) %s %s: the subset construction turns this set into a DFA state, '
                      'so the scanner no longer returns the longest match of the rules' % (_show_graph(edges), fn, msg))
    # embedded positive example: a memoised closure that copies the memo of a successor while that memo is still being filled
    pc = _PcModel(_EPS_PC)
    hit = False
    try:
        _eps_run(pc, {'closure': 'state'}, 3, ((0, 1), (0, 2), (1, 0)), (0, 1, 2), False)
    except _EpsFail:
        hit = True
    except (EvalError, PyRaise) as e:
        raise AnalysisError('C50-EPS: embedded example outside the evaluator (%s)' % (e,))
    r.positive_control(hit, 'closure that reuses a successor\'s memo while it is being built (A->B, A->C, B->A)')
    return r
