"""C22-PARKED / C22-RETLIVE: a reference that is set aside while child code is generated must survive none of the child's jump exits.

The statement generators of Nodes.py emit C for a sub-tree by calling  child.generate_execution_code(code)  (statements: the emitted
code may leave through the current error, break, continue and return labels held in `code`) or  child.generate_evaluation_code(code)
and friends (expressions: error label only).  Two places can hold an owned reference the child knows nothing about:

  * a LOCAL unmanaged temp of the generator (`t = code.funcstate.allocate_temp(T, manage_ref=False)`): the function's error exit
    does not release it (unmanaged) and no other node can name it (local).  It owns a reference after an emitted *move*
    `t = S;` ... `S = 0;` (copy + source cleared; `MemoryView.put_init_entry(S, code)` for slices).
  * the function's result variable Naming.retval_cname in code emitted at a label that INTERCEPTS `return` (a fresh label installed
    as code.return_label in this function, placed later by put_label / label_interceptor / an emitted "%s: {"): every jump to it
    comes from a ReturnStatNode that has just stored the return value there.  The only writer that releases the old value is
    ReturnStatNode; the function's error exit and its implicit `return None` overwrite the variable.

C22-PARKED   while such a temp owns a reference, every label a generated child (or an emitted code.error_goto*) can jump to must be a
             label created in this function, and each of these labels must be placed (label_interceptor body, or put_label) with an
             emitted release of the temp (put_[x]decref[_clear](t), directly or in a self.helper) on every path.  Otherwise the
             reference leaks when the child leaves by that exit (`try: return x finally: cleanup()` with a failing cleanup()).
C22-RETLIVE  in code emitted at a return-intercepting label no child code is generated (and no error exit emitted) while the result variable still holds the
             pending value of a reference-counted return type: it has to be moved out first (and is then subject to C22-PARKED).

Technique: path-sensitive symbolic evaluation (engine/pyflow, the checker's own evaluator; kind 2 of DESIGN 9.1) of each candidate
generator over label values (kind x generation: `outer` = the labels the function was entered with), label tuples (all_new_labels,
get_all_labels, slices, zip(new, old) loops unrolled per label kind, label_interceptor bodies), unmanaged local temps and their
ownership state, for every class of the COMPLETE partition of the function return type {object, memoryview slice, other C type, none}
(tests on <return type>, .is_pyobject, .is_memoryviewslice, .needs_refcounting and locals holding them are decided per class; the
partition is confirmed against the class attributes of PyrexTypes).  Calls self.helper(..., code, ...) are inlined through the MRO
(depth 2); what cannot be modelled (a temp handed to an unknown call, an un-inlinable helper that gets `code`) ends the decision for
that path with an info line.  Nothing of the repository is imported or executed.

NOT decided: temps kept in attributes (`self.exit_var`: other nodes of the tree release them), tuples of temps (the exception triples:
C22-ROLE / C22-ZERO), references obtained by a call rather than a move (G7), paths that are feasible only without the GIL (tests on
*nogil* attributes / the GIL exit pseudo-statement: no Python reference can be pending there), labels saved in attributes and
placed by another method (parallel blocks).  Path feasibility is decided from the tests of the generator itself (label comparisons,
return type predicates, boolean locals kept symbolically); pyflow merges paths that agree on all facts of this rule and then forgets
the tests in which they differed, so a contradiction between two tests on unrelated attributes of the tree is not always seen.
"""
import ast, re

from ..core import Rule, AnalysisError, node_src
from ..engine import pyflow
from .gen import gen_functions, KINDS, _code_call, _code_label_attr

RTYPES = ('object', 'memoryviewslice', 'plain', 'none')
RT_TABLE = {  # predicate -> set of classes on which it is true
    'truth': {'object', 'memoryviewslice', 'plain'},
    'is_pyobject': {'object'},
    'is_memoryviewslice': {'memoryviewslice'},
    'needs_refcounting': {'object', 'memoryviewslice'},
}
CHILD_ALL = {'generate_execution_code'}
CHILD_ERR = {'generate_evaluation_code', 'generate_assignment_code', 'generate_deletion_code', 'generate_result_code',
             'generate_subexpr_evaluation_code', 'generate_target_code', 'generate_evaluation_code_and_result'}
RELEASES = {'put_xdecref_clear', 'put_decref_clear', 'put_xdecref', 'put_decref'}
NOGIL_ATOM = re.compile(r'nogil|GILExit|gil_owned|with_gil', re.I)
RT_NAME = re.compile(r'(^|\.)(func_)?return_type$')
MAX_DEPTH = 2


def _is_code(n):
    return isinstance(n, ast.Name) and n.id == 'code'


def _passes_code(call):
    return any(_is_code(a) for a in call.args) or any(_is_code(k.value) for k in call.keywords)


def _unmanaged_alloc(v):
    """code.funcstate.allocate_temp(T, manage_ref=False) -> T expression, else None"""
    if _code_call(v, ('allocate_temp',)):
        kw = {k.arg: k.value for k in v.keywords}
        mr = kw.get('manage_ref') or (v.args[1] if len(v.args) > 1 else None)
        if isinstance(mr, ast.Constant) and mr.value is False:
            return v.args[0] if v.args else kw.get('type')
    return None


def emission(call):
    """code.putln(X) / code.put(X) -> (template with \\0i\\0 markers, [argument expressions]) or None"""
    if not (isinstance(call.func, ast.Attribute) and call.func.attr in ('putln', 'put', 'put_safe') and _is_code(call.func.value) and call.args):
        return None
    x = call.args[0]
    if isinstance(x, ast.Constant) and isinstance(x.value, str):
        return x.value, []
    if isinstance(x, ast.JoinedStr):
        out, args = '', []
        for p in x.values:
            if isinstance(p, ast.Constant):
                out += str(p.value)
            else:
                out += '\0%d\0' % len(args)
                args.append(p.value)
        return out, args
    if isinstance(x, ast.BinOp) and isinstance(x.op, ast.Mod) and isinstance(x.left, ast.Constant) and isinstance(x.left.value, str):
        args = list(x.right.elts) if isinstance(x.right, ast.Tuple) else [x.right]
        n = [0]

        def sub(m):
            if m.group(0) == '%%':
                return '%'
            n[0] += 1
            return '\0%d\0' % (n[0] - 1)
        tpl = re.sub(r'%%|%[-0-9.]*[sdrif]', sub, x.left.value)
        if n[0] != len(args):
            return None
        return tpl, args
    return None


def c_effects(tpl):
    """statements of an emitted template -> [('assign', i, j) | ('zero', i) | ('place', i)] over argument indices"""
    out = []
    for piece in re.split(r';', tpl):
        p = piece.strip()
        m = re.match(r'^\0(\d+)\0\s*=\s*\0(\d+)\0$', p)
        if m:
            out.append(('assign', int(m.group(1)), int(m.group(2))))
            continue
        m = re.match(r'^\0(\d+)\0\s*=\s*(0|NULL)$', p)
        if m:
            out.append(('zero', int(m.group(1))))
            continue
        m = re.match(r'^\0(\d+)\0\s*:\s*\{?$', p)
        if m:
            out.append(('place', int(m.group(1))))
    return out


class Sink:
    def __init__(self):
        self.violations = {}     # (rule, key) -> (rel, line, msg)
        self.instances = {}      # (rule, key) -> sample
        self.infos = set()


class MultiFlow(pyflow.Flow):
    """pyflow.Flow whose transfer may return a set of states, with per-kind unrolling of label loops"""

    def __init__(self, ev):
        pyflow.Flow.__init__(self, ev.transfer, refine=ev.refine)
        self.ev = ev

    def _apply(self, node, states):
        out = set()
        for s in states:
            r = self.transfer(node, s)
            if r is None:
                continue
            for s2 in (r if isinstance(r, (set, list)) else [r]):
                if isinstance(node, ast.stmt):
                    s2 = self._kill(node, s2)
                out.add(frozenset(s2))
        if len(out) > 4 * pyflow.MAX_STATES:
            raise pyflow.TooManyStates()
        for c in self._try_collect:
            c |= out
        return out

    def stmt(self, s, states):
        if isinstance(s, ast.For):
            r = self.ev.special_loop(self, s, states)
            if r is not None:
                return r
        return pyflow.Flow.stmt(self, s, states)


class Ev:
    def __init__(self, ctx, m, owner, fn, qn, rtype, sink, depth=0, frame='', top=None):
        self.ctx, self.m, self.owner, self.fn, self.qn, self.rtype, self.sink = ctx, m, owner, fn, qn, rtype, sink
        self.depth, self.frame = depth, frame
        self.top = top or self         # the function the findings are attributed to
        self.site = {}
        self.skip = ()                 # texts of tests whose own path fact must not be consulted (the hypothesis under judgement)

    # ------------------------------------------------------------------ state helpers
    def q(self, name):
        return name if name.startswith('self.') else self.frame + name

    @staticmethod
    def get(st, qn):
        for f in st:
            if f[0] == 'var' and f[1] == qn:
                return f[2]
        return None

    @staticmethod
    def bind(st, qn, v):
        s = set(f for f in st if not (f[0] == 'var' and f[1] == qn))
        if v is not None:
            s.add(('var', qn, v))
        return s

    @staticmethod
    def cur(st, kind):
        for f in st:
            if f[0] == 'cur' and f[1] == kind:
                return f[2]
        return ('lab', kind, '?')

    @staticmethod
    def set_cur(st, kind, lab):
        s = set(f for f in st if not (f[0] == 'cur' and f[1] == kind))
        s.add(('cur', kind, lab))
        return s

    def fresh(self, node, kind):
        return ('lab', kind, '%s@%d' % (self.frame, self.site.setdefault((node.lineno, node.col_offset), len(self.site) + 1)))

    def rc(self):
        return self.rtype in RT_TABLE['needs_refcounting']

    # ------------------------------------------------------------------ values
    def is_rt(self, e, st):
        if isinstance(e, ast.Name):
            return self.get(st, self.q(e.id)) == ('rt',)
        if isinstance(e, ast.Attribute):
            return bool(RT_NAME.search(ast.unparse(e))) or self.get(st, ast.unparse(e)) == ('rt',)
        return False

    def val(self, e, st):
        if isinstance(e, ast.Constant):
            if e.value is None:
                return ('none',)
            if isinstance(e.value, bool):
                return ('bool', e.value)
            return None
        if isinstance(e, ast.Name):
            return self.get(st, self.q(e.id))
        if isinstance(e, ast.Attribute):
            t = ast.unparse(e)
            if t == 'Naming.retval_cname':
                return ('R',)
            k = _code_label_attr(e)
            if k:
                return self.cur(st, k)
            if self.is_rt(e, st):
                return ('rt',)
            v = self.get(st, t)
            if v is not None:
                return v
            b = self.eval3(e, st)
            return ('bool', b) if b is not None else None
        if isinstance(e, (ast.Tuple, ast.List)):
            vs = [self.val(x, st) for x in e.elts]
            if vs and all(v and v[0] in ('lab', 'none') for v in vs):
                return ('labs', tuple(vs))
            return None
        if isinstance(e, ast.Subscript):
            v = self.val(e.value, st)
            if v and v[0] == 'labs':
                sl = e.slice
                if isinstance(sl, ast.Constant) and isinstance(sl.value, int) and -len(v[1]) <= sl.value < len(v[1]):
                    return v[1][sl.value]
                if isinstance(sl, ast.Slice) and all(x is None or (isinstance(x, ast.Constant) and isinstance(x.value, int)) for x in (sl.lower, sl.upper)) and sl.step is None:
                    return ('labs', v[1][slice(sl.lower.value if sl.lower else None, sl.upper.value if sl.upper else None)])
            return None
        if isinstance(e, ast.BinOp) and isinstance(e.op, ast.Add):
            a, b = self.val(e.left, st), self.val(e.right, st)
            if a and b and a[0] == 'labs' and b[0] == 'labs':
                return ('labs', a[1] + b[1])
            return None
        if isinstance(e, ast.Call):
            c = _code_call(e, ('get_all_labels', 'get_loop_labels'))
            if c:
                kinds = KINDS if c == 'get_all_labels' else KINDS[:2]
                return ('labs', tuple(self.cur(st, k) for k in kinds))
            if isinstance(e.func, ast.Name) and e.func.id in ('tuple', 'list') and len(e.args) == 1:
                return self.val(e.args[0], st)
            return None
        if isinstance(e, (ast.BoolOp, ast.UnaryOp, ast.Compare)):
            b = self.eval3(e, st)
            if b is not None:
                return ('bool', b)
            if isinstance(e, (ast.BoolOp, ast.UnaryOp)) and pyflow._pure_test(e) and \
                    not any(isinstance(n, ast.Name) and (self.get(st, self.q(n.id)) or ('sym',))[0] not in ('sym', 'bool') for n in ast.walk(e)):
                return ('sym', ast.unparse(e))      # decided later, from what the path learns about its parts
            return None
        if isinstance(e, ast.IfExp):
            t = self.eval3(e.test, st)
            if t is not None:
                return self.val(e.body if t else e.orelse, st)
            a, b = self.val(e.body, st), self.val(e.orelse, st)
            if a == b:
                return a
            if ('none',) in (a, b):       # `label if there is an enclosing loop else None`: a label when it matters
                other = b if a == ('none',) else a
                return other if other and other[0] == 'lab' else None
        return None

    def eval3(self, e, st, assume=None):
        """three-valued truth of a test under the facts of the state; `assume`: optional function atom text -> bool|None"""
        if assume is not None and not isinstance(e, (ast.BoolOp, ast.UnaryOp)):
            a = assume(e)
            if a is not None:
                return a
        if not isinstance(e, (ast.Constant, ast.UnaryOp)):
            # what the path already knows about exactly this test
            t = ast.unparse(e)
            if t not in self.skip:
                for f in st:
                    if f[0] == '?' and f[1] == t:
                        return f[2]
        if isinstance(e, ast.Constant):
            return bool(e.value)
        if isinstance(e, ast.UnaryOp) and isinstance(e.op, ast.Not):
            v = self.eval3(e.operand, st, assume)
            return None if v is None else (not v)
        if isinstance(e, ast.BoolOp):
            vs = [self.eval3(x, st, assume) for x in e.values]
            if isinstance(e.op, ast.And):
                if any(v is False for v in vs):
                    return False
                return True if all(v is True for v in vs) else None
            if any(v is True for v in vs):
                return True
            return False if all(v is False for v in vs) else None
        if isinstance(e, ast.Compare) and len(e.ops) == 1:
            a, b = self.val(e.left, st), self.val(e.comparators[0], st)
            op = e.ops[0]
            if isinstance(op, (ast.Is, ast.IsNot)) and (a == ('none',) or b == ('none',)):
                other = b if a == ('none',) else a
                oe = e.comparators[0] if a == ('none',) else e.left
                if other is None and not self.is_rt(oe, st):
                    return None
                if other == ('rt',) or (other is None and self.is_rt(oe, st)):
                    res = self.rtype == 'none'
                elif other == ('none',):
                    res = True
                elif other[0] in ('temp', 'lab', 'labs', 'R'):
                    res = False
                else:
                    return None
                return res if isinstance(op, ast.Is) else not res
            if isinstance(op, (ast.Eq, ast.NotEq, ast.Is, ast.IsNot)) and a and b and a[0] == 'lab' and b[0] == 'lab':
                if '?' in (a[2], b[2]):
                    return None
                res = a == b
                return res if isinstance(op, (ast.Eq, ast.Is)) else not res
            return None
        if isinstance(e, ast.Name):
            v = self.get(st, self.q(e.id))
            if v is None:
                return None
            if v[0] == 'bool':
                return v[1]
            if v[0] == 'sym':
                return self.eval3(ast.parse(v[1], mode='eval').body, st, assume)
            if v == ('none',):
                return False
            if v == ('rt',):
                return self.rtype in RT_TABLE['truth']
            if v[0] in ('temp', 'lab', 'R'):
                return True
            return None
        if isinstance(e, ast.Attribute):
            if self.is_rt(e, st):
                return self.rtype in RT_TABLE['truth']
            if e.attr in RT_TABLE and self.is_rt(e.value, st):
                if self.rtype == 'none':
                    return None
                return self.rtype in RT_TABLE[e.attr]
            v = self.get(st, ast.unparse(e))
            if v and v[0] == 'bool':
                return v[1]
        return None

    def refine(self, test, truth, st):
        # pyflow has already added the hypothesis (the test and its conjuncts) to the state: judge it without them
        self.skip = {ast.unparse(n) for n in ast.walk(test) if isinstance(n, ast.expr)}
        try:
            v = self.eval3(test, st)
        finally:
            self.skip = ()
        if v is not None and v != truth:
            return None
        st2 = self.learn(test, truth, st)
        if st2 is None:
            return None
        if st2 != st or any(isinstance(n, ast.Name) and (self.get(st, self.q(n.id)) or ('',))[0] == 'sym' for n in ast.walk(test)):
            # earlier decisions about symbolic locals must still be possible with what has been learnt since
            for f in st2:
                if f[0] == '?' and any((self.get(st2, self.q(nm)) or ('',))[0] == 'sym' for nm in f[3] if '.' not in nm):
                    self.skip = {f[1]}
                    try:
                        w = self.eval3(ast.parse(f[1], mode='eval').body, st2)
                    except SyntaxError:
                        w = None
                    finally:
                        self.skip = ()
                    if w is not None and w != f[2]:
                        return None
        return st2

    def learn(self, test, truth, st):
        """a local that holds an undecided boolean expression was tested: its conjuncts / disjuncts are now known on this path"""
        if isinstance(test, ast.UnaryOp) and isinstance(test.op, ast.Not):
            return self.learn(test.operand, not truth, st)
        if isinstance(test, ast.BoolOp):
            if (isinstance(test.op, ast.And) and truth) or (isinstance(test.op, ast.Or) and not truth):
                for x in test.values:
                    st = self.learn(x, truth, st)
                    if st is None:
                        return None
            return st
        if isinstance(test, ast.Name):
            v = self.get(st, self.q(test.id))
            if v and v[0] == 'sym':
                return self.learn(ast.parse(v[1], mode='eval').body, truth, st)
            return st
        if pyflow._pure_test(test):
            t = ast.unparse(test)
            nm = frozenset(pyflow._names_in(test))
            if ('?', t, not truth, nm) in st:
                return None
            return frozenset(st) | {('?', t, truth, nm)}
        return st

    # ------------------------------------------------------------------ findings
    def path_text(self, st):
        conds = sorted('%s%s' % ('' if f[2] else 'not ', f[1]) for f in st if f[0] == '?' and len(f[1]) < 70)
        return '; '.join(conds[:6])

    def gil_less(self, st):
        """the path is feasible only without the GIL: some test of the path has the wrong truth once every *nogil* atom says `GIL held`"""
        def assume(e):
            t = ast.unparse(e)
            if NOGIL_ATOM.search(t) and not isinstance(e, (ast.BoolOp, ast.UnaryOp)):
                return False
            return None
        for f in st:
            if f[0] != '?':
                continue
            try:
                e = ast.parse(f[1], mode='eval').body
            except SyntaxError:
                continue
            self.skip = {f[1]}
            try:
                v = self.eval3(e, st, assume)
                plain = self.eval3(e, st)
            finally:
                self.skip = ()
            if v is not None and v != f[2] and plain is None:
                return True
        return False

    def undecided(self, st):
        if any(f[0] == 'unknown' for f in st):
            return 'a helper that receives `code` could not be inlined'
        if self.gil_less(st):
            return 'path without the GIL'
        for f in st:
            if f[0] == '?' and f[2] is False and re.search(r'\.(is_pyobject|needs_refcounting|is_memoryviewslice)\b', f[1]):
                try:
                    e = ast.parse(f[1], mode='eval').body
                except SyntaxError:
                    continue
                self.skip = {f[1]}
                try:
                    und = self.eval3(e, st) is None
                finally:
                    self.skip = ()
                if und:
                    return 'type predicate on an expression that is not tied to the return type: %s' % f[1]
        return None

    def report(self, rule, slot_key, node, st, msg):
        """-> a ('viol', ...) fact: the finding is carried by the path and only counts if the path survives to the end of the function
        (a later test may show it to be infeasible); whether the path is decidable at all is judged here, with the facts known now"""
        t = self.top
        key = '%s.%s:%s' % (t.m.short, t.qn, slot_key)
        return ('viol', rule, key, self.m.rel, node.lineno, msg, self.undecided(st))

    # ------------------------------------------------------------------ slots
    def slot(self, e, st):
        v = self.val(e, st)
        if v == ('R',):
            return ('R',)
        if v and v[0] == 'temp':
            return v
        return None

    @staticmethod
    def loaded(st, slot):
        return ('loaded', slot) in st

    def srckey(self, st, slot):
        for f in st:
            if f[0] == 'src' and f[1] == slot:
                return f[2]
        return 'Naming.retval_cname' if slot == ('R',) else slot[1]

    def do_assign(self, st, dst_e, src_e):
        dst, src = self.slot(dst_e, st), self.slot(src_e, st)
        s = set(st)
        if dst and src and self.loaded(st, src):
            s.add(('copy', dst, src))
            s = set(f for f in s if not (f[0] == 'src' and f[1] == dst))
            s.add(('src', dst, self.srckey(st, src) if src != ('R',) else 'Naming.retval_cname'))
        return s

    def do_zero(self, st, e):
        x = self.slot(e, st)
        if not x:
            return set(st)
        s = set(st)
        for f in list(s):
            if f[0] == 'copy' and f[2] == x:
                s.discard(f)
                s.add(('loaded', f[1]))
                if f[1][0] == 'temp':
                    self.sink.instances.setdefault(('C22-PARKED', '%s.%s:%s' % (self.top.m.short, self.top.qn, self.srckey(s, f[1]))),
                                                   '%s.%s: %s moved into an unmanaged local temp (%s)' % (self.top.m.short, self.top.qn, self.srckey(s, f[1]), f[1][1].split('/')[-1]))
        s.discard(('loaded', x))
        s = set(f for f in s if not (f[0] == 'copy' and f[1] == x))
        return s

    def do_release(self, st, e):
        x = self.slot(e, st)
        if not x:
            return set(st)
        s = set(st)
        s.discard(('loaded', x))
        at = [f[1] for f in s if f[0] == 'at']
        s = set(f for f in s if not (f[0] == 'owe' and f[1] == x and f[2] in at))
        return s

    def do_place(self, st, labs):
        s = set(f for f in st if f[0] != 'at')
        for lab in labs:
            if lab and lab[0] == 'lab':
                s.add(('at', lab))
                if lab[1] == 'return' and lab[2] not in ('outer', '?') and self.rc():
                    s.add(('loaded', ('R',)))
                    self.sink.instances.setdefault(('C22-RETLIVE', '%s.%s:Naming.retval_cname' % (self.top.m.short, self.top.qn)),
                                                   '%s.%s places a label that intercepts `return`' % (self.top.m.short, self.top.qn))
        return s

    def jump(self, st, node, kinds, what):
        """a generated child / emitted error exit may jump to the current labels of `kinds`"""
        s = set(st)
        if self.loaded(st, ('R',)):
            s.add(self.report('C22-RETLIVE', 'Naming.retval_cname', node, st,
                              '%s emits %s (%s) at a label that intercepts `return` while the result variable still holds the pending return value: '
                              'when that code raises (or leaves with break / continue and the function then ends without another return) the variable is overwritten '
                              'and the returned object leaks, e.g. `try: return x  finally: raise E`' % (self.top.qn, what, node_src(node, 70))))
        for f in st:
            if f[0] == 'loaded' and f[1][0] == 'temp':
                t = f[1]
                if ('escaped', t) in st:
                    continue
                outer = [k for k in kinds if self.cur(st, k)[2] == 'outer']
                if outer:
                    s.add(self.report('C22-PARKED', self.srckey(st, t), node, st,
                                      '%s emits %s (%s) while the unmanaged local temp %s owns the reference moved out of %s, with the enclosing %s label%s still installed: '
                                      'a jump to %s never releases the temp (leak), e.g. `try: return x  finally: cleanup()` with a cleanup() that raises'
                                      % (self.top.qn, what, node_src(node, 70), t[1].split('/')[-1], self.srckey(st, t), ' / '.join(outer), 's' if len(outer) > 1 else '',
                                         'them' if len(outer) > 1 else 'it')))
                for k in kinds:
                    lab = self.cur(st, k)
                    if lab[2] not in ('outer', '?'):
                        s.add(('owe', t, lab, self.srckey(st, t)))
        return s

    # ------------------------------------------------------------------ calls
    def call_effect(self, call, st, node):
        """-> set of states"""
        c = _code_call(call, ('all_new_labels', 'new_loop_labels', 'new_error_label'))
        if c:
            # remember the replaced label values: they are the value of the call (`old = code.all_new_labels()`)
            kinds = {'all_new_labels': KINDS, 'new_loop_labels': KINDS[:2], 'new_error_label': ('error',)}[c]
            s = set(f for f in st if not (f[0] == 'prev' and f[1] in kinds))
            for k in kinds:
                s.add(('prev', k, self.cur(st, k)))
            st = frozenset(s)
        s = set(st)
        f = call.func
        em = emission(call)
        if em:
            tpl, args = em
            for eff in c_effects(tpl):
                if eff[0] == 'assign':
                    s = self.do_assign(s, args[eff[1]], args[eff[2]])
                elif eff[0] == 'zero':
                    s = self.do_zero(s, args[eff[1]])
                elif eff[0] == 'place':
                    v = self.val(args[eff[1]], s)
                    if v and v[0] == 'lab':
                        s = self.do_place(s, [v])
            return {frozenset(s)}
        if isinstance(f, ast.Attribute) and _is_code(f.value):
            a0 = call.args[0] if call.args else None
            if f.attr in RELEASES and a0 is not None:
                return {frozenset(self.do_release(s, a0))}
            if f.attr.startswith('error_goto'):
                return {frozenset(self.jump(s, node, ('error',), 'an error exit'))}
            if f.attr == 'put_label' and a0 is not None:
                v = self.val(a0, s)
                return {frozenset(self.do_place(s, [v] if v else []))}
            if f.attr == 'put_goto' and a0 is not None:
                v = self.val(a0, s)
                s = set(x for x in s if x[0] != 'at')
                if v and v[0] == 'lab' and v[1] == 'return':
                    s.discard(('loaded', ('R',)))
                return {frozenset(s)}
            if f.attr in ('set_all_labels', 'set_loop_labels') and a0 is not None:
                kinds = KINDS if f.attr == 'set_all_labels' else KINDS[:2]
                v = self.val(a0, s)
                for i, k in enumerate(kinds):
                    s = self.set_cur(s, k, v[1][i] if v and v[0] == 'labs' and len(v[1]) == len(kinds) else ('lab', k, '?'))
                return {frozenset(s)}
            if f.attr in ('all_new_labels', 'new_loop_labels'):
                for k in (KINDS if f.attr == 'all_new_labels' else KINDS[:2]):
                    s = self.set_cur(s, k, self.fresh(call, k))
                return {frozenset(s)}
            if f.attr == 'new_error_label':
                return {frozenset(self.set_cur(s, 'error', self.fresh(call, 'error')))}
            return {frozenset(s)}
        if _code_call(call, ('release_temp',)) and call.args:
            x = self.slot(call.args[0], s)
            if x:
                s = set(y for y in s if not (y[0] in ('loaded', 'copy', 'src', 'escaped') and y[1] == x) and not (y[0] == 'copy' and y[2] == x))
            return {frozenset(s)}
        if isinstance(f, ast.Attribute) and f.attr == 'put_init_entry' and call.args:
            return {frozenset(self.do_zero(s, call.args[0]))}
        if isinstance(f, ast.Attribute) and _passes_code(call):
            if f.attr in CHILD_ALL and not (isinstance(f.value, ast.Name) and f.value.id == 'self'):
                return {frozenset(self.jump(s, node, KINDS, 'the code of a child statement'))}
            if f.attr in CHILD_ERR and not (isinstance(f.value, ast.Name) and f.value.id == 'self'):
                return {frozenset(self.jump(s, node, ('error',), 'the code of a child expression'))}
            r = self.inline(call, frozenset(s), node)
            if r is not None:
                return r
            if isinstance(f.value, ast.Name) and f.value.id == 'self':
                if f.attr.startswith('generate_') or f.attr.startswith('put_'):
                    s.add(('unknown',))
                return {frozenset(s)}
        # a tracked temp handed to something the evaluator does not know
        for a in list(call.args) + [k.value for k in call.keywords]:
            x = self.slot(a, s) if isinstance(a, (ast.Name, ast.Attribute)) else None
            if x and x[0] == 'temp' and not (isinstance(f, ast.Attribute) and _is_code(f.value)):
                s.add(('escaped', x))
        return {frozenset(s)}

    # ------------------------------------------------------------------ transfer
    def transfer(self, node, st):
        states = {frozenset(st)}
        for call in pyflow.calls_in(node):
            nxt = set()
            for s in states:
                nxt |= self.call_effect(call, s, node)
            states = nxt
        out = set()
        for s in states:
            s = set(s)
            if isinstance(node, ast.Assign) and len(node.targets) == 1:
                s = self.assign(node.targets[0], node.value, s)
            elif isinstance(node, ast.Return):
                v = self.val(node.value, s) if node.value is not None else ('none',)
                s = set(f for f in s if f[0] != 'ret')
                if v is not None:
                    s.add(('ret', v))
            out.add(frozenset(s))
        return out

    def assign(self, tgt, value, s):
        if isinstance(tgt, ast.Name):
            tq = self.q(tgt.id)
        elif isinstance(tgt, ast.Attribute):
            k = _code_label_attr(tgt)
            if k:
                v = self.val(value, s)
                if _code_call(value, ('new_label',)):
                    v = self.fresh(value, k)
                elif v and v[0] == 'lab' and v[1] is None:
                    v = ('lab', k, v[2])
                    if isinstance(value, ast.Name):
                        s = self.bind(s, self.q(value.id), v)     # the variable now names a label of this kind
                return self.set_cur(s, k, v if v and v[0] == 'lab' else ('lab', k, '?'))
            tq = ast.unparse(tgt)
        elif isinstance(tgt, (ast.Tuple, ast.List)):
            v = self.val(value, s)
            for i, t in enumerate(tgt.elts):
                if isinstance(t, ast.Name):
                    s = self.bind(s, self.q(t.id), v[1][i] if v and v[0] == 'labs' and len(v[1]) == len(tgt.elts) else None)
            return s
        else:
            return s
        ty = _unmanaged_alloc(value)
        if ty is not None and isinstance(tgt, ast.Name):
            return self.bind(s, tq, ('temp', tq))
        if isinstance(value, ast.IfExp) and _code_call(value.body, ('new_label',)) and isinstance(value.orelse, ast.Constant) and value.orelse.value is None:
            value = value.body
        if isinstance(value, ast.Call) and isinstance(value.func, ast.Attribute) and value.func.attr == 'label_interceptor' and _is_code(value.func.value) and value.args:
            v = self.val(value.args[0], s)
            return self.bind(s, tq, ('icept', v[1]) if v and v[0] == 'labs' else None)
        c = _code_call(value, ('all_new_labels', 'new_loop_labels', 'new_error_label', 'new_label'))
        if c:
            # the value of the call is what the slots held BEFORE it: recover it from the fresh labels' kinds
            if c == 'new_label':
                return self.bind(s, tq, ('lab', None, self.fresh(value, None)[2]))
            kinds = {'all_new_labels': KINDS, 'new_loop_labels': KINDS[:2], 'new_error_label': ('error',)}[c]
            old = [next((f[2] for f in s if f[0] == 'prev' and f[1] == k), ('lab', k, '?')) for k in kinds]
            return self.bind(s, tq, ('labs', tuple(old)) if c != 'new_error_label' else old[0])
        r = [f for f in s if f[0] == 'ret']
        if r and isinstance(value, ast.Call) and isinstance(value.func, ast.Attribute) and isinstance(value.func.value, ast.Name) and value.func.value.id == 'self':
            s = set(f for f in s if f[0] != 'ret')
            return self.bind(s, tq, r[0][1])
        return self.bind(s, tq, self.val(value, s))

    # ------------------------------------------------------------------ loops over labels
    def special_loop(self, flow, s, states):
        it = s.iter
        o = pyflow.Outcome()
        direct = isinstance(it, ast.Call) and isinstance(it.func, ast.Attribute) and it.func.attr == 'label_interceptor' and _is_code(it.func.value) and it.args
        if direct or (isinstance(it, ast.Name) and states and all((self.get(st, self.q(it.id)) or ('',))[0] == 'icept' for st in states)):
            cur = set()
            for st in states:
                v = self.val(it.args[0], st) if direct else ('labs', self.get(st, self.q(it.id))[1])
                if not (v and v[0] == 'labs'):
                    return None
                cur.add(frozenset(self.do_place(st, v[1])))
            r = flow.block(s.body, cur)
            o.returns |= r.returns
            o.raises |= r.raises
            for st in r.normal | r.continues | r.breaks:
                st = set(f for f in st if f[0] != 'at')
                st.discard(('loaded', ('R',)))
                o.normal.add(frozenset(st))
            return o
        inner = it
        enum = False
        if isinstance(inner, ast.Call) and isinstance(inner.func, ast.Name) and inner.func.id == 'enumerate' and inner.args:
            inner, enum = inner.args[0], True
        if not (isinstance(inner, ast.Call) and isinstance(inner.func, ast.Name) and inner.func.id == 'zip' and len(inner.args) >= 1):
            return None
        tgt = s.target
        if enum:
            if not (isinstance(tgt, ast.Tuple) and len(tgt.elts) == 2):
                return None
            tgt = tgt.elts[1]
        names = [t.id if isinstance(t, ast.Name) else None for t in (tgt.elts if isinstance(tgt, ast.Tuple) else [tgt])]
        if len(names) != len(inner.args):
            return None
        cur = set(states)
        n = None
        for st in cur:
            for a in inner.args:
                v = self.val(a, st)
                if not (v and v[0] == 'labs'):
                    return None
                if n is not None and len(v[1]) != n:
                    return None
                n = len(v[1])
        done = set()
        for i in range(n or 0):
            start = set()
            for st in cur:
                s2 = set(f for f in st if f[0] != 'at' and f != ('loaded', ('R',)))
                s2 = set(f for f in s2 if not (f[0] == '?' and any(nm and (nm in f[3]) for nm in names)))
                for nm, a in zip(names, inner.args):
                    if nm:
                        s2 = self.bind(s2, self.q(nm), self.val(a, st)[1][i])
                start.add(frozenset(s2))
            r = flow.block(s.body, pyflow.merge_correlation(start))
            o.returns |= r.returns
            o.raises |= r.raises
            done |= r.breaks
            cur = pyflow.merge_correlation(r.normal | r.continues)
            if len(cur) > pyflow.MAX_STATES:
                raise pyflow.TooManyStates()
        for st in cur | done:
            o.normal.add(frozenset(f for f in st if f[0] != 'at' and f != ('loaded', ('R',))))
        return o


def _candidates(ctx):
    """generator functions that generate child code and park something / intercept labels (directly or in a self.helper)"""
    fns = list(gen_functions(ctx, ('Nodes', 'ExprNodes', 'UtilNodes', 'MatchCaseNodes', 'ModuleNode', 'FusedNode')))
    feat = {}
    for m, qn, owner, fn in fns:
        src_calls = [n for n in ast.walk(fn) if isinstance(n, ast.Call) and isinstance(n.func, ast.Attribute)]
        feat[fn] = dict(
            child=any(c.func.attr in CHILD_ALL | CHILD_ERR and _passes_code(c) for c in src_calls),
            park=any(_unmanaged_alloc(n.value) is not None for n in ast.walk(fn) if isinstance(n, ast.Assign)),
            labels=any(c.func.attr in ('all_new_labels', 'label_interceptor') for c in src_calls) or
                   any(isinstance(n, ast.Assign) and any(_code_label_attr(t) == 'return' for t in n.targets) for n in ast.walk(fn)),
            selfcalls={c.func.attr for c in src_calls if isinstance(c.func.value, ast.Name) and c.func.value.id == 'self' and _passes_code(c)})
    for m, qn, owner, fn in fns:
        f = feat[fn]
        helpers = []
        if owner is not None:
            for nm in f['selfcalls']:
                r = ctx.index.find_method(owner, nm)
                if r and r[1] in feat:
                    helpers.append(feat[r[1]])
        child = f['child'] or any(h['child'] for h in helpers)
        park = f['park'] or any(h['park'] for h in helpers)
        labels = f['labels'] or any(h['labels'] for h in helpers)
        if child and (park or labels):
            yield m, qn, owner, fn


def _check_partition(ctx):
    """the classes of PyrexTypes that need reference counting are exactly the object types and the memoryview slices"""
    ix = ctx.index
    m = ix.mod('PyrexTypes')
    seen = 0
    for name, c in m.classes.items():
        a = c.attrs.get('needs_refcounting')
        if a is None:
            continue
        seen += 1
        if not (isinstance(a, ast.Constant) and a.value):
            continue
        flags = []
        for fl in ('is_pyobject', 'is_memoryviewslice'):
            r = ix.find_class_attr(c, fl)
            flags.append(bool(r and isinstance(r[1], ast.Constant) and r[1].value))
        if not any(flags):
            raise AnalysisError('PyrexTypes.%s needs reference counting but is neither an object type nor a memoryview slice: the return type partition of C22-PARKED is incomplete' % name)
    if seen < 3:
        raise AnalysisError('needs_refcounting declarations not found in PyrexTypes')


def _mentions_return_type(ctx, owner, fn):
    """does the function (or a self.helper it calls) look at a return type at all?  If not, the classes of the partition only differ
    in whether the result variable holds a reference, and one class of each kind is enough."""
    fns = [fn]
    if owner is not None:
        for c in ast.walk(fn):
            if isinstance(c, ast.Call) and isinstance(c.func, ast.Attribute) and isinstance(c.func.value, ast.Name) and c.func.value.id == 'self':
                r = ctx.index.find_method(owner, c.func.attr)
                if r:
                    fns.append(r[1])
    for f in fns:
        for n in ast.walk(f):
            if isinstance(n, ast.Attribute) and (RT_NAME.search(n.attr) or n.attr in RT_TABLE):
                return True
    return False


def _evaluate_fn(ctx, m, qn, owner, fn, sink):
    for rt in (RTYPES if _mentions_return_type(ctx, owner, fn) else ('object', 'plain')):
        ev = Ev(ctx, m, owner, fn, qn, rt, sink)
        init = frozenset(('cur', k, ('lab', k, 'outer')) for k in KINDS)
        try:
            o = MultiFlow(ev).run(fn, init)
        except pyflow.TooManyStates:
            sink.infos.add('%s.%s: too many states, not decided' % (m.short, qn))
            return
        for st in o.normal | o.returns:
            for f in st:
                if f[0] == 'viol':
                    if f[6]:
                        sink.infos.add('%s %s not decided (%s)' % (f[1], f[2], f[6]))
                    elif (f[1], f[2]) not in sink.violations:
                        sink.violations[(f[1], f[2])] = (f[3], f[4], f[5] + ' [return type class: %s]' % rt)
                if f[0] == 'owe':
                    key = '%s.%s:%s' % (m.short, qn, f[3])
                    why = ev.undecided(st)
                    if why:
                        sink.infos.add('C22-PARKED %s not decided (%s)' % (key, why))
                    elif ('C22-PARKED', key) not in sink.violations:
                        sink.violations[('C22-PARKED', key)] = (m.rel, fn.lineno,
                            '%s generates child code that can jump to a fresh %s label while the unmanaged local temp %s owns the reference moved out of %s, '
                            'but that label is not placed with a release of the temp on every path: the reference leaks when the child leaves by that exit '
                            '[return type class: %s]' % (qn, f[2][1], f[1][1].split('/')[-1], f[3], rt))


def _inline(self, call, st, node):
    """self.helper(..., code, ...) -> set of states after the call (with a ('ret', value) fact), or None"""
    f = call.func
    if not (isinstance(f, ast.Attribute) and isinstance(f.value, ast.Name) and f.value.id == 'self' and self.owner is not None):
        return None
    if self.depth >= MAX_DEPTH:
        return None
    r = self.ctx.index.find_method(self.owner, f.attr)
    if not r:
        return None
    k, fn = r
    if fn is self.fn or fn is self.top.fn:
        return None
    params = [a.arg for a in fn.args.args][1:]
    sub = Ev(self.ctx, k.module, self.owner, fn, self.qn, self.rtype, self.sink, self.depth + 1, '%s%s/' % (self.frame, fn.name), self.top)
    s = set(st)
    pairs = list(zip(params, call.args)) + [(kw.arg, kw.value) for kw in call.keywords if kw.arg in params]
    for p, a in pairs:
        v = self.val(a, st)
        if v is not None:
            s = self.bind(s, sub.q(p), v)
    try:
        o = MultiFlow(sub).run(fn, frozenset(s))
    except pyflow.TooManyStates:
        return None
    out = set()
    for s2 in o.normal | o.returns:
        # the callee's locals and the tests on them end with the call
        out.add(frozenset(x for x in s2 if not (x[0] == 'var' and x[1].startswith(sub.frame)) and
                          not (x[0] == '?' and any(not (n.startswith('self') or n.startswith('code')) for n in x[3]))))
    return out


Ev.inline = _inline


POSITIVE = '''
def generate_execution_code(self, code):
    old_labels = code.all_new_labels()
    new_labels = code.get_all_labels()
    self.body.generate_execution_code(code)
    code.set_all_labels(old_labels)
    return_label = code.return_label
    for new_label, old_label in zip(new_labels, old_labels):
        code.putln('%s: {' % new_label)
        keep = None
        if old_label == return_label and not self.handler.is_terminator:
            keep = code.funcstate.allocate_temp(self.func_return_type, manage_ref=False)
            code.putln("%s = %s;" % (keep, Naming.retval_cname))
            code.putln("%s = 0;" % Naming.retval_cname)
        self.handler.generate_execution_code(code)
        if keep:
            code.putln("%s = %s;" % (Naming.retval_cname, keep))
            code.putln("%s = 0;" % keep)
            code.funcstate.release_temp(keep)
        code.put_goto(old_label)
        code.putln('}')
'''


def _positive(ctx):
    class M:
        short, rel = 'positive', '<embedded>'
    fn = ast.parse(POSITIVE).body[0]
    sink = Sink()
    _evaluate_fn(ctx, M, 'T.generate_execution_code', None, fn, sink)
    return sink


def evaluate(ctx):
    def run():
        _check_partition(ctx)
        sink = Sink()
        n = 0
        for m, qn, owner, fn in _candidates(ctx):
            n += 1
            _evaluate_fn(ctx, m, qn, owner, fn, sink)
        if n < 3:
            raise AnalysisError('only %d candidate generator functions found' % n)
        pos = _positive(ctx)
        return sink, pos, n
    return ctx.memo('dD4.evaluate', run)


def _rule(ctx, rid, desc, floor, pos_what):
    r = Rule(rid, desc, floor)
    sink, pos, n = evaluate(ctx)
    for (rule, key), sample in sorted(sink.instances.items()):
        if rule == rid:
            r.inst(key, sample=sample)
    for (rule, key), (rel, line, msg) in sorted(sink.violations.items()):
        if rule == rid:
            if (rule, key) not in sink.instances:
                r.inst(key, sample=key)
            r.violate(key, rel, line, msg)
    for i in sorted(sink.infos):
        if i.startswith(rid) or not i.startswith('C22-'):
            r.info(i)
    r.positive_control(any(rule == rid for rule, key in pos.violations), pos_what)
    return r


def rule_parked(ctx, floor=1):
    return _rule(ctx, 'C22-PARKED', 'a reference moved into an unmanaged local temp while child code is generated is released at every label the child can jump to', floor,
                 'finally-like clause generated with the enclosing labels while the return value sits in an unmanaged temp')


def rule_retlive(ctx, floor=1):
    return _rule(ctx, 'C22-RETLIVE', 'no child code is generated at a return-intercepting label while the result variable still holds the pending return value', floor,
                 'terminating finally-like clause generated with the return value left in the result variable')


def rules(ctx):
    return [rule_parked(ctx), rule_retlive(ctx)]
