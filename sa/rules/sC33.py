"""Two decision rules for C33 (Python <-> C value conversions).

C33-DICT — decision table of the dict -> struct / dict -> union converters of CConvert.pyx.
    The Tempita template is expanded (mini expander of the checker) for 1, 2 and 3 members, the Cython function is read as a
    Python AST and interpreted by an abstract interpreter that belongs to the checker over the COMPLETE partition of all
    mappings with respect to the operations the converter performs on its argument (len, `key in obj`, obj[key] for the
    member keys):   (set of member keys present) x (other keys: none / some).
    Required table:  union  -> returns exactly when one member key is present and there is no other key, with
                               result.<field of that member> = obj[<name of that member>]; every other class raises;
                     struct -> returns (every field from its own key) when all member keys are present, raises otherwise.
    Any operation on the mapping outside the modelled ones raises ANALYSIS-ERROR.

C33-ENC — encoder / decoder agreement with the default C string encoding.
    For every preprocessor configuration (limited API x limited version x ASCII / UTF-8) of the str -> char* helper(s) whose
    body depends on __PYX_DEFAULT_STRING_ENCODING_IS_ASCII: each `return <buffer>` must return a UTF-8 buffer of the
    argument, with *length set on the path; the character count (PyUnicode_GET_LENGTH / PyUnicode_GetLength) may serve
    as byte length only under an ASCII witness; and in the ASCII configuration every such return must be ASCII-witnessed:
    dominated by a positive PyUnicode_IS_ASCII(o) guard or by an exit taken when character count != UTF-8 byte count
    (the two are equal exactly for ASCII text).  The decoding macro must use the decoder of the same encoding flag.
"""
import ast, itertools, re

from ..core import Rule, AnalysisError
from ..engine import cexpr
from . import pC17

CCONV = 'Cython/Utility/CConvert.pyx'
TCONV = 'Cython/Utility/TypeConversion.c'


# ====================================================================================== mini Tempita (for .pyx utility code)
TEMPITA = re.compile(r'\{\{(.*?)\}\}', re.S)


class _O:
    def __init__(self, **kw):
        self.__dict__.update(kw)


def _tev(node, env):
    if isinstance(node, ast.Constant):
        return node.value
    if isinstance(node, ast.Name):
        if node.id in env:
            return env[node.id]
        raise AnalysisError('C33-DICT: template variable %s is not modelled' % node.id)
    if isinstance(node, ast.Attribute):
        base = _tev(node.value, env)
        if isinstance(base, _O) and hasattr(base, node.attr):
            return getattr(base, node.attr)
        raise AnalysisError('C33-DICT: template attribute .%s is not modelled' % node.attr)
    if isinstance(node, ast.Call) and isinstance(node.func, ast.Attribute) and node.func.attr == 'join' and len(node.args) == 1:
        sep = _tev(node.func.value, env)
        arg = node.args[0]
        if isinstance(sep, str) and isinstance(arg, (ast.GeneratorExp, ast.ListComp)) and len(arg.generators) == 1 and not arg.generators[0].ifs \
                and isinstance(arg.generators[0].target, ast.Name):
            g = arg.generators[0]
            return sep.join(str(_tev(arg.elt, dict(env, **{g.target.id: v}))) for v in _tev(g.iter, env))
    raise AnalysisError('C33-DICT: template expression %s is outside the modelled subset' % ast.unparse(node))


def expand(text, env):
    toks, pos = [], 0
    for m in TEMPITA.finditer(text):
        if m.start() > pos:
            toks.append(('text', text[pos:m.start()]))
        pos = m.end()
        b = m.group(1).strip()
        b2 = b[:-1].rstrip() if b.endswith(':') else b
        if b2.startswith('for '):
            mm = re.match(r'for\s+(\w+)\s+in\s+(.+)$', b2, re.S)
            if not mm:
                raise AnalysisError('C33-DICT: unsupported template loop %r' % b)
            toks.append(('for', mm.group(1), mm.group(2)))
        elif b2 == 'endfor':
            toks.append(('endfor',))
        elif re.match(r'(if|elif|else|endif|py:|def|default)\b', b2):
            raise AnalysisError('C33-DICT: template directive %r is not modelled' % b)
        else:
            toks.append(('expr', b2))
    toks.append(('text', text[pos:]))

    def run(i, env, stop):
        out = []
        while i < len(toks):
            t = toks[i]
            if t[0] == stop:
                return ''.join(out), i
            if t[0] == 'text':
                out.append(t[1])
                i += 1
            elif t[0] == 'expr':
                out.append(str(_tev(ast.parse(t[1], mode='eval').body, env)))
                i += 1
            elif t[0] == 'for':
                seq = _tev(ast.parse(t[2], mode='eval').body, env)
                end = None
                if not seq:
                    raise AnalysisError('C33-DICT: empty template loop')
                for v in seq:
                    body, end = run(i + 1, dict(env, **{t[1]: v}), 'endfor')
                    out.append(body)
                i = end + 1
            else:
                raise AnalysisError('C33-DICT: unbalanced template directive %r' % (t,))
        if stop:
            raise AnalysisError('C33-DICT: template loop not closed')
        return ''.join(out), i
    return run(0, env, None)[0]


def section(src, name):
    parts = re.split(r'^#{10,} (\S+) #{10,}[ \t]*\n', src, flags=re.M)
    d = dict(zip(parts[1::2], parts[2::2]))
    if name not in d:
        raise AnalysisError('section %s missing from CConvert.pyx' % name)
    return d[name], src.count('\n', 0, src.index(d[name])) + 1


def converter_ast(text):
    """The `cdef T name(obj) ...:` function of an expanded section as a Python FunctionDef."""
    lines = text.split('\n')
    start = None
    for i, l in enumerate(lines):
        if re.match(r'^cdef\s+.*\(\s*\w+\s*\)\s*(?:except[^:]*)?:\s*$', l):
            start = i
    if start is None:
        raise AnalysisError('C33-DICT: converter function header not found')
    m = re.search(r'\(\s*(\w+)\s*\)', lines[start])
    body = []
    for l in lines[start + 1:]:
        if l.strip() and not l.startswith((' ', '\t')):
            break
        if re.match(r'^\s+cdef\s', l):
            body.append(re.match(r'^\s+', l).group(0) + 'pass')
            continue
        body.append(l)
    src = 'def converter(%s):\n%s\n' % (m.group(1), '\n'.join(body))
    try:
        return ast.parse(src).body[0]
    except SyntaxError as e:
        raise AnalysisError('C33-DICT: expanded converter is not parsable as Python: %s' % e)


# ====================================================================================== abstract interpreter over mapping classes
class Mapping:
    pass


class Len:
    def __init__(self, n, extra):
        self.n, self.extra = n, extra

    def truth(self):
        if self.n < 0:
            raise AnalysisError('C33-DICT: the key counter becomes negative')
        return self.extra or self.n > 0


class Val:
    def __init__(self, key):
        self.key = key

    def __eq__(self, o):
        return isinstance(o, Val) and o.key == self.key

    def __hash__(self):
        return hash(('Val', self.key))

    def __repr__(self):
        return 'obj[%r]' % self.key


class Opaque:
    def __init__(self, what='text'):
        self.what = what


class Exc(Exception):
    def __init__(self, name):
        self.name = name


class _Ret(Exception):
    pass


class Result:
    def __init__(self):
        self.fields = {}


class DictInterp:
    def __init__(self, fn, present, extra):
        self.fn, self.present, self.extra = fn, frozenset(present), extra
        self.env = {fn.args.args[0].arg: Mapping()}
        self.result = Result()
        self.env['result'] = self.result

    def run(self):
        try:
            self.block(self.fn.body)
        except _Ret as r:
            v = r.args[0]
            if v is not self.result:
                raise AnalysisError('C33-DICT: the converter returns something other than `result`')
            return ('return', dict(self.result.fields))
        except Exc as e:
            return ('raise', e.name)
        return ('fall', None)

    def truth(self, v):
        if isinstance(v, Len):
            return v.truth()
        if isinstance(v, (bool, int, str, type(None))):
            return bool(v)
        if isinstance(v, (Val, Opaque)):
            raise AnalysisError('C33-DICT: truth of a run-time value decides the conversion (not modelled)')
        raise AnalysisError('C33-DICT: truth of %r is not modelled' % (v,))

    def ev(self, e):
        if isinstance(e, ast.Constant):
            return e.value
        if isinstance(e, ast.Name):
            if e.id in self.env:
                return self.env[e.id]
            if e.id in ('True', 'False', 'None'):
                return {'True': True, 'False': False, 'None': None}[e.id]
            if e.id in ('ValueError', 'TypeError', 'KeyError', 'IndexError', 'OverflowError'):
                return e.id
            if any(isinstance(n, ast.Name) and n.id == e.id and isinstance(n.ctx, ast.Store) for n in ast.walk(self.fn)):
                raise Exc('UnboundLocalError')       # a local that is assigned on another path only
            raise AnalysisError('C33-DICT: unbound name %s in the converter' % e.id)
        if isinstance(e, ast.JoinedStr):
            for v in e.values:
                if isinstance(v, ast.FormattedValue):
                    self.ev(v.value)
            return Opaque()
        if isinstance(e, ast.BinOp) and isinstance(e.op, ast.Mod):
            self.ev(e.left)
            self.ev(e.right)
            return Opaque()
        if isinstance(e, ast.UnaryOp) and isinstance(e.op, ast.Not):
            return not self.truth(self.ev(e.operand))
        if isinstance(e, ast.BoolOp):
            last = None
            for sub in e.values:
                last = self.ev(sub)
                t = self.truth(last)
                if isinstance(e.op, ast.And) and not t:
                    return last
                if isinstance(e.op, ast.Or) and t:
                    return last
            return last
        if isinstance(e, ast.Compare) and len(e.ops) == 1:
            a, b = self.ev(e.left), self.ev(e.comparators[0])
            op = e.ops[0]
            if isinstance(op, (ast.In, ast.NotIn)) and isinstance(b, Mapping):
                if not isinstance(a, str):
                    raise AnalysisError('C33-DICT: membership test of a non-constant key')
                r = a in self.present
                return r if isinstance(op, ast.In) else not r
            if isinstance(op, (ast.Is, ast.IsNot)):
                if a is None or b is None:
                    r = a is None and b is None
                    return r if isinstance(op, ast.Is) else not r
            if isinstance(op, (ast.Eq, ast.NotEq)):
                for x, y in ((a, b), (b, a)):
                    if isinstance(x, Len) and isinstance(y, int):
                        if x.extra:
                            if y <= x.n:
                                r = False
                            else:
                                raise AnalysisError('C33-DICT: comparison of the key counter with %d is not decided by the partition' % y)
                        else:
                            r = x.n == y
                        return r if isinstance(op, ast.Eq) else not r
                if isinstance(a, (str, int, type(None), bool)) and isinstance(b, (str, int, type(None), bool)):
                    return (a == b) if isinstance(op, ast.Eq) else (a != b)
            raise AnalysisError('C33-DICT: comparison %s is not modelled' % ast.unparse(e))
        if isinstance(e, ast.Subscript):
            base, k = self.ev(e.value), self.ev(e.slice)
            if isinstance(base, Mapping):
                if not isinstance(k, str):
                    raise AnalysisError('C33-DICT: subscript of the mapping with a non-constant key')
                if k in self.present:
                    return Val(k)
                raise Exc('KeyError')
            raise AnalysisError('C33-DICT: subscript %s is not modelled' % ast.unparse(e))
        if isinstance(e, ast.Call):
            f = e.func
            name = f.id if isinstance(f, ast.Name) else (f.attr if isinstance(f, ast.Attribute) else None)
            args = [self.ev(a) for a in e.args]
            if name == 'len' and len(args) == 1 and isinstance(args[0], Mapping):
                return Len(len(self.present), self.extra)
            if name == 'PyMapping_Check' and len(args) == 1 and isinstance(args[0], Mapping):
                return True
            if name in ('unlikely', 'likely') and len(args) == 1:
                return args[0]
            if name in ('repr', 'str'):
                return Opaque()
            if name in ('ValueError', 'TypeError', 'KeyError', 'IndexError', 'OverflowError'):
                return ('exc', name)
            if name and name.startswith('__Pyx_Raise'):
                raise Exc('TypeError')
            if any(isinstance(a, Mapping) for a in args):
                raise AnalysisError('C33-DICT: the converter passes the mapping to %s(), which the partition does not model' % name)
            raise AnalysisError('C33-DICT: call of %s is not modelled' % ast.unparse(f))
        raise AnalysisError('C33-DICT: expression %s is not modelled' % ast.unparse(e))

    def block(self, stmts):
        for s in stmts:
            self.stmt(s)

    def stmt(self, s):
        if isinstance(s, ast.Pass):
            return
        if isinstance(s, ast.Expr):
            self.ev(s.value)
            return
        if isinstance(s, ast.Assign) and len(s.targets) == 1:
            v = self.ev(s.value)
            t = s.targets[0]
            if isinstance(t, ast.Name):
                self.env[t.id] = v
                return
            if isinstance(t, ast.Attribute) and isinstance(t.value, ast.Name) and self.env.get(t.value.id) is self.result:
                self.result.fields[t.attr] = v
                return
            raise AnalysisError('C33-DICT: assignment target %s is not modelled' % ast.unparse(t))
        if isinstance(s, ast.AugAssign) and isinstance(s.target, ast.Name) and isinstance(s.op, (ast.Sub, ast.Add)):
            cur, d = self.env.get(s.target.id), self.ev(s.value)
            if isinstance(cur, Len) and isinstance(d, int):
                self.env[s.target.id] = Len(cur.n - d if isinstance(s.op, ast.Sub) else cur.n + d, cur.extra)
                return
            if isinstance(cur, int) and isinstance(d, int):
                self.env[s.target.id] = cur - d if isinstance(s.op, ast.Sub) else cur + d
                return
            raise AnalysisError('C33-DICT: %s is not modelled' % ast.unparse(s))
        if isinstance(s, ast.If):
            self.block(s.body if self.truth(self.ev(s.test)) else s.orelse)
            return
        if isinstance(s, ast.Return):
            raise _Ret(self.ev(s.value) if s.value is not None else None)
        if isinstance(s, ast.Raise):
            v = self.ev(s.exc) if s.exc is not None else None
            if isinstance(v, tuple) and v[0] == 'exc':
                raise Exc(v[1])
            if isinstance(v, str):
                raise Exc(v)
            raise AnalysisError('C33-DICT: raise of %s is not modelled' % ast.unparse(s))
        if isinstance(s, ast.Try) and not s.finalbody:
            try:
                self.block(s.body)
            except Exc as e:
                for h in s.handlers:
                    names = []
                    if h.type is None:
                        names = None
                    elif isinstance(h.type, ast.Name):
                        names = [h.type.id]
                    elif isinstance(h.type, ast.Tuple):
                        names = [x.id for x in h.type.elts if isinstance(x, ast.Name)]
                    if names is None or e.name in names or 'Exception' in names or 'LookupError' in names and e.name in ('KeyError', 'IndexError'):
                        self.block(h.body)
                        return
                raise
            else:
                self.block(s.orelse)
            return
        raise AnalysisError('C33-DICT: statement %s is not modelled' % type(s).__name__)


def dict_table(text, kind, n, strict_names=False):
    """-> [(present names, extra, outcome, problem or None)] for an n-member struct/union."""
    members = [_O(name='m%d' % i, cname='c%d' % i) for i in range(n)]
    src = expand(text, dict(var_entries=members, funcname='__sa_conv', struct_type='sa_struct_t'))
    fn = converter_ast(src)
    rows = []
    names = [m.name for m in members]
    cname = {m.name: m.cname for m in members}
    for k in range(n + 1):
        for present in itertools.combinations(names, k):
            for extra in (False, True):
                out = DictInterp(fn, present, extra).run()
                prob = None
                if kind == 'union':
                    want_return = len(present) == 1 and not extra
                else:
                    want_return = len(present) == n
                if out[0] == 'fall':
                    prob = 'falls off the end of the converter without returning or raising (an uninitialised value is returned)'
                elif want_return:
                    if out[0] != 'return':
                        prob = 'raises %s for a valid mapping' % out[1]
                    else:
                        # the field of member p is addressed by its Cython name or (pending FINDING: union) its C name; it must receive obj[p]
                        got = {}
                        for f, v in out[1].items():
                            owner = [p for p in names if f in (p, cname[p])]
                            got[owner[0] if owner else f] = v
                        want = {p: Val(p) for p in present}
                        if got != want:
                            prob = 'returns %s, required %s (each field from its own key)' % (
                                {k2: repr(v) for k2, v in sorted(out[1].items())}, {k2: repr(v) for k2, v in sorted(want.items())})
                        elif strict_names and any(f not in names for f in out[1]):
                            f = sorted(f for f in out[1] if f not in names)[0]
                            prob = ('stores %r into result.%s — the C name of the member; the utility is Cython code, where a struct/union field is addressed by its Cython '
                                    'name (the sibling converter uses {{member.name}}): the generated converter does not compile when a member was declared with a C name of its own'
                                    % (out[1][f], f))
                elif kind == 'struct' and extra and len(present) == n:
                    prob = None
                else:
                    if out[0] == 'return':
                        prob = 'is converted (fields %s) instead of raising' % sorted(out[1])
                    elif out[1] not in ('ValueError', 'TypeError', 'KeyError', 'OverflowError'):
                        prob = 'raises %s, not one of ValueError / TypeError / KeyError' % out[1]
                rows.append((present, extra, out, prob))
    return rows


UNION_BAD = '''
@cname("{{funcname}}")
cdef {{struct_type}} {{funcname}}(obj) except *:
    cdef {{struct_type}} result
    cdef Py_ssize_t length
    last_found = None
    length = len(obj)
    {{for member in var_entries:}}
    if length:
        if '{{member.name}}' in obj:
            if last_found is not None:
                raise ValueError("two")
            result.{{member.cname}} = obj['{{member.name}}']
            length -= 1
            last_found = '{{member.name}}'
    {{endfor}}
    if last_found is None:
        raise ValueError("none")
    return result
'''


def rule_dict(ctx):
    r = Rule('C33-DICT', 'dict -> struct / union converters of CConvert.pyx: decision table over (member keys present) x (other keys none/some) for 1..3 members: '
                         'a union converts exactly one member key and nothing else, a struct needs every member key, each field is read from its own key', floor=50)
    src = ctx.read(CCONV)
    for sec, kind in (('FromPyUnionUtility', 'union'), ('FromPyStructUtility', 'struct')):
        text, line = section(src, sec)
        reported = set()
        for n in (1, 2, 3):
            for present, extra, out, prob in dict_table(text, kind, n):
                cls = '%d of %d member keys%s' % (len(present), n, ' + other keys' if extra else '')
                key = 'dict:%s:%d:%s%s' % (sec, n, '+'.join(present) or '-', '+x' if extra else '')
                r.inst(key, sample='%s %s -> %s' % (sec, cls, out[0] if out[0] != 'raise' else 'raise ' + out[1]))
                if prob:
                    ck = 'CConvert.pyx:%s:%s' % (sec, 'extra-keys' if extra else 'member-keys')
                    if ck in reported:
                        continue
                    reported.add(ck)
                    r.violate(ck, CCONV, line, '%s (dict -> C %s) with %d members: a mapping holding {%s}%s %s' % (
                        sec, kind, n, ', '.join(present), ' plus keys that are not members' if extra else '', prob))
    pc = [p for _, _, _, p in dict_table(UNION_BAD, 'union', 2) if p]
    r.positive_control(bool(pc), 'union converter that ignores left-over keys')
    return r


def rule_dict_fields(ctx):
    # pending finding (FINDING_1.md): FromPyUnionUtility assigns result.{{member.cname}}; NOT registered in run() until the defect is fixed / listed
    r = Rule('C33-FIELD', 'dict -> struct / union converters address the fields of `result` by the Cython names of the members', floor=2)
    src = ctx.read(CCONV)
    for sec, kind in (('FromPyUnionUtility', 'union'), ('FromPyStructUtility', 'struct')):
        text, line = section(src, sec)
        r.inst('field:%s' % sec, sample=sec)
        for present, extra, out, prob in dict_table(text, kind, 1, strict_names=True):
            if prob and 'C name of the member' in prob:
                r.violate('CConvert.pyx:%s:field-name' % sec, CCONV, line, '%s (dict -> C %s) with 1 members: a mapping holding {%s} %s' % (sec, kind, ', '.join(present), prob))
                break
    return r


# ====================================================================================== C33-ENC
ASCII, UTF8 = '__PYX_DEFAULT_STRING_ENCODING_IS_ASCII', '__PYX_DEFAULT_STRING_ENCODING_IS_UTF8'
UTF8_BUF_CALLS = ('PyUnicode_AsUTF8', 'PyUnicode_AsUTF8AndSize')
CHARLEN_CALLS = ('PyUnicode_GET_LENGTH', 'PyUnicode_GetLength', '__Pyx_PyUnicode_GET_LENGTH')
ASCII_PRED = ('PyUnicode_IS_ASCII',)


def preprocess(body, env):
    """Select the lines of `body` that are active for the macro values in env (only #if / #elif / #else / #endif with integer conditions)."""
    out, stack = [], []        # stack of [any branch taken so far, this branch active, enclosing active]
    for line in body.split('\n'):
        m = re.match(r'^\s*#\s*(if|ifdef|ifndef|elif|else|endif)\b(.*)$', line)
        if not m:
            if re.match(r'^\s*#', line):
                if all(f[1] for f in stack):
                    raise AnalysisError('C33-ENC: preprocessor line %r inside the helper is not modelled' % line.strip())
                out.append('')
                continue
            out.append(line if all(f[1] for f in stack) else '')
            continue
        d, rest = m.group(1), m.group(2).strip()
        outer = all(f[1] for f in stack[:-1]) if d in ('elif', 'else', 'endif') else all(f[1] for f in stack)

        def cond(text):
            try:
                return bool(cexpr.evaluate(cexpr.parse(text), env))
            except (cexpr.ParseError, cexpr.EvalError) as e:
                raise AnalysisError('C33-ENC: cannot decide `#if %s` for the configuration %s: %s' % (text, env, e))
        if d == 'if':
            v = cond(rest) if outer else False
            stack.append([v, v])
        elif d in ('ifdef', 'ifndef'):
            raise AnalysisError('C33-ENC: #%s is not modelled' % d)
        elif d == 'elif':
            if not stack:
                raise AnalysisError('C33-ENC: #elif without #if')
            f = stack[-1]
            v = (not f[0]) and outer and cond(rest)
            f[1] = v
            f[0] = f[0] or v
        elif d == 'else':
            f = stack[-1]
            v = (not f[0]) and outer
            f[1] = v
            f[0] = True
        else:
            if not stack:
                raise AnalysisError('C33-ENC: #endif without #if')
            stack.pop()
        out.append('')
    if stack:
        raise AnalysisError('C33-ENC: unbalanced #if in helper body')
    return '\n'.join(out)


def _strip_likely(e):
    while e[0] == 'call' and e[1] in ('likely', 'unlikely') and len(e[2]) == 1:
        e = e[2][0]
    return e


def _conjuncts(e, positive=True):
    """[(atom, polarity)] that hold when e is true (positive) / false (not positive); only the sound decompositions."""
    e = _strip_likely(e)
    if e[0] == 'un' and e[1] == '!':
        return _conjuncts(e[2], not positive)
    if e[0] == 'bin' and e[1] == '&&' and positive:
        return _conjuncts(e[2], True) + _conjuncts(e[3], True)
    if e[0] == 'bin' and e[1] == '||' and not positive:
        return _conjuncts(e[2], False) + _conjuncts(e[3], False)
    if e[0] == 'bin' and e[1] in ('&&', '||'):
        return []
    return [(e, positive)]


class EncWalk:
    """Path walk over the statements of one configuration of a str -> char* helper."""

    def __init__(self, obj, length_param, ascii_cfg):
        self.obj, self.lenp, self.ascii_cfg = obj, length_param, ascii_cfg
        self.returns = []       # (expression text, problems)

    def is_obj(self, e):
        return e == ('id', self.obj)

    def walk(self, stmts, st):
        """st: dict(ascii=bool, charlen=set(names), bytelen_set=bool, charlen_as_len=bool, utf8bufs=set(names)); returns the state that falls through or None."""
        for s in stmts:
            if st is None:
                return None
            st = self.stmt(s, st)
        return st

    def expr(self, text):
        text = re.sub(r'"(?:\\.|[^"\\])*"', '__sa_string_literal', text)
        try:
            return cexpr.parse(text)
        except cexpr.ParseError:
            return None

    def scan_calls(self, e, st, target=None):
        """Effects of the calls inside expression e (buffer / length producers)."""
        for n in cexpr.walk(e):
            if n[0] != 'call':
                continue
            name, args = n[1], n[2]
            if name == 'PyUnicode_AsUTF8AndSize' and len(args) == 2 and self.is_obj(args[0]):
                if args[1] == ('id', self.lenp):
                    st['len'] = 'bytes'
            if name == 'PyArg_Parse' and len(args) >= 4 and self.is_obj(args[0]):
                if args[-1] == ('id', self.lenp):
                    st['len'] = 'bytes'
                a = args[-2]
                if a[0] == 'un' and a[1] == '&' and a[2][0] == 'id':
                    st['utf8bufs'] = st['utf8bufs'] | {a[2][1]}

    def is_utf8_buffer(self, e, st):
        e = _strip_likely(e)
        while e[0] == 'cast':
            e = e[2]
        if e[0] == 'call' and e[1] in UTF8_BUF_CALLS and e[2] and self.is_obj(e[2][0]):
            return True
        if e[0] == 'id' and e[1] in st['utf8bufs']:
            return True
        return False

    def is_charlen(self, e, st):
        while e[0] == 'cast':
            e = e[2]
        if e[0] == 'call' and e[1] in CHARLEN_CALLS and len(e[2]) == 1 and self.is_obj(e[2][0]):
            return True
        return e[0] == 'id' and e[1] in st['charlen']

    def is_bytelen(self, e, st):
        while e[0] == 'cast':
            e = e[2]
        return e == ('un', '*', ('id', self.lenp)) and st['len'] == 'bytes'

    def refine(self, cond, st, branch):
        """State for the true (branch=True) / false branch of `if (cond)`."""
        st = dict(st)
        if cond is None:
            return st
        for atom, pol in _conjuncts(cond, branch):
            a = _strip_likely(atom)
            if a[0] == 'call' and a[1] in ASCII_PRED and len(a[2]) == 1 and self.is_obj(a[2][0]) and pol:
                st['ascii'] = True
            if a[0] == 'bin' and a[1] in ('==', '!='):
                eq = (a[1] == '==') == pol
                x, y = a[2], a[3]
                if eq and ((self.is_charlen(x, st) and self.is_bytelen(y, st)) or (self.is_charlen(y, st) and self.is_bytelen(x, st))):
                    st['ascii'] = True
        return st

    def stmt(self, s, st):
        k = s.kind
        if k == 'block':
            return self.walk(s.body, st)
        if k == 'if':
            cond = self.expr(s.text)
            if cond is not None:
                self.scan_calls(cond, st)
            a = self.walk(pC17.as_list(s.body), self.refine(cond, st, True))
            b_in = self.refine(cond, st, False)
            b = self.walk(pC17.as_list(s.orelse), b_in) if s.orelse is not None else b_in
            if a is None:
                return b
            if b is None:
                return a
            return {'ascii': a['ascii'] and b['ascii'], 'charlen': a['charlen'] & b['charlen'], 'utf8bufs': a['utf8bufs'] & b['utf8bufs'],
                    'len': a['len'] if a['len'] == b['len'] else None}
        if k == 'simple':
            t = s.text.strip().rstrip(';').strip()
            if not t:
                return st
            m = re.match(r'^return\b\s*(.*)$', t, re.S)
            if m:
                self.ret(m.group(1).strip(), st)
                return None
            if re.match(r'^(goto|break|continue)\b', t):
                raise AnalysisError('C33-ENC: jump statement `%s` in the helper is not modelled' % t)
            st = dict(st)
            # declarations: `T name;` / `T name = init;`
            md = re.match(r'^(?:const\s+)?[A-Za-z_][\w\s\*]*?[\s\*]([A-Za-z_]\w*)\s*(?:=\s*(.+))?$', t, re.S)
            ma = re.match(r'^(\*?\s*[A-Za-z_]\w*)\s*=(?!=)\s*(.+)$', t, re.S)
            if ma:
                lhs, rhs = ma.group(1).replace(' ', ''), self.expr(ma.group(2))
                if rhs is None:
                    raise AnalysisError('C33-ENC: cannot parse `%s`' % t)
                self.scan_calls(rhs, st)
                if lhs == '*' + self.lenp:
                    st['len'] = 'chars' if self.is_charlen(rhs, st) else ('bytes' if self.is_bytelen(rhs, st) else 'other')
                elif not lhs.startswith('*'):
                    st['charlen'] = (st['charlen'] | {lhs}) if self.is_charlen(rhs, st) else (st['charlen'] - {lhs})
                    st['utf8bufs'] = (st['utf8bufs'] | {lhs}) if self.is_utf8_buffer(rhs, st) else (st['utf8bufs'] - {lhs})
                return st
            if md and md.group(2) is None:
                return st
            if md and md.group(2) is not None:
                rhs = self.expr(md.group(2))
                if rhs is not None:
                    self.scan_calls(rhs, st)
                    n = md.group(1)
                    if self.is_charlen(rhs, st):
                        st['charlen'] = st['charlen'] | {n}
                    if self.is_utf8_buffer(rhs, st):
                        st['utf8bufs'] = st['utf8bufs'] | {n}
                return st
            e = self.expr(t)
            if e is not None:
                self.scan_calls(e, st)
            return st
        raise AnalysisError('C33-ENC: statement kind %s in the helper is not modelled' % k)

    def ret(self, text, st):
        if text in ('NULL', '0', '((void*)0)', ''):
            return
        e = self.expr(text)
        if e is None:
            raise AnalysisError('C33-ENC: cannot parse `return %s`' % text)
        st = dict(st)
        self.scan_calls(e, st)
        probs = []
        if not self.is_utf8_buffer(e, st):
            probs.append(('source', 'returns `%s`, which is not a UTF-8 buffer of the argument (PyUnicode_AsUTF8 / PyUnicode_AsUTF8AndSize / "s#")' % text))
        if st['len'] is None or st['len'] == 'other':
            probs.append(('length', 'returns a buffer without having stored its byte length through the length parameter on this path'))
        if st['len'] == 'chars' and not st['ascii']:
            probs.append(('length', 'stores the CHARACTER count as the byte length of a UTF-8 buffer without an ASCII witness: the two differ for every non-ASCII string'))
        if self.ascii_cfg and not st['ascii']:
            probs.append(('ascii', 'returns the UTF-8 buffer although nothing on the path establishes that the string is ASCII (a positive PyUnicode_IS_ASCII(%s) guard, or an '
                                   'exit taken when character count != UTF-8 byte count): with c_string_encoding=ascii a non-ASCII str is converted instead of raising' % self.obj))
        self.returns.append((text, probs))


def enc_function_problems(body, params, cfgs):
    """-> {cfg description: [(return text, [(kind, problem)])]}"""
    names = [re.findall(r'[A-Za-z_]\w*', p)[-1] for p in params]
    if len(names) != 2:
        raise AnalysisError('C33-ENC: str -> char* helper takes %d parameters, expected (object, length*)' % len(names))
    obj, lenp = names
    res = {}
    for desc, env in cfgs:
        active = preprocess(body, env)
        w = EncWalk(obj, lenp, bool(env.get(ASCII)))
        end = w.walk(pC17.parse_body(active), {'ascii': False, 'charlen': frozenset(), 'utf8bufs': frozenset(), 'len': None})
        if end is not None:
            w.returns.append(('<end of function>', [('source', 'control reaches the end of the helper without a return')]))
        if not w.returns:
            raise AnalysisError('C33-ENC: configuration %s of the helper returns no buffer' % desc)
        res[desc] = w.returns
    return res


ENC_BAD = '''{
#if __PYX_DEFAULT_STRING_ENCODING_IS_ASCII
    if (likely(__Pyx_PyUnicode_KIND(o) == PyUnicode_1BYTE_KIND)) {
        *length = PyUnicode_GET_LENGTH(o);
        return PyUnicode_AsUTF8(o);
    } else {
        PyUnicode_AsASCIIString(o);
        return NULL;
    }
#else
    return PyUnicode_AsUTF8AndSize(o, length);
#endif
}'''


def rule_enc(ctx):
    r = Rule('C33-ENC', 'str -> char* helpers that depend on the default C string encoding: every returned buffer is the UTF-8 buffer of the argument with its byte length stored, '
                        'is ASCII-witnessed in the ASCII configuration, and the decoding macro uses the decoder of the same encoding flag', floor=8)
    cat = ctx.cat
    funcs = []
    for name, decls in cat.decls.items():
        for d in decls:
            # an encoder: returns char*, depends on the ASCII flag and produces a UTF-8 buffer itself (dispatchers that only forward are not encoders)
            if d.kind == 'func' and d.body and ASCII in d.body and re.search(r'char\s*\*', d.ret or '') \
                    and re.search(r'\b(?:%s)\s*\(|"s#"' % '|'.join(UTF8_BUF_CALLS), d.body):
                funcs.append((name, d))
    if not funcs:
        raise AnalysisError('C33-ENC: no str -> char* helper in Cython/Utility depends on %s any more; adapt the rule' % ASCII)
    for name, d in funcs:
        macros = set(re.findall(r'^\s*#\s*(?:el)?if\b(.*)$', d.body, re.M))
        idents = set()
        for c in macros:
            idents |= set(re.findall(r'(?<![\w])[A-Za-z_]\w*', c))
        known = {ASCII, UTF8, 'CYTHON_COMPILING_IN_LIMITED_API', '__PYX_LIMITED_VERSION_HEX'}
        if idents - known:
            raise AnalysisError('C33-ENC: %s depends on preprocessor symbols %s the configuration space does not model' % (name, sorted(idents - known)))
        cfgs = []
        for asc in (1, 0):
            for lim, ver in ((0, 0), (1, 0x03090000), (1, 0x030D0000)):
                env = {ASCII: asc, UTF8: 1 - asc, 'CYTHON_COMPILING_IN_LIMITED_API': lim, '__PYX_LIMITED_VERSION_HEX': ver}
                desc = '%s,%s' % ('ascii' if asc else 'utf8', 'limited-api-%x' % ver if lim else 'cpython')
                cfgs.append((desc, env))
        res = enc_function_problems(d.body, d.params, cfgs)
        for desc, rets in sorted(res.items()):
            key = 'enc:%s:%s' % (name, desc)
            r.inst(key, sample='%s [%s]: returns %s' % (name, desc, ', '.join(t for t, _ in rets)))
            for text, probs in rets:
                for kind, pb in probs:
                    r.violate('TypeConversion.c:%s:%s:%s' % (name, desc.split(',')[0], kind), 'Cython/Utility/' + d.file, d.line,
                              '%s, configuration [%s], `return %s`: %s' % (name, desc, text, pb))
    # ---- decoder agreement
    dname = '__Pyx_PyUnicode_FromStringAndSize'
    decls = [d for d in cat.decls.get(dname, []) if d.kind == 'macro']
    if len(decls) < 2:
        raise AnalysisError('C33-ENC: %s is no longer selected per encoding flag' % dname)
    for enc, env in (('utf8', {UTF8: 1, ASCII: 0}), ('ascii', {UTF8: 0, ASCII: 1}), ('other', {UTF8: 0, ASCII: 0})):
        chosen = [d for d in decls if _conds_hold(d.conds, env)]
        key = 'dec:%s:%s' % (dname, enc)
        r.inst(key, sample='%s [%s] -> %s' % (dname, enc, chosen[0].body if chosen else None))
        if len(chosen) != 1:
            r.violate('TypeConversion.c:%s:%s' % (dname, enc), TCONV, decls[0].line, '%s has %d definitions for the %s configuration' % (dname, len(chosen), enc))
            continue
        body = chosen[0].body or ''
        calls = re.findall(r'\b(PyUnicode_Decode\w*)\s*\(', body)
        want = {'utf8': 'PyUnicode_DecodeUTF8', 'ascii': 'PyUnicode_DecodeASCII', 'other': 'PyUnicode_Decode'}[enc]
        ok = calls == [want] and (enc != 'other' or re.search(r'\b__PYX_DEFAULT_STRING_ENCODING\b', body))
        if not ok:
            r.violate('TypeConversion.c:%s:%s' % (dname, enc), TCONV, chosen[0].line,
                      '%s decodes with `%s` in the %s configuration, required %s%s: char* -> str does not invert str -> char*' % (
                          dname, ' '.join(body.split()), enc, want, ' with __PYX_DEFAULT_STRING_ENCODING' if enc == 'other' else ''))
    # ---- positive control
    pc = enc_function_problems(ENC_BAD, ['PyObject* o', 'Py_ssize_t *length'], [('ascii', {ASCII: 1, UTF8: 0}), ('utf8', {ASCII: 0, UTF8: 1})])
    bad = [k for _, ps in pc['ascii'] for k, _ in ps]
    r.positive_control('ascii' in bad and 'length' in bad and not any(ps for _, ps in pc['utf8']), '1-byte-kind test instead of PyUnicode_IS_ASCII')
    return r


def _conds_hold(conds, env):
    """conds: tuple of chains 'if A; elif B; else ' (one per nesting level) -> whether the LAST arm of every chain is the active one."""
    for chain in conds:
        arms = [a.strip() for a in chain.split(';')]
        taken = False
        val = False
        for i, a in enumerate(arms):
            m = re.match(r'^(if|elif|else)\b\s*(.*)$', a)
            if not m:
                raise AnalysisError('C33-ENC: cannot read preprocessor chain %r' % chain)
            if m.group(1) == 'else':
                v = not taken
            else:
                try:
                    v = (not taken) and bool(cexpr.evaluate(cexpr.parse(m.group(2)), env))
                except (cexpr.ParseError, cexpr.EvalError) as e:
                    raise AnalysisError('C33-ENC: cannot decide `#if %s`: %s' % (m.group(2), e))
            taken = taken or v
            val = v
        if not val:
            return False
    return True
